#!/usr/bin/env python3
"""Translator / model conformance (DESIGN.md 2.3): the same concrete inputs go through the real build (native replay
binary) and through the engine executing the MIR concretely with the std models; any difference fails setup.
This tests the translator and the models, not the properties."""
import sys, os, json, random, time
sys.path.insert(0, os.path.dirname(os.path.dirname(os.path.abspath(__file__))))
from mirsym import harness as H, build
from mirsym.values import *
from mirsym.engine import Engine, State, some, none
from mirsym.models import MODELS

ALPH = list(' \t"\\#=:!$%{}abn01') + ['\r', 'é', '\u00a0', '😀', 'x', 'y', '(', ')']


def rnd_text(r, maxlines=3, maxlen=10):
    lines = []
    for _ in range(r.randint(0, maxlines)):
        lines.append(''.join(r.choice(ALPH) for _ in range(r.randint(0, maxlen))))
    sep = r.choice(['\n', '\r\n'])
    t = sep.join(lines)
    if r.random() < 0.5: t += sep
    return t


def conc(v):
    """engine value -> plain python (for comparison with the native JSON)"""
    if isinstance(v, S): return str_concrete(v)
    if isinstance(v, V): return [conc(x) for x in v.it[:v.len]]
    if isinstance(v, E):
        if v.ty == 'std::option::Option': return None if v.d == 0 else conc(v.p[1][0])
        return (v.ty, v.d, [conc(x) for x in v.p.get(v.d, [])])
    if isinstance(v, T): return [conc(x) for x in v.f]
    if isinstance(v, (PV,)): return conc(v.v)
    return v


def engine_parse(mir, types, text):
    e = Engine(mir, types, MODELS, unwind=64)
    e.hooks['preprocessor::include_files_preprocessor::run'] = lambda eng, st, a, c: E('std::result::Result', 0, {0: [V(0, [])]})
    rs, rv = e.run('core', 'parser::parse_text', [mk_str(text)], State(True, {}))
    bad = [o for o in e.obligations if o.cond is False or (o.guard is True and o.cond is not True)]
    if rv.d == 0:
        out = []
        for ins in rv.p[0][0].it[:rv.p[0][0].len]:
            meta, ity = ins.f
            d = dict(line=conc(meta.f[0]), source=conc(meta.f[1]))
            if ity.d == 0: d['type'] = 'empty'
            elif ity.d == 1:
                p = ity.p[1][0]; d.update(type='preprocess', command=conc(p.f[0]), arguments=conc(p.f[1]))
            else:
                s = ity.p[2][0]; d.update(type='script', label=conc(s.f[0]), output=conc(s.f[1]), command=conc(s.f[2]), arguments=conc(s.f[3]))
            out.append(d)
        return dict(ok=True, instructions=out)
    errv = rv.p[1][0]
    names = types.enums['types::error::ScriptError']
    meta = errv.p[errv.d][0]
    return dict(ok=False, error=dict(kind=names[errv.d], line=conc(meta.f[0]) if isinstance(meta, T) else None))


def engine_not(mir, types, toks):
    from props.c06 import invocation_context, run_command
    e = Engine(mir, types, MODELS, unwind=32, max_rec=8)
    ctxv, st = invocation_context(e, V(len(toks), [mk_str(t) for t in toks]))
    rs, rv = run_command(e, 'sdk::std::not::CommandImpl', ctxv, st)
    if rv.d == 0: return conc(rv.p[0][0])
    return 'ERR'


def main():
    seed = int(os.environ.get('VERIF_SEED', '0') or 0)
    r = random.Random(1234 + seed)
    mir, types = build.load(('core', 'sdk'))
    t0 = time.time()
    texts = [rnd_text(r) for _ in range(250)] + ['', 'a', ':l x = c "a b" # t', '!print a', 'a "b', 'x = "c"', ' \u00a0a\u00a0 ', 'a\r', 'a\r\r\nb']
    texts = [t for t in texts if 'include_files' not in t]
    native = H.replay(dict(mode='batch', cases=[dict(mode='parse', text=t) for t in texts]), timeout=300)['results']
    bad = 0
    for t, n in zip(texts, native):
        g = engine_parse(mir, types, t)
        if n.get('ok'):
            same = g['ok'] and g['instructions'] == n['instructions']
        else:
            same = (not g['ok']) and g['error']['kind'] == n['error']['kind'] and g['error']['line'] == n['error']['line']
        if not same:
            bad += 1; print('PARSER MISMATCH on %r:\n  native %r\n  engine %r' % (t, n, g))
    # conditions through the not command
    words = ['true', 'false', 'FALSE', 'no', 'No', '0', '', 'x', '(', ')', 'and', 'or', '00', ' ']
    cases = [[r.choice(words) for _ in range(r.randint(1, 7))] for _ in range(200)]
    native = H.replay(dict(mode='batch', cases=[dict(mode='sdk', script='r = not ' + ' '.join('${t%d}' % i for i in range(len(c))),
                                                     vars={'t%d' % i: w for i, w in enumerate(c)}) for c in cases]), timeout=300)['results']
    for c, n in zip(cases, native):
        if c[0] in ('true', 'false', 'no', 'x', '00') and False: pass
        g = engine_not(mir, types, c)
        nv = n.get('vars', {}).get('r') if n.get('ok') else 'FAIL'
        # an Error result of `not` stores "false" in the output variable
        exp = 'false' if g == 'ERR' else g
        if nv != exp:
            bad += 1; print('CONDITION MISMATCH on %r: native %r engine %r' % (c, nv, g))
    print('conformance: %d parser texts, %d condition statements, %d mismatches, %.1fs' % (len(texts), len(cases), bad, time.time() - t0))
    sys.exit(1 if bad else 0)


if __name__ == '__main__':
    main()
