#!/usr/bin/env python3
"""Conformance part 3: random straight-line scripts over SDK commands (variables, scope stack, collections, strings, comparisons)
run concretely by the engine (real MIR of runner::run + the commands, std models) and natively; final variables must agree.
This exercises the std models on the real code paths of the commands (HashMap, Vec, String, iterators, Rc/RefCell, fmt, parse)."""
import sys, os, re, glob, random, time, json
sys.path.insert(0, os.path.dirname(os.path.dirname(os.path.abspath(__file__))))
from mirsym import harness as H, build
from mirsym.values import *
from mirsym.engine import Engine, State, some, none
from mirsym.models import MODELS, map_lookup, str_concat


def sdk_commands():
    """alias -> (type path of the Command struct, number of fields), from the SDK sources of the current tree"""
    root = os.path.join(build.REPO, 'duckscript_sdk', 'src', 'sdk', 'std')
    out = {}
    for p in glob.glob(os.path.join(root, '**', 'mod.rs'), recursive=True):
        src = open(p).read()
        rel = os.path.relpath(os.path.dirname(p), os.path.join(build.REPO, 'duckscript_sdk', 'src')).replace(os.sep, '::')
        for m in re.finditer(r'impl Command for (\w+) \{', src):
            struct = m.group(1)
            body = src[m.end():]
            nxt = re.search(r'\nimpl |\npub\(crate\) fn create|\nfn ', body)
            body = body[:nxt.start()] if nxt else body
            am = re.search(r'fn aliases\(&self\) -> Vec<String> \{\s*vec!\[(.*?)\]', body, re.S)
            if not am:
                if rel.endswith('flowcontrol::end'): out['end'] = (rel + '::' + struct, 0)      # registered under its name only
                continue
            sm = re.search(r'struct %s\s*(\{([^}]*)\}|;)' % struct, src)
            nf = 0 if (sm is None or sm.group(2) is None) else len([x for x in sm.group(2).split(',') if x.strip()])
            for a in re.findall(r'"([^"]+)"', am.group(1)): out[a] = (rel + '::' + struct, nf)
    return out


VALS = ['a', 'b c', '', '0', '12', '-3', 'é', 'x=y', 'AbC', ' p ', 'aa', 'aaa']
NAMES = ['v1', 'v2', 's::x']


def gen_script(r, cmds):
    lines = []; handles = []
    def val(): return r.choice(VALS)
    def q(s): return '"%s"' % s
    def ref(): return '${%s}' % r.choice(NAMES)
    def arg(): return q(val()) if r.random() < 0.7 else ref()
    pool = [
        lambda: '%s = set %s' % (r.choice(NAMES), arg()),
        lambda: 'set_by_name %s %s' % (r.choice(NAMES), arg()),
        lambda: '%s = get_by_name %s' % (r.choice(NAMES), r.choice(NAMES)),
        lambda: '%s = is_defined %s' % (r.choice(NAMES), r.choice(NAMES)),
        lambda: 'unset_all_vars --prefix %s' % r.choice(['v', 's', 's::', 'v2']),
        lambda: 'clear_scope %s' % r.choice(['s', 'v']),
        lambda: '%s = scope_push_stack%s' % (r.choice(NAMES), r.choice(['', ' --copy v1', ' --copy v1 s::x', ' --copy v2 v2'])),
        lambda: '%s = scope_pop_stack%s' % (r.choice(NAMES), r.choice(['', ' --copy v1', ' --copy v2 s::x'])),
    ]
    for c, n in (('length', 1), ('indexof', 2), ('last_indexof', 2), ('contains', 2), ('starts_with', 2), ('ends_with', 2), ('equals', 2), ('is_empty', 1),
                 ('trim', 1), ('trim_start', 1), ('trim_end', 1), ('less_than', 2), ('greater_than', 2), ('not', 1)):
        if c in ('less_than', 'greater_than'):      # operands inside the partial f64 model: integer literals or clearly non-numeric text
            pool.append(lambda c=c: '%s = %s %s' % (r.choice(NAMES), c, ' '.join(q(r.choice(['0', '12', '-3', '007', '+5', 'x=z', 'b c', 'é', ''])) for _ in range(r.choice([1, 2, 2, 2, 3])))))
        elif c in cmds: pool.append(lambda c=c, n=n: '%s = %s %s' % (r.choice(NAMES), c, ' '.join(arg() for _ in range(n))))
    pool.append(lambda: '%s = replace %s %s %s' % (r.choice(NAMES), q(r.choice(['aXbXc', 'aaa', 'abab', '', 'x=y'])), q(r.choice(['X', 'aa', 'ab', 'zz', '='])), q(r.choice(['', '-', 'XX']))))
    def split_():
        h = 'h%d' % len(handles); handles.append(h)
        return '%s = split %s %s' % (h, q(r.choice(['aXbXc', 'aaa', 'abab', 'a b c', ''])), q(r.choice(['X', 'aa', 'ab', ' ', 'zz'])))
    pool.append(split_)
    pool.append(lambda: '%s = substring %s %s' % (r.choice(NAMES), arg(), ' '.join(r.choice(['0', '1', '2', '-1', '5', 'x']) for _ in range(r.randint(0, 2)))))
    def coll():
        k = r.random()
        if not handles or k < 0.25:
            kind = r.choice(['array', 'map', 'set_new']); h = 'h%d' % len(handles); handles.append(h)
            return '%s = %s%s' % (h, kind, (' ' + ' '.join(q(val()) for _ in range(r.randint(0, 2)))) if kind != 'map' else '')
        h = '${%s}' % r.choice(handles)
        return r.choice([
            lambda: 'r%d = array_push %s %s' % (r.randint(0, 2), h, q(val())), lambda: 'r%d = array_pop %s' % (r.randint(0, 2), h),
            lambda: 'r%d = array_get %s %d' % (r.randint(0, 2), h, r.randint(0, 2)), lambda: 'r%d = array_length %s' % (r.randint(0, 2), h),
            lambda: 'r%d = array_set %s %d %s' % (r.randint(0, 2), h, r.randint(0, 2), q(val())), lambda: 'r%d = array_remove %s %d' % (r.randint(0, 2), h, r.randint(0, 2)),
            lambda: 'r%d = map_put %s %s %s' % (r.randint(0, 2), h, q(val()), q(val())), lambda: 'r%d = map_get %s %s' % (r.randint(0, 2), h, q(val())),
            lambda: 'r%d = map_remove %s %s' % (r.randint(0, 2), h, q(val())), lambda: 'r%d = map_size %s' % (r.randint(0, 2), h),
            lambda: 'r%d = set_put %s %s' % (r.randint(0, 2), h, q(val())), lambda: 'r%d = set_contains %s %s' % (r.randint(0, 2), h, q(val())),
            lambda: 'r%d = set_size %s' % (r.randint(0, 2), h), lambda: 'r%d = set_remove %s %s' % (r.randint(0, 2), h, q(val())),
            lambda: 'r%d = is_array %s' % (r.randint(0, 2), h), lambda: 'r%d = is_map %s' % (r.randint(0, 2), h), lambda: 'r%d = release %s' % (r.randint(0, 2), h),
        ])()
    pool += [coll] * 6
    for _ in range(r.randint(2, 8)): lines.append(r.choice(pool)())
    return lines


def gen_program(r):
    """a well-nested program over if/elseif/else, while, for-in and functions; the trace is built in ${t} by plain `set` lines"""
    lines = ['c1 = set %s' % r.choice(['true', 'false']), 'c2 = set %s' % r.choice(['true', 'false', '0', 'x']), 'arr = array p q', 't = set ""']
    tag = [0]
    def emit(extra=''):
        tag[0] += 1; return 't = set "${t}%s%s"' % (chr(96 + (tag[0] % 26) + 1), extra)
    nfn = r.randint(0, 2); fnames = ['f%d' % i for i in range(nfn)]
    def block(depth, in_fn, callable_):
        out = []
        for _ in range(r.randint(1, 3)):
            k = r.choice(['emit', 'emit', 'if', 'for', 'while', 'call'] + (['return'] if in_fn else []))
            if depth <= 0 and k in ('if', 'for', 'while'): k = 'emit'
            if k == 'emit': out.append(emit(r.choice(['', '${i}', '${1}'])))
            elif k == 'if':
                out.append('%s %s' % (r.choice(['if', 'if not']), r.choice(['${c1}', '${c2}', 'true and ${c1}', '( ${c1} or ${c2} )'])))
                out += block(depth - 1, in_fn, callable_)
                if r.random() < 0.4: out.append('elseif ${c2}'); out += block(depth - 1, in_fn, callable_)
                if r.random() < 0.5: out.append('else'); out += block(depth - 1, in_fn, callable_)
                out.append(r.choice(['end', 'end_if']))
            elif k == 'for':
                out.append('for i in ${arr}'); out += block(depth - 1, in_fn, callable_); out.append(r.choice(['end', 'end_for']))
            elif k == 'while':
                tag[0] += 1; w = 'w%d' % tag[0]
                out.append('%s = set true' % w); out.append('while ${%s}' % w); out += block(depth - 1, in_fn, callable_)
                out.append('%s = set false' % w); out.append(r.choice(['end', 'end_while']))
            elif k == 'call' and callable_:
                tag[0] += 1; out.append('%s%s %s' % (r.choice(['', 'y%d = ' % tag[0]]), r.choice(callable_), r.choice(['a', '${c1}', 'false'])))
            elif k == 'return': out.append('return' + r.choice(['', ' r', ' ${1}']))
        return out
    for i, f in enumerate(fnames):
        lines.append('%s %s%s' % (r.choice(['fn', 'function']), r.choice(['', '<scope> ']), f)); lines += block(2, True, fnames[:i]); lines.append(r.choice(['end', 'end_fn']))
    lines += block(2, False, fnames)
    for f in fnames:
        lines.append('z = %s true' % f); lines.append(emit('${z}'))
    lines.append('release ${arr}')
    return lines


def engine_run(mir, types, cmds, lines, keyctr):
    e = Engine(mir, types, MODELS, unwind=600, max_rec=12); e.int_digits = 3
    # deterministic handle keys: the k-th put_handle of a run gets "handle:K<k>" (the native keys are random; handles are compared by role)
    def h_put(eng, st, a, callee):
        keyctr[0] += 1; key = mk_str('handle:K%d' % keyctr[0])
        eng.run_call('utils::state::return_handle', st, [a[0], key, a[1]], 'sdk'); return key
    e.hooks['utils::state::put_handle'] = h_put
    e.hooks['std::sync::atomic::Atomic::<bool>::load'] = lambda eng, st1, a, c: False
    st = State(True, {})
    used = set(tok for l in lines for tok in l.split() if tok in cmds)      # every token that names a command (conditions may start with one)
    # register every used command through the real Commands::set (name + all aliases), flow-control commands with their package
    st.m[(0, 'reg')] = T([M([]), M([])], 'types::command::Commands')
    done = set()
    flow = any(n in ('if', 'while', 'for', 'fn', 'function') for n in used)
    need = set(n for n in used if n in cmds) | (set(n for n in cmds if 'flowcontrol' in cmds[n][0]) if flow else set())
    for n in sorted(need):
        ty, nf = cmds[n]
        if ty in done: continue
        done.add(ty)
        pkg = '::'.join(ty.split('::')[1:-2])      # the package string its parent module passes to create(): std, std::collections, std::flowcontrol, ...
        st, r_ = e.run('core', 'types::command::Commands::set', [P(0, 'reg'), e.alloc(st, T([mk_str(pkg)] * nf, ty))], st)
        if r_.d != 0: return dict(ok=False, stage='registry', error=str_concrete(r_.p[1][0].p[r_.p[1][0].d][0]) if isinstance(r_.p[1][0].p[r_.p[1][0].d][0], S) else str(r_.p[1][0])[:200])
    commands = e.read(st, ('mem', 0, 'reg', []))
    rs0, rv0 = e.run('core', 'parser::parse_text', [mk_str('\n'.join(lines))], st)
    if rs0 is None: return dict(ok=False, stage='parse diverged', what=[o.msg for o in e.obligations if o.cond is False][:3])
    if rv0.d != 0: return dict(ok=False, stage='parse')
    context = T([M([]), M([]), commands], 'types::runtime::Context')
    env = some(T([Opaque('out'), Opaque('err'), e.alloc(rs0, False)], 'types::env::Env'))
    rs, rv = e.run('core', 'runner::run', [rv0.p[0][0], context, env], rs0)
    if rs is None: return dict(ok=False, stage='diverged', what=[o.msg for o in e.obligations if o.cond is False][:3])
    bad = [o for o in e.obligations if o.kind == 'panic' and (o.cond is False) and (o.guard is True)]
    if bad: return dict(ok=False, stage='panic', what=bad[0].msg)
    if rv.d != 0: return dict(ok=False, stage='run', error=str(rv.p[1][0])[:300])
    vars_ = {}
    for p, k, v in rv.p[0][0].f[0].ents:
        if p is True: vars_[str_concrete(k)] = str_concrete(v)
        elif p is not False: return dict(ok=False, stage='symbolic presence')
    return dict(ok=True, vars=vars_)


def canon(vars_):
    """handles are compared by order of first appearance"""
    seen = {}
    out = {}
    for k in sorted(vars_):
        v = vars_[k]
        if isinstance(v, str) and v.startswith('handle:'):
            out[k] = 'handle#'      # identity of handle keys is not compared (random natively)
        else: out[k] = v
    return out


def main():
    seed = int(os.environ.get('VERIF_SEED', '0') or 0)
    n = int(os.environ.get('CONF_SCRIPTS', '150'))
    r = random.Random(4321 + seed)
    mir, types = build.load(('core', 'sdk'))
    cmds = sdk_commands()
    t0 = time.time()
    scripts = [gen_script(r, cmds) for _ in range(n)] + [gen_program(r) for _ in range(n // 3)]
    native = H.replay(dict(mode='batch', cases=[dict(mode='sdk', script='\n'.join(s)) for s in scripts]), timeout=600)['results']
    bad = 0; skipped = 0
    for s, nv in zip(scripts, native):
        try: g = engine_run(mir, types, cmds, s, [0])
        except Abort as ex:
            skipped += 1; print('ENGINE ABORT on %r: %s' % (s, ex)); bad += 1; continue
        if nv.get('panic'): print('NATIVE PANIC on %r' % (s,)); bad += 1; continue
        if bool(nv.get('ok')) != g['ok']:
            bad += 1; print('SCRIPT MISMATCH (ok) on %r:\n  native %r\n  engine %r' % (s, nv.get('error') or 'ok', g)); continue
        if g['ok'] and canon(nv['vars']) != canon(g['vars']):
            bad += 1; print('SCRIPT MISMATCH on %r:\n  native %r\n  engine %r' % (s, canon(nv['vars']), canon(g['vars'])))
    print('conformance scripts: %d scripts over %d SDK commands, %d mismatches, %.1fs' % (len(scripts), len(cmds), bad, time.time() - t0))
    sys.exit(1 if bad else 0)


if __name__ == '__main__':
    main()
