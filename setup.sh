#!/bin/bash
# MANIFEST.setup_cmd: build everything the checks need, offline, from files on disk only.
set -e
cd "$(dirname "$0")"
export CARGO_NET_OFFLINE=true PYTHONPATH="$PWD"
mkdir -p evidence "${VERIF_CACHE:-/root/.cache/duckverif}"
# 1. nightly MIR dumps of /repo's current tree (also warms the dependency build cache)
python3-vt -m mirsym.build core sdk cli
# 2. native replay binary (stable toolchain, path dependencies on /repo)
cp /repo/Cargo.lock replay/Cargo.lock
python3-vt -c "from mirsym import harness; print('replay binary:', harness.build_replay())"
# 3. conformance of the std models against the real std (native) and of the engine against the repo's own test inputs
if [ -f conformance/run.py ]; then python3-vt conformance/run.py; fi
# 4. the same for whole scripts over ~200 SDK commands (variables, scope stack, collections, strings, flow control, functions)
if [ -f conformance/scripts.py ]; then CONF_SCRIPTS=${CONF_SCRIPTS:-150} python3-vt conformance/scripts.py; fi
echo setup ok
