"""Discharging proof obligations with z3 (and cvc5 as cross-check in the thorough tier)."""
import time, os, subprocess, tempfile, multiprocessing
import z3
from .values import *


class Result:
    def __init__(s):
        s.total = 0; s.discharged = 0; s.failed = []      # failed: [(Obligation, model or None, 'sat'|'unknown')]
        s.queries = 0; s.solver_time = 0.0; s.unknown = 0


def _lit(e, formula, tag):
    if formula is True or formula is False: return formula
    l = z3.Bool('%s!%d' % (tag, next(e.fresh)))
    d = (l == formula)
    e.assumptions.append(d); e.solver.add(d)
    return l


def discharge(e, obligations=None, timeout_ms=120000, group=True, max_models=8):
    """Decide every obligation guard => cond with the engine's persistent solver.
    First one query for the disjunction of all negations (one query when everything holds), then bisect."""
    res = Result()
    obs = list(e.obligations if obligations is None else obligations)
    res.total = len(obs)
    lits = []
    for o in obs:
        neg = zand(o.guard, znot(o.cond))
        neg = simp(neg)
        if neg is False:
            res.discharged += 1; continue
        lits.append((o, _lit(e, neg, 'ob')))
    e.solver.set('timeout', timeout_ms)

    def check(ls):
        t = time.time(); res.queries += 1
        if len(ls) == 1: r = e.solver.check(ls[0][1]) if ls[0][1] is not True else e.solver.check()
        else:
            if any(l is True for _, l in ls): r = e.solver.check()
            else:
                d = _lit(e, z3.Or(*[l for _, l in ls]), 'obgrp')
                r = e.solver.check(d)
        res.solver_time += time.time() - t
        return r

    def rec(ls):
        if not ls: return
        r = check(ls)
        if r == z3.unsat:
            res.discharged += len(ls); return
        if len(ls) == 1:
            o = ls[0][0]
            if r == z3.sat:
                res.failed.append((o, e.solver.model(), 'sat'))
            else:
                res.unknown += 1; res.failed.append((o, None, 'unknown'))
            return
        if r == z3.sat and len(res.failed) < max_models:
            # use the model to pick one violated obligation directly
            m = e.solver.model()
            hit = [x for x in ls if x[1] is True or z3.is_true(m.eval(x[1], model_completion=True))]
            if hit:
                res.failed.append((hit[0][0], m, 'sat'))
                rest = [x for x in ls if x is not hit[0]]
                rec(rest); return
        mid = len(ls) // 2
        rec(ls[:mid]); rec(ls[mid:])
    if group: rec(lits)
    else:
        for x in lits: rec([x])
    return res


def check_sat(e, formula, timeout_ms=120000):
    """is assumptions & formula satisfiable? -> (z3 result, model)"""
    e.solver.set('timeout', timeout_ms)
    l = _lit(e, formula, 'q')
    if l is False: return z3.unsat, None
    r = e.solver.check() if l is True else e.solver.check(l)
    return r, (e.solver.model() if r == z3.sat else None)


def model_str(m, sv):
    """concrete python string of S under model m"""
    ln = m.eval(sv.len, model_completion=True).as_long() if is_sym(sv.len) else sv.len
    out = []
    for i in range(ln):
        c = sv.ch[i]
        out.append(chr(m.eval(c, model_completion=True).as_long() if is_sym(c) else c))
    return ''.join(out)


def model_int(m, x):
    return m.eval(x, model_completion=True).as_long() if is_sym(x) else x


def model_bool(m, x):
    return z3.is_true(m.eval(x, model_completion=True)) if is_sym(x) else bool(x)


def smt2_of(e, formula):
    """SMT-LIB2 text of assumptions & formula (for cross-checking with another solver)"""
    s = z3.Solver()
    for a in e.assumptions: s.add(a)
    s.add(formula)
    return s.to_smt2()


def cvc5_check(smt2, timeout_s=120):
    with tempfile.NamedTemporaryFile('w', suffix='.smt2', delete=False) as f:
        f.write(smt2.replace('(check-sat)', '(check-sat)\n')); path = f.name
    try:
        r = subprocess.run(['cvc5', '--lang', 'smt2', '--tlimit=%d' % (timeout_s * 1000), path], capture_output=True, text=True, timeout=timeout_s + 10)
        out = r.stdout.strip().split('\n')[0] if r.stdout.strip() else 'error'
        if '(error' in r.stdout or '(error' in r.stderr: return 'error'
        return out
    except subprocess.TimeoutExpired:
        return 'timeout'
    finally:
        os.unlink(path)
