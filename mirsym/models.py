"""Specification-level models of the std functions the encoded duckscript code calls (DESIGN.md 2.3).
Every model is a small function over the value model; a callee with no model aborts the run (inconclusive)."""
import re
import z3
from .values import *
from .engine import some, none, ok, err, opt, OPTION, RESULT, State, Obligation, strip_generics
from .mirparse import INT_TYPES, scan_top

MODELS = []


def model(*pats):
    def deco(f):
        for p in pats: MODELS.append((re.compile(p), f))
        return f
    return deco


# ------------------------------------------------------------------ string helpers
def as_str(e, st, x):
    """S value of a String / &String / &str / &&str argument"""
    for _ in range(4):
        if isinstance(x, S): return x
        if isinstance(x, (P, PV)): x = e.deref(st, x); continue
        if isinstance(x, U):
            return umap(x, lambda y: as_str(e, st, y))
        break
    if x is POISON: return S(0, [])
    raise Abort('expected string, got %r' % (x,))


def as_vec(e, st, x):
    for _ in range(4):
        if isinstance(x, V): return x
        if isinstance(x, (P, PV)): x = e.deref(st, x); continue
        if isinstance(x, U): return umap(x, lambda y: as_vec(e, st, y))
        break
    if x is POISON: return V(0, [])
    raise Abort('expected vec/slice, got %r' % (x,))


def as_map(e, st, x):
    for _ in range(4):
        if isinstance(x, M): return x
        if isinstance(x, (P, PV)): x = e.deref(st, x); continue
        if isinstance(x, U): return umap(x, lambda y: as_map(e, st, y))
        break
    raise Abort('expected map, got %r' % (x,))


def val(e, st, x):
    """strip one level of reference"""
    if isinstance(x, (P, PV, U)): return e.deref(st, x)
    return x


def str_push(sv, c):
    ch = list(sv.ch)
    if not is_sym(sv.len):
        if sv.len < len(ch): ch[sv.len] = c
        else: ch.append(c)
    else:
        lo, hi = int_bounds(sv.len); lo = max(lo, 0); hi = min(hi, len(ch))
        ch = ch[:hi]; ch.append(0)
        for k in range(lo, len(ch)): ch[k] = zite(sv.len == k, c, ch[k])
    return S(sv.len + 1, ch)


def str_concat(a, b):
    if not is_sym(b.len) and b.len == 0: return a
    if not is_sym(a.len) and a.len == 0: return b
    if not is_sym(a.len):
        ch = list(a.ch[:a.len]) + list(b.ch)
        return S(a.len + b.len, ch)
    # the characters beyond a string's length are dead: cut both arrays at the upper bound of the length, and only consider the
    # values the length of a can take
    la, ha = int_bounds(a.len); la = max(la, 0); ha = min(ha, len(a.ch))
    lb, hb = int_bounds(b.len); hb = min(hb, len(b.ch))
    ach = a.ch[:ha]; bch = b.ch[:hb]
    cap = len(ach) + len(bch); ch = []
    for k in range(cap):
        cell = ach[k] if k < len(ach) else 0
        # position k holds b[j] when a.len + j == k
        for j in range(len(bch)):
            if k - j < la or k - j > ha: continue
            cell = zite(a.len == k - j, bch[j], cell)
        ch.append(cell)
    return S(a.len + b.len, ch)


def str_shift(sv, start, newlen):
    """S(newlen, sv.ch[start:]) for symbolic start"""
    if not is_sym(start): return S(newlen, sv.ch[start:])
    n = len(sv.ch)
    return S(newlen, [sel(sv.ch[k:] , start, 0) if False else _sel_off(sv.ch, start, k) for k in range(n)])


def _sel_off(items, start, k):
    """items[start + k] with symbolic start"""
    n = len(items); r = 0
    for s0 in range(n - k - 1, -1, -1):
        r = zite(start == s0, items[s0 + k], r)
    return r


def utf8_width(c):
    if not is_sym(c): return 1 if c < 0x80 else 2 if c < 0x800 else 3 if c < 0x10000 else 4
    return z3.If(c < 0x80, 1, z3.If(c < 0x800, 2, z3.If(c < 0x10000, 3, 4)))


def byte_offsets(sv):
    """off[i] = byte offset of char i (i in 0..=cap), chars beyond len contribute 0"""
    off = [0]
    for i, c in enumerate(sv.ch):
        w = utf8_width(c)
        if is_sym(sv.len): w = zite(i < sv.len, w, 0)
        elif i >= sv.len: w = 0
        off.append(off[-1] + w)
    return off


def byte_len(sv):
    return byte_offsets(sv)[-1]


def char_index_of_byte(e, st, sv, b, what):
    """char index i with off[i] == b; obligation that b is a char boundary within the string"""
    off = byte_offsets(sv)
    n = len(sv.ch)
    if not is_sym(b) and all(not is_sym(o) for o in off):
        for i in range(n + 1):
            if off[i] == b and (is_sym(sv.len) or i <= sv.len): return i
        e.oblige(st, False, 'panic: byte index not a char boundary / out of range (%s)' % what)
        return 0
    idx = 0; okc = False
    for i in range(n, -1, -1):
        c = zand(zeq(off[i], b), (i <= sv.len))
        idx = zite(c, i, idx); okc = zor(okc, c)
    e.oblige(st, okc, 'panic: byte index not a char boundary / out of range (%s)' % what)
    return idx


def byte_of_char_index(sv, i):
    off = byte_offsets(sv)
    return sel(off, i, 0)


def match_at(sv, p, start):
    """p occurs in sv at (concrete) char index start"""
    cs = [start + p.len <= sv.len]
    for i in range(len(p.ch)):
        inside = (i < p.len)
        if inside is False: break
        if start + i < len(sv.ch): c = zeq(sv.ch[start + i], p.ch[i])
        else: c = False
        cs.append(zimp(inside, c))
    return zand(*cs)


def is_ws(c):
    if not is_sym(c):
        return c in (9, 10, 11, 12, 13, 32, 0x85, 0xA0, 0x1680, 0x2028, 0x2029, 0x202F, 0x205F, 0x3000) or 0x2000 <= c <= 0x200A
    return z3.Or(z3.And(c >= 9, c <= 13), c == 32, c == 0x85, c == 0xA0, c == 0x1680, z3.And(c >= 0x2000, c <= 0x200A),
                 c == 0x2028, c == 0x2029, c == 0x202F, c == 0x205F, c == 0x3000)


def trim_bounds(sv, left=True, right=True):
    n = len(sv.ch)
    start = 0; end = sv.len
    if left:
        # first index that is not whitespace (or len)
        start = sv.len
        for i in range(n - 1, -1, -1):
            start = zite(zand(i < sv.len, znot(is_ws(sv.ch[i]))), i, start)
    if right:
        end = start if left else 0
        for i in range(n):
            end = zite(zand(i < sv.len, znot(is_ws(sv.ch[i]))), i + 1, end)
    return simp(start), simp(end)


def str_sub(sv, start, end):
    """chars [start, end) of sv (char indexes)"""
    if not is_sym(start) and not is_sym(end): return S(end - start, sv.ch[start:end])
    return str_shift(sv, start, end - start)


def lower_char(e, st, c):
    if not is_sym(c):
        return ord(chr(c).lower()) if len(chr(c).lower()) == 1 else c
    return z3.If(z3.And(c >= 65, c <= 90), c + 32, c)


def int_to_str(e, st, n, signed=False):
    if not is_sym(n): return mk_str(str(n))
    D = e.int_digits
    neg = (n < 0) if signed else False
    a = z3.If(n < 0, -n, n) if signed else n
    e.oblige(st, a < 10**D, 'model bound: integer to_string needs more than %d digits' % D, 'unwind')
    # number of digits
    nd = 1
    for k in range(1, D): nd = z3.If(a >= 10**k, k + 1, nd)
    digits = []
    for pos in range(D):     # pos-th char from the left = digit at power nd-1-pos
        d = 0
        for k in range(D):
            if k + pos >= D: continue
            d = z3.If(nd == k + pos + 1, (a / 10**k) % 10, d)
        digits.append(48 + d)
    body = S(nd, digits)
    if signed: return merge(neg, str_concat(mk_str('-'), body), body)
    return body


def str_parse_int(e, st, sv, ty):
    lo, hi = INT_TYPES[ty]; signed = lo < 0
    n = len(sv.ch)
    if n == 0 or (not is_sym(sv.len) and sv.len == 0): return err(Opaque('ParseIntError'))
    first = sv.ch[0]
    has_sign = zor(zeq(first, 43), zeq(first, 45) if signed else False)
    has_sign = zand(has_sign, sv.len >= 1)
    negv = zand(zeq(first, 45), sv.len >= 1) if signed else False
    valid = [sv.len >= 1, zimp(has_sign, sv.len >= 2)]
    v = 0
    for i in range(n):
        c = sv.ch[i]
        isd = zand(c >= 48, c <= 57)
        skip = zand(has_sign, i == 0) if i == 0 else False
        inside = (i < sv.len)
        valid.append(zimp(zand(inside, znot(skip)), isd))
        v = zite(zand(inside, znot(skip)), v * 10 + (c - 48), v)
    v = zite(negv, -v, v) if negv is not False else v
    valid.append(zand(v >= lo, v <= hi))
    okc = simp(zand(*valid))
    return E(RESULT, zite(okc, 0, 1), {0: [v], 1: [Opaque('ParseIntError')]})


# ------------------------------------------------------------------ String
@model(r'std::string::String::new', r'<std::string::String as std::default::Default>::default')
def m_string_new(e, st, a, ctx): return S(0, [])


@model(r'std::string::String::push')
def m_string_push(e, st, a, ctx):
    e.store(st, a[0], str_push(as_str(e, st, a[0]), a[1])); return UNIT


@model(r'std::string::String::push_str')
def m_string_push_str(e, st, a, ctx):
    e.store(st, a[0], str_concat(as_str(e, st, a[0]), as_str(e, st, a[1]))); return UNIT


@model(r'std::string::String::clear')
def m_string_clear(e, st, a, ctx): e.store(st, a[0], S(0, [])); return UNIT


@model(r'std::string::String::is_empty', r'core::str::<impl str>::is_empty')
def m_str_is_empty(e, st, a, ctx): return zeq(as_str(e, st, a[0]).len, 0)


@model(r'std::string::String::len', r'core::str::<impl str>::len')
def m_str_len(e, st, a, ctx): return byte_len(as_str(e, st, a[0]))


@model(r'<std::string::String as std::ops::Deref>::deref', r'std::string::String::as_str', r'<std::string::String as std::convert::AsRef<str>>::as_ref',
       r'<std::string::String as std::borrow::Borrow<str>>::borrow', r'<str as std::convert::AsRef<str>>::as_ref', r'std::string::String::as_mut_str')
def m_string_deref(e, st, a, ctx): return as_str(e, st, a[0])


@model(r'<&?(std::string::String|str) as std::string::ToString>::to_string', r'<std::string::String as std::convert::From<&str>>::from',
       r'<str as std::borrow::ToOwned>::to_owned', r'<std::string::String as std::convert::From<&std::string::String>>::from',
       r'std::borrow::Cow::<\'_, str>::into_owned', r'<std::borrow::Cow<\'_, str> as std::string::ToString>::to_string',
       r'core::str::<impl str>::to_owned', r'<&str as std::string::ToString>::to_string', r'<&&str as std::string::ToString>::to_string')
def m_to_string(e, st, a, ctx): return as_str(e, st, a[0])


@model(r'<(usize|u8|u16|u32|u64|isize|i8|i16|i32|i64) as std::string::ToString>::to_string')
def m_int_to_string(e, st, a, ctx):
    ty = re.match(r'<(\w+) as', ctx[0]).group(1)
    return int_to_str(e, st, val(e, st, a[0]), INT_TYPES[ty][0] < 0)


@model(r'<bool as std::string::ToString>::to_string')
def m_bool_to_string(e, st, a, ctx):
    b = val(e, st, a[0])
    return merge(b, mk_str('true'), mk_str('false'))


@model(r'<char as std::string::ToString>::to_string')
def m_char_to_string(e, st, a, ctx): return S(1, [val(e, st, a[0])])


@model(r'<.* as std::clone::Clone>::clone')
def m_clone(e, st, a, ctx):
    v = a[0]
    if isinstance(v, (S, V)): return v
    return e.deref(st, v)


@model(r'<&?&?(std::string::String|str) as std::cmp::PartialEq(<&?(str|std::string::String)>)?>::(eq|ne)')
def m_str_eq(e, st, a, ctx):
    r = str_eq(as_str(e, st, a[0]), as_str(e, st, a[1]))
    return znot(r) if ctx[0].endswith('::ne') else r


@model(r'core::str::<impl str>::starts_with::<.*>')
def m_starts_with(e, st, a, ctx):
    sv = as_str(e, st, a[0])
    if isinstance(a[1], int) or (is_sym(a[1]) and z3.is_int(a[1])): p = S(1, [a[1]])
    else: p = as_str(e, st, a[1])
    return simp(match_at(sv, p, 0))


@model(r'core::str::<impl str>::ends_with::<.*>')
def m_ends_with(e, st, a, ctx):
    sv = as_str(e, st, a[0]); p = as_str(e, st, a[1])
    if not is_sym(sv.len) and not is_sym(p.len):
        if p.len > sv.len: return False
        return zand(*[zeq(sv.ch[sv.len - p.len + i], p.ch[i]) for i in range(p.len)])
    cs = [p.len <= sv.len]
    for i in range(len(p.ch)):
        cs.append(zimp(i < p.len, zeq(sel(sv.ch, sv.len - p.len + i, -1), p.ch[i])))
    return simp(zand(*cs))


def find_first(sv, p, reverse=False):
    """(found, char index) of the first (last) occurrence of p in sv"""
    n = len(sv.ch); found = False; idx = 0
    rng = range(n + 1) if reverse else range(n, -1, -1)
    for s0 in rng:
        m = match_at(sv, p, s0)
        found = zor(found, m); idx = zite(m, s0, idx)
    return simp(found), idx


@model(r'core::str::<impl str>::contains::<.*>')
def m_contains(e, st, a, ctx):
    sv = as_str(e, st, a[0])
    p = S(1, [a[1]]) if is_int(a[1]) else as_str(e, st, a[1])
    return find_first(sv, p)[0]


@model(r'core::str::<impl str>::r?find::<.*>')
def m_find(e, st, a, ctx):
    sv = as_str(e, st, a[0])
    p = S(1, [a[1]]) if is_int(a[1]) else as_str(e, st, a[1])
    found, idx = find_first(sv, p, reverse='rfind' in ctx[0])
    return opt(found, byte_of_char_index(sv, idx))


@model(r'core::str::<impl str>::match_indices::<.*>')
def m_match_indices(e, st, a, ctx):
    """non-overlapping occurrences from the left, as (byte index, matched text) pairs (eager). Model bound: non-empty pattern."""
    sv = as_str(e, st, a[0])
    p = S(1, [a[1]]) if is_int(a[1]) else as_str(e, st, a[1])
    e.oblige(st, p.len >= 1, 'model bound: match_indices with an empty pattern', 'unwind')
    n = len(sv.ch)
    free = 0; takes = []
    for i in range(n):
        t = simp(zand(match_at(sv, p, i), i >= free, p.len >= 1))
        takes.append(t); free = zite(t, i + p.len, free)
    cells = [T([byte_of_char_index(sv, i), p]) for i in range(n)]
    return mat_iter(compact(V(n, cells), takes))


@model(r'core::str::<impl str>::trim', r'core::str::<impl str>::trim_start', r'core::str::<impl str>::trim_end')
def m_trim(e, st, a, ctx):
    sv = as_str(e, st, a[0])
    start, end = trim_bounds(sv, left=not ctx[0].endswith('trim_end'), right=not ctx[0].endswith('trim_start'))
    if ctx[0].endswith('trim_start'): end = sv.len
    return str_sub(sv, start, end)


@model(r'core::str::<impl str>::chars')
def m_chars(e, st, a, ctx): return T([as_str(e, st, a[0]), 0], 'iter::Chars')


@model(r'<std::str::Chars<\'_> as std::iter::IntoIterator>::into_iter')
def m_chars_into_iter(e, st, a, ctx): return a[0]


@model(r'<std::str::Chars<\'_> as std::iter::Iterator>::collect::<std::vec::Vec<char>>')
def m_chars_collect(e, st, a, ctx):
    it = a[0]; sv, idx = it.f
    if idx != 0: raise Abort('collect on advanced Chars')
    return V(sv.len, sv.ch)


@model(r'<std::str::Chars<\'_> as std::iter::Iterator>::next')
def m_chars_next(e, st, a, ctx):
    it = e.deref(st, a[0]); sv, idx = it.f
    c = idx < sv.len
    item = sel(sv.ch, idx, 0)
    e.store(st, a[0], T([sv, zite(c, idx + 1, idx)], 'iter::Chars'))
    return opt(simp(c), item)


@model(r'core::str::<impl str>::lines')
def m_lines(e, st, a, ctx):
    sv = as_str(e, st, a[0])
    if sv.hint is not None and sv.hint[0] == 'lines':
        return T([V(sv.hint[1], sv.hint[2]), 0], 'iter::Lines')      # text built line by line by the harness
    if sv.hint is not None and sv.hint[0] == 'nolf':
        # the text is known to contain no LF (result of replace("\n", "")): at most one line, nothing stripped
        return T([V(simp(zite(zeq(sv.len, 0), 0, 1)), [S(sv.len, sv.ch)]), 0], 'iter::Lines')
    return T([V(*split_lines(sv)), 0], 'iter::Lines')


def split_lines(sv):
    """-> (count, [S...]) per str::lines: split at \\n, strip one \\r before it, no trailing empty line"""
    n = len(sv.ch)
    if not is_sym(sv.len) and all(not is_sym(c) for c in sv.ch[:sv.len]):
        txt = ''.join(chr(c) for c in sv.ch[:sv.len])
        ls = []
        # str::lines semantics
        parts = txt.split('\n')
        if parts and parts[-1] == '': parts.pop()
        else:
            pass
        for i, p in enumerate(parts):
            terminated = i < len(parts) - 1 or txt.endswith('\n')
            if terminated and p.endswith('\r'): p = p[:-1]
            ls.append(mk_str(p))
        return len(ls), ls
    nl = [zand(i < sv.len, zeq(sv.ch[i], 10)) for i in range(n)]
    li = [0]
    for i in range(n): li.append(li[-1] + zite(nl[i], 1, 0))     # li[i] = line index of position i
    nlines_max = n + 0
    total_nl = sel(li, sv.len, 0) if is_sym(sv.len) else li[sv.len]
    last_is_nl = zor(*[zand(zeq(sv.len, i + 1), nl[i]) for i in range(n)]) if n else False
    count = zite(zeq(sv.len, 0), 0, zite(last_is_nl, total_nl, total_nl + 1))
    lines = []
    for k in range(max(n, 1)):
        # start of line k: first position i with li[i] == k ; end: position of its terminator or len
        start = sv.len;
        for i in range(n - 1, -1, -1):
            start = zite(zand(i < sv.len, zeq(li[i], k)), i, start)
        end = sv.len
        for i in range(n - 1, -1, -1):
            end = zite(zand(nl[i], zeq(li[i], k)), i, end)
        terminated = zor(*[zand(nl[i], zeq(li[i], k)) for i in range(n)]) if n else False
        # strip \r when terminated by \n
        prev_cr = zand(end > start, zeq(sel(sv.ch, end - 1, 0), 13), terminated)
        end2 = zite(prev_cr, end - 1, end)
        start = simp(start); end2 = simp(end2)
        lines.append(str_sub(sv, start, end2))
    return simp(count), lines


@model(r'<std::str::Lines<\'_> as std::iter::IntoIterator>::into_iter')
def m_lines_into_iter(e, st, a, ctx): return a[0]


@model(r'<std::str::Lines<\'_> as std::iter::Iterator>::next')
def m_lines_next(e, st, a, ctx):
    it = e.deref(st, a[0]); v, idx = it.f
    c = simp(idx < v.len)
    item = sel(v.it, idx, S(0, []))
    e.store(st, a[0], T([v, zite(c, idx + 1, idx)], 'iter::Lines'))
    return opt(c, item)


@model(r'std::str::<impl str>::to_lowercase', r'std::str::<impl str>::to_ascii_lowercase')
def m_to_lowercase(e, st, a, ctx):
    sv = as_str(e, st, a[0])
    if 'ascii' not in ctx[0] and not getattr(e, 'panic_only', False):       # (for panic-freedom the exact mapping is irrelevant)
        # exact only for ASCII and case-less characters: proof obligation on the harness alphabet
        for i, c in enumerate(sv.ch):
            if is_sym(c):
                e.oblige(st, zimp(i < sv.len, zor(c < 128, zand(c >= 0x3040, c <= 0x309F), zeq(c, 0x20AC), zeq(c, 0x1F600))),
                         'model bound: to_lowercase exact only for ASCII + listed case-less chars', 'unwind')
            elif not (is_sym(sv.len)) and i >= sv.len: break
            elif len(chr(c).lower()) != 1: raise Abort('to_lowercase: multi-char mapping')
    return S(sv.len, [lower_char(e, st, c) for c in sv.ch])


@model(r'std::str::<impl str>::replace::<.*>')
def m_replace(e, st, a, ctx):
    sv = as_str(e, st, a[0]); p = as_str(e, st, a[1]); r = as_str(e, st, a[2])
    pc = str_concrete(p); rc = str_concrete(r)
    if pc is None or rc is None:
        # general case: the pieces of split(p) joined with r
        v = split_general(e, st, sv, p)
        out = S(0, [])
        for i, x in enumerate(v.it):
            c = simp(i < v.len)
            if c is False: break
            nxt = str_concat(str_concat(out, r), x) if i > 0 else x
            out = nxt if c is True else merge(c, nxt, out)
        return out
    sc = str_concrete(sv)
    if sc is not None: return mk_str(sc.replace(pc, rc))
    if len(pc) == 1 and len(rc) <= 2:
        # per-character rewrite, output built left to right
        nolf = (pc == '\n' and '\n' not in rc) or (sv.hint is not None and sv.hint[0] == 'nolf' and '\n' not in rc)
        out = S(0, [])
        for i, c in enumerate(sv.ch):
            inside = (i < sv.len)
            hit = zand(inside, zeq(c, ord(pc)))
            keep = zand(inside, znot(zeq(c, ord(pc))))
            nxt = out
            if rc:
                rep = out
                for ch in rc: rep = str_push(rep, ord(ch))
            else: rep = out
            kept = str_push(out, c)
            out = merge(hit, rep, merge(keep, kept, out))
            out = S(simp(out.len), out.ch)
        if nolf: out = S(out.len, out.ch, ('nolf',))
        return out
    raise Abort('replace: unsupported symbolic shape')


F64_ALPHABET = [ord(c) for c in '0123456789+-.eE_infatyINFATY']


def f64_int_literal(sv):
    """(is a plain integer literal [+-]?digits+, its value, surely not an f64 literal: contains a character no f64 literal has)"""
    n = len(sv.ch)
    if n == 0: return False, 0, True
    first = sv.ch[0]
    has_sign = zand(zor(zeq(first, 43), zeq(first, 45)), sv.len >= 1)
    negv = zand(zeq(first, 45), sv.len >= 1)
    valid = [sv.len >= 1, zimp(has_sign, sv.len >= 2)]
    v = 0; foreign = zeq(sv.len, 0)
    for i in range(n):
        c = sv.ch[i]
        isd = zand(c >= 48, c <= 57)
        skip = has_sign if i == 0 else False
        inside = (i < sv.len)
        valid.append(zimp(zand(inside, znot(skip)), isd))
        v = zite(zand(inside, znot(skip)), v * 10 + (c - 48), v)
        foreign = zor(foreign, zand(inside, znot(zor(*[zeq(c, x) for x in F64_ALPHABET]))))
    return simp(zand(*valid)), zite(negv, -v, v), simp(foreign)


@model(r'core::str::<impl str>::parse::<f64>')
def m_parse_f64(e, st, a, ctx):
    """partial model: plain integer literals of <= 15 digits are exact f64 values (represented by the integer); a string with a
    character that no f64 literal contains is an error; everything else (fractions, exponents, inf, nan, ...) is outside the model"""
    sv = as_str(e, st, a[0])
    if len(sv.ch) > 15: raise Abort('parse::<f64> of a string longer than 15 chars')
    isint, v, foreign = f64_int_literal(sv)
    e.oblige(st, zor(isint, foreign), 'model bound: f64 literal outside the integer subset', 'unwind')
    return E(RESULT, zite(isint, 0, 1), {0: [v], 1: [Opaque('ParseFloatError')]})


@model(r'core::str::<impl str>::parse::<(usize|isize|i64|i32|u64|u32|u8|i8|u16|i16)>')
def m_parse_int(e, st, a, ctx):
    ty = re.search(r'parse::<(\w+)>', ctx[0]).group(1)
    return str_parse_int(e, st, as_str(e, st, a[0]), ty)


@model(r'<(str|std::string::String) as std::ops::Index<std::ops::Range(From|To|Full|Inclusive|ToInclusive)?<usize>>>::index',
       r'<(str|std::string::String) as std::ops::Index<std::ops::RangeFull>>::index', r'core::str::<impl str>::get::<.*>')
def m_str_index_range(e, st, a, ctx):
    sv = as_str(e, st, a[0]); r = a[1]
    kind = re.search(r'Index<std::ops::(\w+)', ctx[0])
    kind = kind.group(1) if kind else 'Range'
    blen = byte_len(sv)
    if kind == 'RangeFull': return sv
    if kind == 'Range': lo, hi = r.f
    elif kind == 'RangeFrom': lo, hi = r.f[0], blen
    elif kind == 'RangeTo': lo, hi = 0, r.f[0]
    else: raise Abort('str index kind ' + kind)
    e.oblige(st, simp(lo <= hi) if True else True, 'panic: slice index starts after end (str)')
    li = char_index_of_byte(e, st, sv, lo, 'start')
    hi_i = char_index_of_byte(e, st, sv, hi, 'end')
    return str_sub(sv, li, hi_i)


@model(r'std::string::String::insert_str', r'std::string::String::insert')
def m_insert_str(e, st, a, ctx):
    sv = as_str(e, st, a[0]); idx = a[1]
    ins = S(1, [a[2]]) if is_int(a[2]) else as_str(e, st, a[2])
    ci = char_index_of_byte(e, st, sv, idx, 'insert')
    if is_sym(ci): raise Abort('insert_str at symbolic index')
    head = S(ci, sv.ch[:ci]); tail = S(sv.len - ci, sv.ch[ci:])
    e.store(st, a[0], str_concat(str_concat(head, ins), tail)); return UNIT


@model(r'std::string::String::as_bytes', r'core::str::<impl str>::as_bytes')
def m_as_bytes(e, st, a, ctx):
    sv = as_str(e, st, a[0]); sc = str_concrete(sv)
    if sc is None: raise Abort('as_bytes on symbolic string')
    b = list(sc.encode('utf-8')); return V(len(b), b)


# ------------------------------------------------------------------ Vec / slices
@model(r'std::vec::Vec::<.*>::new', r'<std::vec::Vec<.*> as std::default::Default>::default')
def m_vec_new(e, st, a, ctx): return V(0, [])


def vec_push(v, x):
    it = list(v.it)
    if not is_sym(v.len):
        if v.len < len(it): it[v.len] = x
        else: it.append(x)
    else:
        it.append(None)
        for k in range(len(it)): it[k] = merge(v.len == k, x, it[k])
    return V(v.len + 1, it)


@model(r'std::vec::Vec::<.*>::push')
def m_vec_push(e, st, a, ctx): e.store(st, a[0], vec_push(as_vec(e, st, a[0]), a[1])); return UNIT


@model(r'std::vec::Vec::<.*>::pop')
def m_vec_pop(e, st, a, ctx):
    v = as_vec(e, st, a[0]); c = simp(v.len > 0)
    item = sel(v.it, v.len - 1, POISON)
    e.store(st, a[0], V(zite(c, v.len - 1, v.len), v.it))
    return opt(c, item)


@model(r'std::vec::Vec::<.*>::len', r'core::slice::<impl \[.*\]>::len')
def m_vec_len(e, st, a, ctx): return as_vec(e, st, a[0]).len


@model(r'std::vec::Vec::<.*>::is_empty', r'core::slice::<impl \[.*\]>::is_empty')
def m_vec_is_empty(e, st, a, ctx): return zeq(as_vec(e, st, a[0]).len, 0)


@model(r'<std::vec::Vec<.*> as std::ops::DerefMut>::deref_mut', r'std::vec::Vec::<.*>::as_mut_slice', r'<std::string::String as std::ops::DerefMut>::deref_mut')
def m_vec_deref_mut(e, st, a, ctx): return a[0]      # &mut [T] is represented by the pointer to the Vec place


@model(r'std::vec::Vec::<.*>::clear')
def m_vec_clear(e, st, a, ctx): e.store(st, a[0], V(0, [])); return UNIT


@model(r'<std::vec::Vec<.*> as std::ops::Deref>::deref', r'std::vec::Vec::<.*>::as_slice',
       r'std::slice::<impl \[.*\]>::to_vec', r'<\[.*\] as std::borrow::ToOwned>::to_owned', r'std::slice::<impl \[.*\]>::iter_placeholder')
def m_vec_deref(e, st, a, ctx): return as_vec(e, st, a[0])


def vec_concat(a, b):
    if not is_sym(a.len): return V(a.len + b.len, list(a.it[:a.len]) + list(b.it))
    cap = len(a.it) + len(b.it); it = []
    for k in range(cap):
        cell = a.it[k] if k < len(a.it) else None
        for j in range(len(b.it)):
            if k - j < 0 or k - j > len(a.it): continue
            cell = merge(a.len == k - j, b.it[j], cell)
        it.append(cell)
    return V(a.len + b.len, it)


@model(r'std::vec::Vec::<.*>::append')
def m_vec_append(e, st, a, ctx):
    v = as_vec(e, st, a[0]); o = as_vec(e, st, a[1])
    e.store(st, a[0], vec_concat(v, o)); e.store(st, a[1], V(0, [])); return UNIT


@model(r'<std::vec::Vec<.*> as std::ops::Index<usize>>::index', r'<\[.*\] as std::ops::Index<usize>>::index')
def m_vec_index(e, st, a, ctx):
    v = as_vec(e, st, a[0]); i = a[1]
    e.oblige(st, simp(zand(i >= 0, i < v.len)), 'panic: index out of bounds (Vec index)')
    return PV(sel(v.it, i, POISON))


@model(r'<std::vec::Vec<.*> as std::ops::IndexMut<usize>>::index_mut')
def m_vec_index_mut(e, st, a, ctx):
    v = as_vec(e, st, a[0]); i = a[1]
    e.oblige(st, simp(zand(i >= 0, i < v.len)), 'panic: index out of bounds (Vec index_mut)')
    p = a[0]
    if isinstance(p, P) and not is_sym(i): return P(p.fid, p.loc, p.proj + (('i', i),))
    if isinstance(p, P):
        alts = [(i == k, P(p.fid, p.loc, p.proj + (('i', k),))) for k in range(len(v.it))]
        return U(alts)
    raise Abort('index_mut through non-place pointer')


@model(r'<(std::vec::Vec<.*>|\[.*\]) as std::ops::Index<std::ops::Range(From|To|Full)?(<usize>)?>>::index')
def m_vec_index_range(e, st, a, ctx):
    v = as_vec(e, st, a[0]); r = a[1]
    kind = re.search(r'Index<std::ops::(\w+)', ctx[0]).group(1)
    if kind == 'RangeFull': return v
    if kind == 'Range': lo, hi = r.f
    elif kind == 'RangeFrom': lo, hi = r.f[0], v.len
    elif kind == 'RangeTo': lo, hi = 0, r.f[0]
    else: raise Abort('slice index kind')
    e.oblige(st, simp(lo <= hi), 'panic: slice index starts after end')
    e.oblige(st, simp(hi <= v.len), 'panic: range end index out of range for slice')
    if not is_sym(lo): return V(hi - lo, v.it[lo:])
    n = len(v.it)
    return V(hi - lo, [_sel_off_items(v.it, lo, k) for k in range(n)])


def _sel_off_items(items, start, k):
    n = len(items); r = None
    for s0 in range(n - k - 1, -1, -1):
        r = items[s0 + k] if r is None else merge(start == s0, items[s0 + k], r)
    return r


@model(r'std::vec::Vec::<.*>::remove')
def m_vec_remove(e, st, a, ctx):
    v = as_vec(e, st, a[0]); i = a[1]
    e.oblige(st, simp(zand(i >= 0, i < v.len)), 'panic: removal index out of bounds (Vec::remove)')
    item = sel(v.it, i, POISON)
    n = len(v.it); it = []
    for k in range(n):
        nxt = v.it[k + 1] if k + 1 < n else None
        it.append(merge(simp(k >= i), nxt, v.it[k]) if nxt is not None else v.it[k])
    e.store(st, a[0], V(v.len - 1, it)); return item


@model(r'std::vec::Vec::<.*>::insert')
def m_vec_insert(e, st, a, ctx):
    v = as_vec(e, st, a[0]); i = a[1]; x = a[2]
    e.oblige(st, simp(zand(i >= 0, i <= v.len)), 'panic: insertion index out of bounds (Vec::insert)')
    n = len(v.it) + 1; it = []
    for k in range(n):
        prev = v.it[k - 1] if 0 <= k - 1 < len(v.it) else None
        cur = v.it[k] if k < len(v.it) else None
        cell = merge(simp(k < i), cur, merge(simp(zeq(i, k)), x, prev))
        it.append(cell)
    e.store(st, a[0], V(v.len + 1, it)); return UNIT


def item_eq(e, st, x, y):
    if x is None or x is POISON or y is None or y is POISON: return False      # cell that no feasible path fills
    x = val(e, st, x) if isinstance(x, (P, PV)) else x
    y = val(e, st, y) if isinstance(y, (P, PV)) else y
    if isinstance(x, S) and isinstance(y, S): return str_eq(x, y)
    if _is_scalar(x) and _is_scalar(y): return zeq(x, y)
    raise Abort('item_eq on %r / %r' % (x, y))


def _is_scalar(x): return isinstance(x, (int, bool)) or is_sym(x)


@model(r'core::slice::<impl \[.*\]>::contains', r'std::vec::Vec::<.*>::contains')
def m_slice_contains(e, st, a, ctx):
    v = as_vec(e, st, a[0]); x = a[1]
    cs = []
    for i, it in enumerate(v.it):
        inside = simp(i < v.len)
        if inside is False: break
        cs.append(zand(inside, item_eq(e, st, it, x)))
    return simp(zor(*cs))


def str_lt(a, b):
    """lexicographic a < b (by scalar value = UTF-8 byte order)"""
    n = max(len(a.ch), len(b.ch))
    r = False      # built from the last position backwards
    for i in range(n - 1, -1, -1):
        ina = simp(i < a.len) if i < len(a.ch) else False
        inb = simp(i < b.len) if i < len(b.ch) else False
        ca = a.ch[i] if i < len(a.ch) else 0; cb = b.ch[i] if i < len(b.ch) else 0
        # at position i: a ended and b not -> a<b ; both present: compare, equal -> continue
        r = zite(znot(ina), inb, zite(znot(inb), False, zite(ca < cb, True, zite(ca > cb, False, r))))
    return simp(r)


@model(r'std::slice::<impl \[std::string::String\]>::sort', r'std::slice::<impl \[.*\]>::sort')
def m_sort(e, st, a, ctx):
    v = as_vec(e, st, a[0])
    items = v.it
    keys = [str_concrete(x) if isinstance(x, S) else (x if isinstance(x, int) else None) for x in items]
    if not is_sym(v.len) and not any(k is None for k in keys[:v.len]):
        order = sorted(range(v.len), key=lambda i: keys[i])
        e.store(st, a[0], V(v.len, [items[i] for i in order])); return UNIT
    if not all(isinstance(x, S) for x in items): raise Abort('sort of symbolic non-string items')
    n = len(items)
    # stable rank of every live item; output cell r holds the item of rank r
    ranks = []
    for i in range(n):
        r = 0
        for j in range(n):
            if i == j: continue
            before = zor(str_lt(items[j], items[i]), zand(str_eq(items[j], items[i]), j < i))
            r = r + zite(zand(j < v.len, before), 1, 0)
        ranks.append(simp(r))
    out = []
    for r in range(n):
        cell = items[0] if n else None
        for i in range(n - 1, -1, -1):
            cell = merge(zand(i < v.len, zeq(ranks[i], r)), items[i], cell)
        out.append(cell)
    e.store(st, a[0], V(v.len, out)); return UNIT


@model(r'std::boxed::Box::<\[.*; \d+\]>::new_uninit')
def m_box_new_uninit(e, st, a, ctx): return e.alloc(st, None)


@model(r'std::boxed::box_assume_init_into_vec_unsafe::<.*>')
def m_box_into_vec(e, st, a, ctx):
    v = e.deref(st, a[0])
    if not isinstance(v, V): raise Abort('box_assume_init_into_vec_unsafe on %r' % (v,))
    return v


@model(r'std::boxed::Box::<.*>::new', r'std::rc::Rc::<.*>::new', r'std::sync::Arc::<.*>::new')
def m_box_new(e, st, a, ctx): return e.alloc(st, a[0])


@model(r'std::cell::RefCell::<.*>::new', r'std::sync::atomic::Atomic::<.*>::new', r'std::sync::atomic::AtomicBool::new', r'std::hint::must_use::<.*>',
       r'<.* as std::convert::Into<.*>>::into', r'<.* as std::convert::From<.*>>::from', r'<.* as std::iter::IntoIterator>::into_iter_placeholder')
def m_identity(e, st, a, ctx): return a[0]


@model(r'<std::rc::Rc<.*> as std::ops::Deref>::deref', r'<std::sync::Arc<.*> as std::ops::Deref>::deref', r'<std::boxed::Box<.*> as std::ops::Deref>::deref',
       r'<std::cell::Ref<\'_, .*> as std::ops::Deref>::deref', r'<std::cell::RefMut<\'_, .*> as std::ops::Deref(Mut)?>::deref(_mut)?',
       r'<std::boxed::Box<.*> as std::convert::AsRef<.*>>::as_ref')
def m_smart_deref(e, st, a, ctx):
    return e.deref(st, a[0])       # &Rc<T> -> the Rc value, which is the pointer to the T cell


@model(r'std::cell::RefCell::<.*>::borrow', r'std::cell::RefCell::<.*>::borrow_mut')
def m_refcell_borrow(e, st, a, ctx): return a[0]


@model(r'<\(dyn std::any::Any \+ \'static\)>::downcast_ref::<.*>', r'<\(dyn std::any::Any \+ \'static\)>::downcast_mut::<.*>')
def m_downcast_ref(e, st, a, ctx):
    want = re.search(r'downcast_(?:ref|mut)::<(.*)>$', ctx[0]).group(1)
    v = e.deref(st, a[0])

    def matches(x):
        if want.startswith('std::collections::HashMap') or want.startswith('std::collections::HashSet'): return isinstance(x, M)
        if want.startswith('std::string::String'): return isinstance(x, S)
        if want.startswith('std::vec::Vec'): return isinstance(x, V)
        return isinstance(x, T) and x.ty == strip_generics(want)
    if isinstance(v, U): raise Abort('downcast on union value')
    return some(a[0]) if matches(v) else none()


# ------------------------------------------------------------------ iterators
@model(r'<&(mut )?(std::vec::Vec<.*>|\[.*\]) as std::iter::IntoIterator>::into_iter', r'core::slice::<impl \[.*\]>::iter', r'core::slice::<impl \[.*\]>::iter_mut')
def m_slice_into_iter(e, st, a, ctx):
    mut = ctx[0].startswith('<&mut') or ctx[0].endswith('iter_mut')
    return T([as_vec(e, st, a[0]), 0, a[0] if (mut and isinstance(a[0], P)) else None], 'iter::Slice')


@model(r'<std::slice::Iter(Mut)?<\'_, .*> as std::iter::Iterator>::next')
def m_slice_iter_next(e, st, a, ctx):
    it = e.deref(st, a[0]); v, idx, base = it.f
    c = simp(idx < v.len)
    if base is not None:
        if is_sym(idx): raise Abort('iter_mut with symbolic position')
        item = P(base.fid, base.loc, base.proj + (('i', idx),))
    else:
        item = PV(sel(v.it, idx, POISON))
    e.store(st, a[0], T([v, zite(c, idx + 1, idx), base], 'iter::Slice'))
    return opt(c, item)


@model(r'<std::slice::Iter<\'_, .*> as std::iter::IntoIterator>::into_iter', r'<std::vec::IntoIter<.*> as std::iter::IntoIterator>::into_iter',
       r'<std::ops::Range<.*> as std::iter::IntoIterator>::into_iter', r'<std::collections::hash_map::\w+<.*> as std::iter::IntoIterator>::into_iter',
       r'<std::iter::\w+<.*> as std::iter::IntoIterator>::into_iter')
def m_iter_identity(e, st, a, ctx): return a[0]


@model(r'<std::vec::Vec<.*> as std::iter::IntoIterator>::into_iter')
def m_vec_into_iter(e, st, a, ctx): return T([as_vec(e, st, a[0]), 0], 'iter::VecInto')


@model(r'<std::vec::IntoIter<.*> as std::iter::Iterator>::next')
def m_vec_iter_next(e, st, a, ctx):
    it = e.deref(st, a[0]); v, idx = it.f
    c = simp(idx < v.len)
    item = sel(v.it, idx, POISON)
    e.store(st, a[0], T([v, zite(c, idx + 1, idx)], 'iter::VecInto'))
    return opt(c, item)


@model(r'<std::ops::Range<(usize|u8|u32|u64|i32|i64|isize)> as std::iter::Iterator>::next')
def m_range_next(e, st, a, ctx):
    r = e.deref(st, a[0]); lo, hi = r.f
    c = simp(lo < hi)
    e.store(st, a[0], T([zite(c, lo + 1, lo), hi], r.ty))
    return opt(c, lo)


# ------------------------------------------------------------------ Option / Result
def as_enum(e, st, x):
    if isinstance(x, (P, PV)): x = e.deref(st, x)
    if isinstance(x, U):
        return umap(x, lambda y: y)
    if not isinstance(x, E): raise Abort('expected enum, got %r' % (x,))
    return x


@model(r'std::option::Option::<.*>::is_none')
def m_is_none(e, st, a, ctx): return simp(zeq(as_enum(e, st, a[0]).d, 0))


@model(r'std::option::Option::<.*>::is_some')
def m_is_some(e, st, a, ctx): return simp(zeq(as_enum(e, st, a[0]).d, 1))


@model(r'std::result::Result::<.*>::is_ok')
def m_is_ok(e, st, a, ctx): return simp(zeq(as_enum(e, st, a[0]).d, 0))


@model(r'std::result::Result::<.*>::is_err')
def m_is_err(e, st, a, ctx): return simp(zeq(as_enum(e, st, a[0]).d, 1))


@model(r'std::option::Option::<.*>::unwrap', r'std::option::Option::<.*>::expect')
def m_unwrap(e, st, a, ctx):
    o = as_enum(e, st, a[0])
    e.oblige(st, simp(zeq(o.d, 1)), 'panic: called `Option::unwrap()` on a `None` value')
    return o.p[1][0] if 1 in o.p else POISON


@model(r'std::result::Result::<.*>::unwrap', r'std::result::Result::<.*>::expect')
def m_res_unwrap(e, st, a, ctx):
    o = as_enum(e, st, a[0])
    e.oblige(st, simp(zeq(o.d, 0)), 'panic: called `Result::unwrap()` on an `Err` value')
    return o.p[0][0] if 0 in o.p else POISON


@model(r'std::option::Option::<.*>::unwrap_or')
def m_unwrap_or(e, st, a, ctx):
    o = as_enum(e, st, a[0])
    if 1 not in o.p: return a[1]
    return merge(simp(zeq(o.d, 1)), o.p[1][0], a[1])


@model(r'std::option::Option::<.*>::unwrap_or_default')
def m_unwrap_or_default(e, st, a, ctx):
    o = as_enum(e, st, a[0])
    raise Abort('unwrap_or_default')


@model(r'std::option::Option::<.*>::as_ref', r'std::option::Option::<.*>::as_mut')
def m_as_ref(e, st, a, ctx):
    o = as_enum(e, st, a[0])
    if 1 not in o.p: return none()
    p = a[0]
    if isinstance(p, P): inner = P(p.fid, p.loc, p.proj + (('v', 1), ('f', 0)))
    else: inner = PV(o.p[1][0])
    return E(OPTION, o.d, {0: [], 1: [inner]})


@model(r'std::option::Option::<.*>::take')
def m_take(e, st, a, ctx):
    o = as_enum(e, st, a[0]); e.store(st, a[0], none()); return o


@model(r'std::option::Option::<.*>::ok_or::<.*>')
def m_ok_or(e, st, a, ctx):
    o = as_enum(e, st, a[0])
    return E(RESULT, zite(zeq(o.d, 1), 0, 1), {0: list(o.p.get(1, [POISON])), 1: [a[1]]})


def closure_branch(e, st, cond, clo, args):
    """run closure under st.g & cond on a copy; returns (state, rv) merged back by caller"""
    g = simp(zand(st.g, cond))
    if g is False or not e.feasible(g): return None, None
    st1 = State(g, dict(st.m))
    return e.call_closure(st1, clo, args)


def cond_apply(e, st, cond, clo, args, other_val):
    """value = clo(args) if cond else other_val ; state merged in place"""
    ncond = simp(znot(cond))
    st_else = State(simp(zand(st.g, ncond)), dict(st.m))
    st1, rv = closure_branch(e, st, cond, clo, args)
    if st1 is None:
        st.g = st_else.g; return other_val
    st1.m[('ret', 0)] = rv; st_else.m[('ret', 0)] = other_val
    ms = e_merge(st1, st_else)
    st.g = ms.g; st.m.clear(); st.m.update(ms.m)
    return st.m.pop(('ret', 0))


def e_merge(a, b):
    from .engine import merge_states
    return merge_states(a, b)


@model(r'std::option::Option::<.*>::unwrap_or_else::<.*>')
def m_unwrap_or_else(e, st, a, ctx):
    o = as_enum(e, st, a[0])
    return cond_apply(e, st, simp(zeq(o.d, 0)), a[1], [], o.p[1][0] if 1 in o.p else POISON)


@model(r'std::option::Option::<.*>::map::<.*>')
def m_opt_map(e, st, a, ctx):
    o = as_enum(e, st, a[0])
    if 1 not in o.p: return none()
    v = cond_apply(e, st, simp(zeq(o.d, 1)), a[1], [o.p[1][0]], POISON)
    return E(OPTION, o.d, {0: [], 1: [v]})


@model(r'std::result::Result::<.*>::map_err::<.*>')
def m_map_err(e, st, a, ctx):
    o = as_enum(e, st, a[0])
    if 1 not in o.p: return o
    v = cond_apply(e, st, simp(zeq(o.d, 1)), a[1], [o.p[1][0]], POISON)
    p = dict(o.p); p[1] = [v]
    return E(RESULT, o.d, p)


@model(r'std::result::Result::<.*>::ok')
def m_res_ok(e, st, a, ctx):
    o = as_enum(e, st, a[0])
    return E(OPTION, zite(zeq(o.d, 0), 1, 0), {0: [], 1: list(o.p.get(0, [POISON]))})


@model(r'<std::result::Result<.*> as std::ops::Try>::branch')
def m_try_branch(e, st, a, ctx):
    o = as_enum(e, st, a[0])
    p = {}
    if 0 in o.p: p[0] = list(o.p[0])
    if 1 in o.p: p[1] = [E(RESULT, 1, {1: list(o.p[1])})]
    return E('std::ops::ControlFlow', o.d, p)


@model(r'<std::option::Option<.*> as std::ops::Try>::branch')
def m_try_branch_opt(e, st, a, ctx):
    o = as_enum(e, st, a[0])
    p = {0: list(o.p.get(1, [POISON])), 1: [none()]}
    return E('std::ops::ControlFlow', zite(zeq(o.d, 1), 0, 1), p)


@model(r'<std::result::Result<.*> as std::ops::FromResidual<.*>>::from_residual')
def m_from_residual(e, st, a, ctx):
    o = as_enum(e, st, a[0])
    return E(RESULT, 1, {1: list(o.p.get(1, [POISON]))})


@model(r'<std::option::Option<.*> as std::default::Default>::default')
def m_opt_default(e, st, a, ctx): return none()


@model(r'<(usize|isize|i32|i64|u32|u64|u8) as std::default::Default>::default')
def m_int_default(e, st, a, ctx): return 0


@model(r'<bool as std::default::Default>::default')
def m_bool_default(e, st, a, ctx): return False


@model(r'std::cmp::min::<.*>')
def m_min(e, st, a, ctx): return zite(simp(a[1] < a[0]), a[1], a[0])


@model(r'std::cmp::max::<.*>')
def m_max(e, st, a, ctx): return zite(simp(a[1] > a[0]), a[1], a[0])


@model(r'<(isize|i64|i32|usize|u64|u32) as std::convert::TryInto<(usize|isize|i64|i32|u64|u32|u8)>>::try_into',
       r'<(usize|isize|i64|i32|u64|u32|u8) as std::convert::TryFrom<(isize|i64|i32|usize|u64|u32)>>::try_from')
def m_try_into(e, st, a, ctx):
    m = re.search(r'TryInto<(\w+)>', ctx[0]) or re.match(r'<(\w+) as', ctx[0])
    lo, hi = INT_TYPES[m.group(1)]
    okc = simp(zand(a[0] >= lo, a[0] <= hi))
    return E(RESULT, zite(okc, 0, 1), {0: [a[0]], 1: [Opaque('TryFromIntError')]})


# ------------------------------------------------------------------ HashMap / HashSet
def key_eq(e, st, k1, k2):
    a = as_str(e, st, k1) if not _is_scalar(k1) else k1
    b = as_str(e, st, k2) if not _is_scalar(k2) else k2
    if isinstance(a, S): return str_eq(a, b)
    return zeq(a, b)


@model(r'std::collections::Hash(Map|Set)::<.*>::new', r'<std::collections::Hash(Map|Set)<.*> as std::default::Default>::default')
def m_map_new(e, st, a, ctx): return M([])


def map_lookup(e, st, mv, key):
    found = False; value = POISON; hits = []
    for i, (p, k, v) in enumerate(mv.ents):
        c = simp(zand(p, key_eq(e, st, k, key)))
        hits.append(c)
        if c is False: continue
        value = v if found is False else merge(c, v, value)
        found = zor(found, c)
    return simp(found), value, hits


@model(r'std::collections::HashMap::<.*>::get::<.*>')
def m_map_get(e, st, a, ctx):
    mv = as_map(e, st, a[0])
    found, value, _ = map_lookup(e, st, mv, a[1])
    if found is False: return none()
    return E(OPTION, zite(found, 1, 0), {0: [], 1: [PV(value)]})


def ptr_alts(p):
    """a pointer value as a list of guarded place pointers"""
    if isinstance(p, P): return [(True, p)]
    if isinstance(p, U):
        out = []
        for c, x in p.alts:
            for c2, y in ptr_alts(x): out.append((zand(c, c2), y))
        return out
    raise Abort('expected a place pointer, got %r' % (p,))


@model(r'std::collections::HashMap::<.*>::get_mut::<.*>')
def m_map_get_mut(e, st, a, ctx):
    alts = []; found = False
    for c0, p in ptr_alts(a[0]):
        mv = e.read(st, ('mem', p.fid, p.loc, list(p.proj)))
        if isinstance(mv, U) or not isinstance(mv, M): mv = as_map(e, st, p)
        f, value, hits = map_lookup(e, st, mv, a[1])
        for i, c in enumerate(hits):
            cc = simp(zand(c0, c))
            if cc is not False: alts.append((cc, P(p.fid, p.loc, p.proj + (('m', i),))))
        found = zor(found, zand(c0, f))
    found = simp(found)
    if not alts: return none()
    ptr = alts[0][1] if len(alts) == 1 else U(alts)
    return E(OPTION, zite(found, 1, 0), {0: [], 1: [ptr]})


@model(r'std::collections::HashMap::<.*>::contains_key::<.*>', r'std::collections::HashSet::<.*>::contains::<.*>')
def m_map_contains(e, st, a, ctx):
    return map_lookup(e, st, as_map(e, st, a[0]), a[1])[0]


def map_insert(e, st, mv, key, value):
    found, old, hits = map_lookup(e, st, mv, key)
    ents = []
    for (p, k, v), c in zip(mv.ents, hits):
        ents.append((p, k, v if c is False else merge(c, value, v)))
    keyv = as_str(e, st, key) if not _is_scalar(key) and not isinstance(key, (P,)) else key
    if isinstance(key, P): keyv = key      # HashMap<&String, _>: keep the reference, compared by pointee
    if found is not True:
        # reuse a concretely free slot if there is one
        for i, (p, k, v) in enumerate(ents):
            if p is False:
                ents[i] = (znot(found), keyv, value); break
        else:
            ents.append((znot(found), keyv, value))
    return M(ents), found, old


@model(r'std::collections::HashMap::<.*>::insert')
def m_map_insert(e, st, a, ctx):
    mv = as_map(e, st, a[0])
    m2, found, old = map_insert(e, st, mv, a[1], a[2])
    e.store(st, a[0], m2)
    if found is False: return none()
    return E(OPTION, zite(found, 1, 0), {0: [], 1: [old]})


@model(r'<std::collections::HashMap<.*> as std::iter::Extend<\(.*\)>>::extend::<.*>')
def m_map_extend(e, st, a, ctx):
    """insert every (key, value) of the source (a map by value or an iterator of pairs) in turn"""
    mv = as_map(e, st, a[0])
    src = a[1]
    if isinstance(src, (P, PV)): src = e.deref(st, src)
    if isinstance(src, M): pairs = [(p, k, v) for p, k, v in src.ents]
    else:
        vv = materialise(e, st, src)
        pairs = []
        for i, cell in enumerate(vv.it):
            c = simp(i < vv.len)
            if c is False: continue
            if not isinstance(cell, T) or len(cell.f) != 2: raise Abort('HashMap::extend from non-pair items')
            pairs.append((c, cell.f[0], cell.f[1]))
    for p, k, v in pairs:
        if p is False: continue
        m2, found, old = map_insert(e, st, mv, k, v)
        mv = m2 if p is True else merge(p, m2, mv)
    e.store(st, a[0], mv)
    return UNIT


@model(r'std::collections::HashSet::<.*>::insert')
def m_set_insert(e, st, a, ctx):
    mv = as_map(e, st, a[0])
    m2, found, old = map_insert(e, st, mv, a[1], UNIT)
    e.store(st, a[0], m2)
    return znot(found)


@model(r'std::collections::HashMap::<.*>::remove::<.*>')
def m_map_remove(e, st, a, ctx):
    mv = as_map(e, st, a[0])
    found, old, hits = map_lookup(e, st, mv, a[1])
    ents = [(simp(zand(p, znot(c))), k, v) for (p, k, v), c in zip(mv.ents, hits)]
    e.store(st, a[0], M(ents))
    if found is False: return none()
    return E(OPTION, zite(found, 1, 0), {0: [], 1: [old]})


@model(r'std::collections::HashSet::<.*>::remove::<.*>')
def m_set_remove(e, st, a, ctx):
    mv = as_map(e, st, a[0])
    found, old, hits = map_lookup(e, st, mv, a[1])
    ents = [(simp(zand(p, znot(c))), k, v) for (p, k, v), c in zip(mv.ents, hits)]
    e.store(st, a[0], M(ents)); return found


@model(r'std::collections::Hash(Map|Set)::<.*>::clear')
def m_map_clear(e, st, a, ctx): e.store(st, a[0], M([])); return UNIT


@model(r'std::collections::Hash(Map|Set)::<.*>::len')
def m_map_len(e, st, a, ctx):
    n = 0
    for p, k, v in as_map(e, st, a[0]).ents: n = n + zite(p, 1, 0)
    return simp(n)


@model(r'std::collections::Hash(Map|Set)::<.*>::is_empty')
def m_map_is_empty(e, st, a, ctx):
    return simp(znot(zor(*[p for p, k, v in as_map(e, st, a[0]).ents])))


@model(r'std::collections::HashMap::<.*>::retain::<.*>')
def m_map_retain(e, st, a, ctx):
    mv = as_map(e, st, a[0]); ents = list(mv.ents)
    for i, (p, k, v) in enumerate(mv.ents):
        if p is False: continue
        keep = cond_apply(e, st, p, a[1], [PV(k), PV(v)], False)
        ents[i] = (simp(zand(p, keep)), k, v)
    e.store(st, a[0], M(ents)); return UNIT


@model(r'std::collections::HashMap::<.*>::keys', r'std::collections::HashMap::<.*>::iter', r'std::collections::HashSet::<.*>::iter',
       r'<&std::collections::Hash(Map|Set)<.*> as std::iter::IntoIterator>::into_iter')
def m_map_iter(e, st, a, ctx):
    kind = 'keys' if ctx[0].endswith('::keys') else 'set' if 'HashSet' in ctx[0] else 'pairs'
    return T([as_map(e, st, a[0]), 0, kind, True], 'iter::Map')


@model(r'std::collections::HashMap::<.*>::drain', r'std::collections::HashSet::<.*>::drain')
def m_map_drain(e, st, a, ctx):
    """all entries by value, the map is left empty (the iterator is consumed eagerly: dropping a Drain removes the rest anyway)"""
    mv = as_map(e, st, a[0])
    e.store(st, a[0], M([]))
    return T([mv, 0, 'set' if 'HashSet' in ctx[0] else 'pairs', False], 'iter::Map')


@model(r'<std::collections::Hash(Map|Set)<.*> as std::iter::IntoIterator>::into_iter')
def m_map_into_iter(e, st, a, ctx):
    return T([as_map(e, st, a[0]), 0, 'set' if 'HashSet' in ctx[0] else 'pairs', False], 'iter::Map')


@model(r'<std::collections::hash_(map|set)::(Iter|IntoIter|Keys|Drain)<.*> as std::iter::Iterator>::next')
def m_map_iter_next(e, st, a, ctx):
    """iteration in slot order (one admissible order; DESIGN.md 2.2)"""
    it = e.deref(st, a[0]); mv, idx, kind, byref = it.f
    n = len(mv.ents)
    # first present slot j >= idx
    found = False; nxt = idx; item = POISON
    for j in range(n - 1, -1, -1):
        p, k, v = mv.ents[j]
        c = simp(zand(p, j >= idx))
        if c is False: continue
        wrap = (lambda x: PV(x) if not isinstance(x, (P, PV)) else x) if byref else (lambda x: x)
        if kind == 'pairs': cell = T([wrap(k), wrap(v)])
        else: cell = wrap(k)
        item = cell if found is False else merge(c, cell, item)
        nxt = zite(c, j + 1, nxt); found = zor(found, c)
    found = simp(found)
    e.store(st, a[0], T([mv, simp(nxt), kind, byref], 'iter::Map'))
    if found is False: return none()
    return E(OPTION, zite(found, 1, 0), {0: [], 1: [item]})


# ------------------------------------------------------------------ formatting
@model(r'core::fmt::rt::Argument::<\'_>::new_(display|debug)::<.*>')
def m_fmt_arg(e, st, a, ctx):
    v = a[0]
    for _ in range(3):
        if isinstance(v, (P, PV)): v = e.deref(st, v)
    return Opaque('fmtarg', ('debug' if 'new_debug' in ctx[0] else 'display', v))


@model(r'std::fmt::Arguments::<\'_>::new::<.*>')
def m_fmt_args_new(e, st, a, ctx):
    tmpl = a[0]; tmpl = e.deref(st, tmpl) if isinstance(tmpl, (P, PV)) else tmpl
    args = a[1]; args = e.deref(st, args) if isinstance(args, (P, PV)) else args
    return Opaque('fmtargs', (list(tmpl.it[:tmpl.len]), list(args.it)))


@model(r'std::fmt::Arguments::<\'_>::from_str')
def m_fmt_from_str(e, st, a, ctx): return Opaque('fmtstr', as_str(e, st, a[0]))


@model(r'std::fmt::format', r'alloc::fmt::format')
def m_fmt_format(e, st, a, ctx):
    x = a[0]
    if x.tag == 'fmtstr': return x.data
    tmpl, args = x.data
    out = S(0, []); i = 0; ai = 0
    while i < len(tmpl):
        b = tmpl[i]
        if b == 0: break
        if b < 0x80:
            out = str_concat(out, mk_str(bytes(tmpl[i + 1:i + 1 + b]).decode('utf-8'))); i += 1 + b; continue
        if b == 0xc0:
            arg = args[ai]; ai += 1; i += 1
            out = str_concat(out, display(e, st, arg)); continue
        # other opcodes (explicit positions / format specs): opaque tail
        return str_concat(out, e.fresh_str('fmt_opaque', 6))
    return out


def display(e, st, arg):
    kind, v = arg.data
    if isinstance(v, S) and kind == 'display': return v
    if is_int(v): return int_to_str(e, st, v, True)
    if isinstance(v, bool) or (is_sym(v) and z3.is_bool(v)): return merge(v, mk_str('true'), mk_str('false'))
    return e.fresh_str('fmt_opaque', 6)


@model(r'std::io::_print', r'std::io::_eprint')
def m_print(e, st, a, ctx): return UNIT


@model(r'<.* as std::string::ToString>::to_string')
def m_opaque_to_string(e, st, a, ctx):
    """Display of a type whose fmt impl is not executed (error types): an arbitrary string"""
    return e.fresh_str('display_opaque', 6)


# ------------------------------------------------------------------ misc
@model(r'std::sync::atomic::Atomic::<bool>::load', r'std::sync::atomic::AtomicBool::load')
def m_atomic_load(e, st, a, ctx): return e.deref(st, a[0])


@model(r'std::sync::atomic::Atomic::<bool>::store', r'std::sync::atomic::AtomicBool::store')
def m_atomic_store(e, st, a, ctx): e.store(st, a[0], a[1]); return UNIT


@model(r'std::io::stdout', r'std::io::stderr', r'std::io::stdin')
def m_stdio(e, st, a, ctx): return Opaque('stdio')


@model(r'std::char::methods::<impl char>::is_ascii_alphabetic')
def m_is_ascii_alpha(e, st, a, ctx):
    c = val(e, st, a[0])
    return simp(zor(zand(c >= 65, c <= 90), zand(c >= 97, c <= 122)))


@model(r'std::mem::drop::<.*>', r'core::mem::drop::<.*>')
def m_drop(e, st, a, ctx): return UNIT


@model(r'std::mem::replace::<.*>')
def m_replace_mem(e, st, a, ctx):
    old = e.deref(st, a[0]); e.store(st, a[0], a[1]); return old


@model(r'std::mem::take::<.*>')
def m_take_mem(e, st, a, ctx):
    old = e.deref(st, a[0])
    new = S(0, []) if isinstance(old, S) else V(0, []) if isinstance(old, V) else M([]) if isinstance(old, M) else None
    if new is None: raise Abort('mem::take of %r' % (old,))
    e.store(st, a[0], new); return old


# ------------------------------------------------------------------ additional String / Vec API (used by plausible edits)
def pat_str(e, st, x):
    """a pattern argument: char or string"""
    if is_int(x): return S(1, [x])
    return as_str(e, st, x)


MODELS[:] = [(p, f) for (p, f) in MODELS if f.__name__ not in ('m_ends_with', 'm_starts_with')]


@model(r'core::str::<impl str>::starts_with::<.*>', r'std::string::String::starts_with::<.*>')
def m_starts_with2(e, st, a, ctx):
    return simp(match_at(as_str(e, st, a[0]), pat_str(e, st, a[1]), 0))


@model(r'core::str::<impl str>::ends_with::<.*>')
def m_ends_with2(e, st, a, ctx):
    sv = as_str(e, st, a[0]); p = pat_str(e, st, a[1])
    if not is_sym(sv.len) and not is_sym(p.len):
        if p.len > sv.len: return False
        return simp(zand(*[zeq(sv.ch[sv.len - p.len + i], p.ch[i]) for i in range(p.len)]))
    cs = [p.len <= sv.len]
    for i in range(len(p.ch)):
        cs.append(zimp(i < p.len, zeq(sel(sv.ch, sv.len - p.len + i, -1), p.ch[i])))
    return simp(zand(*cs))


@model(r'std::string::String::pop')
def m_string_pop(e, st, a, ctx):
    sv = as_str(e, st, a[0]); c = simp(sv.len > 0)
    item = sel(sv.ch, sv.len - 1, 0)
    e.store(st, a[0], S(zite(c, sv.len - 1, sv.len), sv.ch))
    return opt(c, item)


@model(r'std::string::String::truncate')
def m_string_truncate(e, st, a, ctx):
    sv = as_str(e, st, a[0]); n = a[1]
    ci = char_index_of_byte(e, st, sv, zite(simp(n <= byte_len(sv)), n, byte_len(sv)), 'truncate')
    e.store(st, a[0], S(ci, sv.ch)); return UNIT


@model(r'std::string::String::with_capacity', r'std::string::String::from_utf8_lossy_placeholder')
def m_string_with_capacity(e, st, a, ctx): return S(0, [])


@model(r'std::vec::Vec::<.*>::with_capacity')
def m_vec_with_capacity(e, st, a, ctx): return V(0, [])


@model(r'std::string::String::reserve', r'std::vec::Vec::<.*>::reserve', r'std::string::String::shrink_to_fit', r'std::vec::Vec::<.*>::shrink_to_fit')
def m_reserve(e, st, a, ctx): return UNIT


@model(r'std::vec::Vec::<.*>::truncate')
def m_vec_truncate(e, st, a, ctx):
    v = as_vec(e, st, a[0]); n = a[1]
    e.store(st, a[0], V(zite(simp(n < v.len), n, v.len), v.it)); return UNIT


@model(r'core::slice::<impl \[.*\]>::first', r'core::slice::<impl \[.*\]>::last', r'core::slice::<impl \[.*\]>::get::<usize>')
def m_slice_get(e, st, a, ctx):
    v = as_vec(e, st, a[0])
    if ctx[0].endswith('first'): i = 0
    elif ctx[0].endswith('last'): i = v.len - 1
    else: i = a[1]
    c = simp(zand(i >= 0, i < v.len))
    return opt(c, PV(sel(v.it, i, POISON)))


@model(r'std::vec::Vec::<.*>::extend_from_slice', r'<std::vec::Vec<.*> as std::iter::Extend<.*>>::extend::<std::vec::Vec<.*>>')
def m_vec_extend(e, st, a, ctx):
    e.store(st, a[0], vec_concat(as_vec(e, st, a[0]), as_vec(e, st, a[1]))); return UNIT


@model(r'std::char::methods::<impl char>::is_whitespace')
def m_char_is_ws(e, st, a, ctx): return simp(is_ws(val(e, st, a[0])))


@model(r'std::char::methods::<impl char>::is_ascii_digit', r'std::char::methods::<impl char>::is_numeric_placeholder')
def m_char_is_digit(e, st, a, ctx):
    c = val(e, st, a[0]); return simp(zand(c >= 48, c <= 57))


@model(r'std::slice::<impl \[(std::string::String|&str)\]>::join::<&str>', r'std::slice::<impl \[.*\]>::concat::<.*>')
def m_slice_join(e, st, a, ctx):
    """items joined with the separator (concat: no separator)"""
    v = as_vec(e, st, a[0]); sep = as_str(e, st, a[1]) if len(a) > 1 and '::join::' in ctx[0] else S(0, [])
    out = S(0, [])
    for i, x in enumerate(v.it):
        c = simp(i < v.len)
        if c is False: break
        piece = as_str(e, st, x)
        nxt = str_concat(str_concat(out, sep), piece) if i > 0 else piece
        out = nxt if c is True else merge(c, nxt, out)
    return out


@model(r'core::str::<impl str>::bytes')
def m_str_bytes(e, st, a, ctx):
    """bytes of an ASCII string = its characters (model bound: all characters < 128, stated as an obligation)"""
    sv = as_str(e, st, a[0])
    e.oblige(st, zand(*[zimp(i < sv.len, c < 128) for i, c in enumerate(sv.ch)]), 'model bound: str::bytes() of non-ASCII text', 'unwind')
    return T([V(sv.len, sv.ch), 0], 'iter::VecInto')


@model(r'core::num::<impl u8>::is_ascii_digit')
def m_u8_is_digit(e, st, a, ctx):
    c = val(e, st, a[0]); return simp(zand(c >= 48, c <= 57))


def str_lt(a, b):
    """a < b in the lexicographic order of code points (= byte order of UTF-8)"""
    n = max(len(a.ch), len(b.ch))
    lt = False; eq_so_far = True
    for i in range(n):
        ai = a.ch[i] if i < len(a.ch) else 0; bi = b.ch[i] if i < len(b.ch) else 0
        ina = simp(i < a.len) if i < len(a.ch) else False; inb = simp(i < b.len) if i < len(b.ch) else False
        lt = zor(lt, zand(eq_so_far, znot(ina), inb), zand(eq_so_far, ina, inb, ai < bi))
        eq_so_far = zand(eq_so_far, ina, inb, zeq(ai, bi))
    return simp(lt)


@model(r'<(&)*(std::string::String|str) as std::cmp::PartialOrd(<.*>)?>::(lt|le|gt|ge)')
def m_str_ord(e, st, a, ctx):
    x = as_str(e, st, a[0]); y = as_str(e, st, a[1])
    op = ctx[0].rsplit('::', 1)[1]
    if op == 'lt': return str_lt(x, y)
    if op == 'gt': return str_lt(y, x)
    if op == 'le': return simp(znot(str_lt(y, x)))
    return simp(znot(str_lt(x, y)))


@model(r'std::char::methods::<impl char>::is_ascii_whitespace')
def m_char_is_ascii_ws(e, st, a, ctx):
    c = val(e, st, a[0]); return simp(zor(zeq(c, 32), zeq(c, 9), zeq(c, 10), zeq(c, 12), zeq(c, 13)))


@model(r'<char as std::cmp::PartialEq>::(eq|ne)', r'<usize as std::cmp::PartialEq>::(eq|ne)', r'<bool as std::cmp::PartialEq>::(eq|ne)')
def m_scalar_eq(e, st, a, ctx):
    r = zeq(val(e, st, a[0]), val(e, st, a[1]))
    return znot(r) if ctx[0].endswith('ne') else r


@model(r'std::option::Option::<.*>::cloned', r'std::option::Option::<.*>::copied')
def m_opt_cloned(e, st, a, ctx):
    o = as_enum(e, st, a[0])
    if 1 not in o.p: return none()
    return E(OPTION, o.d, {0: [], 1: [val(e, st, o.p[1][0])]})


@model(r'std::option::Option::<.*>::is_some_and::<.*>', r'std::option::Option::<.*>::map_or::<.*>')
def m_opt_unsupported(e, st, a, ctx): raise Abort('unmodelled Option combinator: ' + ctx[0])


@model(r'std::collections::HashMap::<.*>::entry')
def m_map_entry(e, st, a, ctx): return T([a[0], a[1]], 'map::Entry')


@model(r'std::collections::hash_map::Entry::<.*>::or_insert')
def m_entry_or_insert(e, st, a, ctx):
    ent = a[0]; mp_, key = ent.f
    out = []
    for c0, pp in ptr_alts(mp_):
        if c0 is False: continue
        mv = e.read(st, ('mem', pp.fid, pp.loc, list(pp.proj)))
        if not isinstance(mv, M): mv = as_map(e, st, pp)
        found, old, hits = map_lookup(e, st, mv, key)
        ents = list(mv.ents)
        keyv = as_str(e, st, key) if not _is_scalar(key) else key
        if found is not True: ents.append((simp(znot(found)), keyv, a[1]))
        new_m = M(ents)
        e.write(st, ('mem', pp.fid, pp.loc, list(pp.proj)), new_m if c0 is True else merge(c0, new_m, mv))
        for i, c in enumerate(hits):
            if c is not False: out.append((zand(c0, c), P(pp.fid, pp.loc, pp.proj + (('m', i),))))
        if found is not True: out.append((zand(c0, simp(znot(found))), P(pp.fid, pp.loc, pp.proj + (('m', len(ents) - 1),))))
    if not out: raise Abort('entry().or_insert on an unreachable map pointer')
    return out[0][1] if len(out) == 1 else U(out)


@model(r'core::str::<impl str>::split::<.*>')
def m_str_split(e, st, a, ctx):
    sv = as_str(e, st, a[0]); p = pat_str(e, st, a[1])
    pc = str_concrete(p)
    if pc is None or len(pc) != 1: raise Abort('split with symbolic / multi-char pattern')
    return T([V(*split_on_char(sv, ord(pc))), 0], 'iter::Split')


def split_on_char(sv, code):
    """pieces of sv separated by the char `code` (str::split semantics: k separators give k+1 pieces)"""
    n = len(sv.ch)
    sc = str_concrete(sv)
    if sc is not None:
        parts = sc.split(chr(code)); return len(parts), [mk_str(x) for x in parts]
    sep = [zand(i < sv.len, zeq(sv.ch[i], code)) for i in range(n)]
    pi = [0]
    for i in range(n): pi.append(pi[-1] + zite(sep[i], 1, 0))      # pi[i] = piece index of position i
    count = (sel(pi, sv.len, 0) if is_sym(sv.len) else pi[sv.len]) + 1
    pieces = []
    for k in range(n + 1):
        start = sv.len
        for i in range(n - 1, -1, -1): start = zite(zand(i < sv.len, zeq(pi[i], k), znot(sep[i])) if False else zand(i <= sv.len, zeq(pi[i], k)), i, start)
        end = sv.len
        for i in range(n - 1, -1, -1): end = zite(zand(sep[i], zeq(pi[i], k)), i, end)
        pieces.append(str_sub(sv, simp(start), simp(end)))
    return simp(count), pieces


@model(r'<std::str::Split<\'_, .*> as std::iter::Iterator>::collect::<std::vec::Vec<(&str|std::string::String)>>')
def m_split_collect(e, st, a, ctx):
    it = a[0]; v, idx = it.f
    return v


@model(r'<std::str::Split<\'_, .*> as std::iter::Iterator>::next')
def m_split_next(e, st, a, ctx):
    it = e.deref(st, a[0]); v, idx = it.f
    c = simp(idx < v.len)
    e.store(st, a[0], T([v, zite(c, idx + 1, idx)], 'iter::Split'))
    return opt(c, sel(v.it, idx, S(0, [])))


def deep_val(e, st, v, depth=0):
    """replace pointers by their pointees, recursively (for structural comparison)"""
    if depth > 6: return v
    if isinstance(v, (P, PV)): return deep_val(e, st, e.deref(st, v), depth + 1)
    if isinstance(v, T): return T([deep_val(e, st, x, depth + 1) for x in v.f], v.ty)
    if isinstance(v, E): return E(v.ty, v.d, {k: [deep_val(e, st, x, depth + 1) for x in p] for k, p in v.p.items()})
    if isinstance(v, V): return V(v.len, [deep_val(e, st, x, depth + 1) for x in v.it])
    if isinstance(v, U): return U([(c, deep_val(e, st, x, depth + 1)) for c, x in v.alts])
    return v


@model(r'<.* as std::cmp::PartialEq(<.*>)?>::(eq|ne)')
def m_generic_eq(e, st, a, ctx):
    r = simp(deep_eq(deep_val(e, st, a[0]), deep_val(e, st, a[1])))
    return znot(r) if ctx[0].endswith('::ne') else r


# ------------------------------------------------------------------ iterator adapters (eager, over materialised items)
def materialise(e, st, it):
    """V of the remaining items of an iterator value"""
    if isinstance(it, (P, PV)): it = e.deref(st, it)
    if not isinstance(it, T): raise Abort('materialise: not an iterator %r' % (it,))
    ty = it.ty
    if ty == 'iter::Chars':
        sv, idx = it.f
        if idx != 0: raise Abort('materialise advanced Chars')
        return V(sv.len, sv.ch)
    if ty in ('iter::Lines', 'iter::Split', 'iter::VecInto'):
        v, idx = it.f
        if idx != 0:
            if is_sym(idx): raise Abort('materialise advanced iterator')
            return V(v.len - idx, v.it[idx:])
        return v
    if ty == 'iter::Slice':
        v, idx, base = it.f
        if idx != 0: raise Abort('materialise advanced slice iterator')
        return V(v.len, [PV(x) for x in v.it])
    if ty in ('std::ops::Range', 'core::ops::Range'):
        lo, hi = it.f
        if is_sym(lo) or is_sym(hi):
            cap = getattr(e, 'range_cap', None)
            if cap is None: raise Abort('materialise symbolic range (no range_cap set by the harness)')
            n = simp(zite(hi > lo, hi - lo, 0))
            e.oblige(st, simp(n <= cap), 'model bound: symbolic range longer than %d' % cap, 'unwind')
            return V(n, [lo + k for k in range(cap)])
        return V(max(0, hi - lo), list(range(lo, hi)))
    if ty == 'iter::Map':
        mv, idx, kind, byref = it.f
        if idx != 0: raise Abort('materialise advanced map iterator')
        wrap = (lambda x: PV(x) if not isinstance(x, (P, PV)) else x) if byref else (lambda x: x)
        cells = [(T([wrap(k), wrap(v)]) if kind == 'pairs' else wrap(k)) for p, k, v in mv.ents]
        return compact(V(len(cells), cells), [p for p, k, v in mv.ents])
    raise Abort('materialise: unknown iterator ' + str(ty))


def mat_iter(v): return T([v, 0], 'iter::VecInto')


def map_cells(e, st, v, clo, wrap=lambda x: [x]):
    out = []
    for i, x in enumerate(v.it):
        c = simp(i < v.len)
        if c is False: out.append(None); continue
        out.append(cond_apply(e, st, c, clo, wrap(x), POISON))
    return out


ITER = r'<(std|core)::(iter|str|slice|vec|ops|collections::\w+)::[\w:]+(<.*>)? as std::iter::Iterator>'
# (hash_map::Values etc. are produced already materialised)


@model(ITER + r'::map::<.*>')
def m_iter_map(e, st, a, ctx):
    v = materialise(e, st, a[0])
    return mat_iter(V(v.len, map_cells(e, st, v, a[1])))


@model(ITER + r'::enumerate')
def m_iter_enumerate(e, st, a, ctx):
    v = materialise(e, st, a[0])
    return mat_iter(V(v.len, [T([i, x]) for i, x in enumerate(v.it)]))


@model(r'core::str::<impl str>::char_indices')
def m_char_indices(e, st, a, ctx):
    sv = as_str(e, st, a[0]); off = byte_offsets(sv)
    return mat_iter(V(sv.len, [T([off[i], c]) for i, c in enumerate(sv.ch)]))


def compact(v, keep):
    """items of v whose keep flag holds, in order (symbolic compaction)"""
    n = len(v.it); pos = []; cnt = 0
    for i in range(n):
        k = simp(zand(i < v.len, keep[i])); pos.append((k, cnt)); cnt = cnt + zite(k, 1, 0)
    out = []
    for r in range(n):
        cell = None
        for i in range(n - 1, -1, -1):
            k, p = pos[i]
            c = simp(zand(k, zeq(p, r)))
            if c is False: continue
            cell = v.it[i] if cell is None else merge(c, v.it[i], cell)
        out.append(cell)
    return V(simp(cnt), out)


@model(ITER + r'::filter::<.*>')
def m_iter_filter(e, st, a, ctx):
    v = materialise(e, st, a[0])
    keep = map_cells(e, st, v, a[1], wrap=lambda x: [PV(x)])
    return mat_iter(compact(v, [k if k is not None else False for k in keep]))


@model(ITER + r'::rev')
def m_iter_rev(e, st, a, ctx):
    v = materialise(e, st, a[0])
    if not is_sym(v.len): return mat_iter(V(v.len, list(reversed(v.it[:v.len]))))
    n = len(v.it)
    return mat_iter(V(v.len, [sel(v.it, v.len - 1 - k, POISON) for k in range(n)]))


@model(ITER + r'::skip')
def m_iter_skip(e, st, a, ctx):
    v = materialise(e, st, a[0]); n = a[1]
    if is_sym(n): raise Abort('skip with symbolic count')
    newlen = zite(simp(v.len >= n), v.len - n, 0)
    return mat_iter(V(simp(newlen), v.it[n:]))


@model(ITER + r'::take')
def m_iter_take(e, st, a, ctx):
    v = materialise(e, st, a[0]); n = a[1]
    return mat_iter(V(simp(zite(simp(v.len <= n), v.len, n)), v.it))


@model(ITER + r'::collect::<std::vec::Vec<.*>>')
def m_iter_collect_vec(e, st, a, ctx):
    return materialise(e, st, a[0])


@model(ITER + r'::collect::<std::string::String>')
def m_iter_collect_string(e, st, a, ctx):
    v = materialise(e, st, a[0])
    if all(x is None or is_int(x) for x in v.it): return S(v.len, [0 if x is None else x for x in v.it])
    # strings: concatenate
    out = S(0, [])
    for i, x in enumerate(v.it):
        c = simp(i < v.len)
        if c is False: break
        out = merge(c, str_concat(out, as_str(e, st, x)), out)
    return out


@model(ITER + r'::count')
def m_iter_count(e, st, a, ctx): return materialise(e, st, a[0]).len


@model(ITER + r'::last')
def m_iter_last(e, st, a, ctx):
    v = materialise(e, st, a[0])
    return opt(simp(v.len > 0), sel(v.it, v.len - 1, POISON))


@model(ITER + r'::(any|all)::<.*>')
def m_iter_any_all(e, st, a, ctx):
    v = materialise(e, st, a[0])
    it_arg = a[0]
    flags = map_cells(e, st, v, a[1])
    is_any = '::any::<' in ctx[0]
    cs = [zand(simp(i < v.len), f) if is_any else zimp(simp(i < v.len), f) for i, f in enumerate(flags) if f is not None]
    return simp(zor(*cs)) if is_any else simp(zand(*cs))


@model(ITER + r'::position::<.*>')
def m_iter_position(e, st, a, ctx):
    v = materialise(e, st, a[0])
    flags = map_cells(e, st, v, a[1])
    found = False; idx = 0
    for i in range(len(flags) - 1, -1, -1):
        if flags[i] is None: continue
        c = simp(zand(i < v.len, flags[i])); idx = zite(c, i, idx); found = zor(found, c)
    return opt(simp(found), idx)


@model(r'<std::iter::\w+<.*> as std::iter::Iterator>::next', r'<std::str::CharIndices<\'_> as std::iter::Iterator>::next')
def m_mat_next(e, st, a, ctx):
    return m_vec_iter_next(e, st, a, ctx)


@model(r'<std::str::CharIndices<\'_> as std::iter::IntoIterator>::into_iter', r'<std::str::Split<\'_, .*> as std::iter::IntoIterator>::into_iter')
def m_iter_identity2(e, st, a, ctx): return a[0]


MODELS[:] = [(p, f) for (p, f) in MODELS if f.__name__ != 'm_str_split']


@model(r'core::str::<impl str>::split::<.*>')
def m_str_split2(e, st, a, ctx):
    sv = as_str(e, st, a[0]); pat = a[1]
    if isinstance(pat, T) and pat.ty and pat.ty.startswith('{closure@'):
        flags = []
        for i, c in enumerate(sv.ch):
            inside = simp(i < sv.len)
            flags.append(False if inside is False else simp(zand(inside, cond_apply(e, st, inside, pat, [c], False))))
        return T([V(*split_on_flags(sv, flags)), 0], 'iter::Split')
    p = pat_str(e, st, pat)
    pc = str_concrete(p)
    if pc is None or len(pc) != 1:
        return T([split_general(e, st, sv, p), 0], 'iter::Split')
    code = ord(pc)
    sc = str_concrete(sv)
    if sc is not None:
        parts = sc.split(pc); return T([V(len(parts), [mk_str(x) for x in parts]), 0], 'iter::Split')
    return T([V(*split_on_flags(sv, [zand(i < sv.len, zeq(c, code)) for i, c in enumerate(sv.ch)])), 0], 'iter::Split')


def split_general(e, st, sv, p):
    """str::split with an arbitrary (symbolic, possibly multi-character) non-empty pattern: the text between the non-overlapping
    occurrences taken from the left. Model bound: the pattern is not empty (an obligation)."""
    e.oblige(st, p.len >= 1, 'model bound: str::split / replace with an empty pattern', 'unwind')
    n = len(sv.ch)
    free = 0; takes = []
    for i in range(n):
        t = simp(zand(match_at(sv, p, i), i >= free, p.len >= 1))
        takes.append(t); free = zite(t, i + p.len, free)
    before = [0]
    for i in range(n): before.append(before[-1] + zite(takes[i], 1, 0))      # matches taken at positions < i
    count = before[n] + 1
    pieces = []
    for k in range(n + 1):
        # piece k starts behind the (k-1)-th match (or at 0) and ends at the k-th match (or at the end)
        start = 0; end = sv.len
        for i in range(n - 1, -1, -1):
            if k >= 1: start = zite(zand(takes[i], zeq(before[i], k - 1)), i + p.len, start)
            end = zite(zand(takes[i], zeq(before[i], k)), i, end)
        pieces.append(str_sub(sv, simp(start), simp(end)))
    return V(simp(count), pieces)


def split_on_flags(sv, sep):
    """pieces of sv separated at the positions flagged in sep (str::split semantics: k separators give k+1 pieces)"""
    n = len(sv.ch)
    pi = [0]
    for i in range(n): pi.append(pi[-1] + zite(sep[i], 1, 0))      # pi[i] = piece index of position i
    count = (sel(pi, sv.len, 0) if is_sym(sv.len) else pi[sv.len]) + 1
    pieces = []
    for k in range(n + 1):
        start = sv.len
        for i in range(n, -1, -1):
            if i == 0: c = zeq(k, 0)
            else: c = zand(i <= sv.len, sep[i - 1], zeq(pi[i], k))      # piece k (k>0) starts right after the k-th separator
            start = zite(c, i, start) if i > 0 else zite(zeq(k, 0), 0, start)
        end = sv.len
        for i in range(n - 1, -1, -1): end = zite(zand(sep[i], zeq(pi[i], k)), i, end)
        pieces.append(str_sub(sv, simp(start), simp(end)))
    return simp(count), pieces


@model(r'core::str::<impl str>::split_terminator::<.*>')
def m_split_terminator(e, st, a, ctx):
    it = m_str_split2(e, st, a, ctx)
    v, idx = it.f
    sv = as_str(e, st, a[0])
    # drop the trailing empty piece (text empty or ending with a separator)
    last = sel(v.it, v.len - 1, S(0, []))
    newlen = simp(zite(zand(v.len >= 1, zeq(last.len, 0)), v.len - 1, v.len))
    return T([V(newlen, v.it), 0], 'iter::Split')


@model(r'<std::str::SplitTerminator<\'_, .*> as std::iter::Iterator>::next')
def m_split_term_next(e, st, a, ctx): return m_split_next(e, st, a, ctx)


@model(r'<std::str::SplitTerminator<\'_, .*> as std::iter::IntoIterator>::into_iter')
def m_split_term_into(e, st, a, ctx): return a[0]


@model(r'core::str::<impl str>::is_char_boundary', r'std::string::String::is_char_boundary')
def m_is_char_boundary(e, st, a, ctx):
    sv = as_str(e, st, a[0]); b = a[1]; off = byte_offsets(sv)
    return simp(zor(*[zand(zeq(off[i], b), i <= sv.len) for i in range(len(sv.ch) + 1)]))


# ------------------------------------------------------------------ paths (lexical, concrete strings only)
def _cpath(e, st, x, what):
    s = str_concrete(as_str(e, st, x))
    if s is None: raise Abort('%s on a symbolic path' % what)
    return s


@model(r'std::path::PathBuf::from::<.*>', r'<std::path::PathBuf as std::convert::From<.*>>::from', r'std::path::Path::new::<.*>', r'std::path::Path::to_path_buf',
       r'<std::path::PathBuf as std::ops::Deref>::deref', r'std::path::PathBuf::as_path', r'<std::path::Path as std::convert::AsRef<std::path::Path>>::as_ref')
def m_path_identity(e, st, a, ctx): return as_str(e, st, a[0])


@model(r'std::path::Path::parent')
def m_path_parent(e, st, a, ctx):
    p = _cpath(e, st, a[0], 'parent')
    q = p.rstrip('/')
    if q == '' : return none()
    if '/' not in q: return some(mk_str('')) if not p.startswith('/') else none()
    par = q.rsplit('/', 1)[0]
    return some(mk_str(par if par else '/'))


@model(r'std::path::PathBuf::push::<.*>')
def m_path_push(e, st, a, ctx):
    base = _cpath(e, st, a[0], 'push'); comp = _cpath(e, st, a[1], 'push')
    if comp.startswith('/'): r = comp
    elif base == '' or base.endswith('/'): r = base + comp
    else: r = base + '/' + comp
    e.store(st, a[0], mk_str(r)); return UNIT


@model(r'std::path::Path::to_string_lossy')
def m_path_to_string_lossy(e, st, a, ctx): return as_str(e, st, a[0])


@model(r'std::path::PathBuf::pop')
def m_path_pop(e, st, a, ctx):
    p = _cpath(e, st, a[0], 'pop'); q = p.rstrip('/')
    if q == '' or '/' not in q:
        e.store(st, a[0], mk_str('' if not p.startswith('/') else '/')); return q != ''
    e.store(st, a[0], mk_str(q.rsplit('/', 1)[0] or '/')); return True


@model(r'std::path::Path::join::<.*>')
def m_path_join(e, st, a, ctx):
    base = _cpath(e, st, a[0], 'join'); comp = _cpath(e, st, a[1], 'join')
    if comp.startswith('/'): return mk_str(comp)
    return mk_str(base + comp if (base == '' or base.endswith('/')) else base + '/' + comp)


# ------------------------------------------------------------------ more Option / Result combinators
MODELS[:] = [(p, f) for (p, f) in MODELS if f.__name__ not in ('m_opt_unsupported', 'm_unwrap_or_default')]


@model(r'std::option::Option::<.*>::or')
def m_opt_or(e, st, a, ctx):
    o = as_enum(e, st, a[0]); b = as_enum(e, st, a[1])
    return merge(simp(zeq(o.d, 1)), o, b)


@model(r'std::option::Option::<.*>::and::<.*>')
def m_opt_and(e, st, a, ctx):
    o = as_enum(e, st, a[0]); b = as_enum(e, st, a[1])
    return merge(simp(zeq(o.d, 1)), b, none())


@model(r'std::option::Option::<.*>::or_else::<.*>')
def m_opt_or_else(e, st, a, ctx):
    o = as_enum(e, st, a[0])
    return cond_apply(e, st, simp(zeq(o.d, 0)), a[1], [], o)


@model(r'std::option::Option::<.*>::and_then::<.*>')
def m_opt_and_then(e, st, a, ctx):
    o = as_enum(e, st, a[0])
    if 1 not in o.p: return none()
    return cond_apply(e, st, simp(zeq(o.d, 1)), a[1], [o.p[1][0]], none())


@model(r'std::option::Option::<.*>::map_or::<.*>')
def m_opt_map_or(e, st, a, ctx):
    o = as_enum(e, st, a[0])
    if 1 not in o.p: return a[1]
    return cond_apply(e, st, simp(zeq(o.d, 1)), a[2], [o.p[1][0]], a[1])


@model(r'std::option::Option::<.*>::is_some_and::<.*>')
def m_opt_is_some_and(e, st, a, ctx):
    o = as_enum(e, st, a[0])
    if 1 not in o.p: return False
    return cond_apply(e, st, simp(zeq(o.d, 1)), a[1], [o.p[1][0]], False)


@model(r'std::option::Option::<.*>::ok_or_else::<.*>')
def m_ok_or_else(e, st, a, ctx):
    o = as_enum(e, st, a[0])
    ev = cond_apply(e, st, simp(zeq(o.d, 0)), a[1], [], POISON)
    return E(RESULT, zite(zeq(o.d, 1), 0, 1), {0: list(o.p.get(1, [POISON])), 1: [ev]})


@model(r'std::option::Option::<.*>::unwrap_or_default')
def m_unwrap_or_default2(e, st, a, ctx):
    o = as_enum(e, st, a[0])
    ty = re.search(r'Option::<(.*)>::unwrap_or_default', ctx[0]).group(1)
    d = S(0, []) if ty.startswith('std::string::String') else V(0, []) if ty.startswith('std::vec::Vec') else False if ty == 'bool' else 0 if ty in INT_TYPES else None
    if d is None: raise Abort('unwrap_or_default of ' + ty)
    return merge(simp(zeq(o.d, 1)), o.p[1][0], d) if 1 in o.p else d


@model(r'std::result::Result::<.*>::unwrap_or')
def m_res_unwrap_or(e, st, a, ctx):
    o = as_enum(e, st, a[0])
    return merge(simp(zeq(o.d, 0)), o.p[0][0], a[1]) if 0 in o.p else a[1]


@model(r'std::result::Result::<.*>::unwrap_or_else::<.*>')
def m_res_unwrap_or_else(e, st, a, ctx):
    o = as_enum(e, st, a[0])
    return cond_apply(e, st, simp(zeq(o.d, 1)), a[1], [o.p[1][0]] if 1 in o.p else [POISON], o.p[0][0] if 0 in o.p else POISON)


@model(r'std::result::Result::<.*>::map::<.*>')
def m_res_map(e, st, a, ctx):
    o = as_enum(e, st, a[0])
    if 0 not in o.p: return o
    v = cond_apply(e, st, simp(zeq(o.d, 0)), a[1], [o.p[0][0]], POISON)
    p = dict(o.p); p[0] = [v]
    return E(RESULT, o.d, p)


@model(r'std::result::Result::<.*>::and_then::<.*>')
def m_res_and_then(e, st, a, ctx):
    o = as_enum(e, st, a[0])
    if 0 not in o.p: return o
    return cond_apply(e, st, simp(zeq(o.d, 0)), a[1], [o.p[0][0]], E(RESULT, 1, {1: list(o.p.get(1, [POISON]))}))


@model(r'std::result::Result::<.*>::err')
def m_res_err(e, st, a, ctx):
    o = as_enum(e, st, a[0])
    return E(OPTION, zite(zeq(o.d, 1), 1, 0), {0: [], 1: list(o.p.get(1, [POISON]))})


@model(r'std::option::Option::<.*>::filter::<.*>')
def m_opt_filter(e, st, a, ctx):
    o = as_enum(e, st, a[0])
    if 1 not in o.p: return none()
    keep = cond_apply(e, st, simp(zeq(o.d, 1)), a[1], [PV(o.p[1][0])], False)
    return E(OPTION, zite(zand(zeq(o.d, 1), keep), 1, 0), {0: [], 1: list(o.p[1])})


@model(r'std::option::Option::<.*>::replace', r'std::option::Option::<.*>::insert')
def m_opt_replace(e, st, a, ctx):
    o = as_enum(e, st, a[0]); e.store(st, a[0], some(a[1]))
    return o if ctx[0].endswith('replace') else P(a[0].fid, a[0].loc, a[0].proj + (('v', 1), ('f', 0)))


@model(r'core::slice::<impl \[.*\]>::first', r'std::vec::Vec::<.*>::first')
def m_first(e, st, a, ctx):
    v = as_vec(e, st, a[0])
    return opt(simp(v.len > 0), PV(v.it[0] if v.it else POISON))


@model(r'core::str::<impl str>::strip_prefix::<.*>', r'core::str::<impl str>::strip_suffix::<.*>')
def m_strip_prefix(e, st, a, ctx):
    sv = as_str(e, st, a[0]); p = pat_str(e, st, a[1])
    if 'strip_prefix' in ctx[0]:
        c = simp(match_at(sv, p, 0))
        return opt(c, str_sub(sv, p.len, sv.len))
    c = m_ends_with2(e, st, a, ctx)
    return opt(c, str_sub(sv, 0, sv.len - p.len))


@model(r'core::str::<impl str>::trim_start_matches::<.*>', r'core::str::<impl str>::trim_end_matches::<.*>', r'core::str::<impl str>::trim_matches::<.*>')
def m_trim_matches(e, st, a, ctx):
    sv = as_str(e, st, a[0]); p = pat_str(e, st, a[1])
    pc = str_concrete(p)
    if pc is None or len(pc) != 1: raise Abort('trim_matches with a symbolic or multi-char pattern')
    code = ord(pc); n = len(sv.ch)
    start = 0; end = sv.len
    if 'trim_end' not in ctx[0]:
        start = sv.len
        for i in range(n - 1, -1, -1): start = zite(zand(i < sv.len, znot(zeq(sv.ch[i], code))), i, start)
    if 'trim_start' not in ctx[0]:
        end = start if 'trim_end' not in ctx[0] else 0
        for i in range(n): end = zite(zand(i < sv.len, znot(zeq(sv.ch[i], code))), i + 1, end)
    return str_sub(sv, simp(start), simp(end))


@model(ITER + r'::filter_map::<.*>')
def m_iter_filter_map(e, st, a, ctx):
    v = materialise(e, st, a[0])
    outs = map_cells(e, st, v, a[1])        # Option<T> per cell
    keep = []; vals = []
    for o in outs:
        if o is None or o is POISON or not isinstance(o, E): keep.append(False); vals.append(None); continue
        keep.append(simp(zeq(o.d, 1))); vals.append(o.p[1][0] if 1 in o.p else None)
    return mat_iter(compact(V(v.len, vals), keep))


@model(ITER + r'::flat_map::<.*>', ITER + r'::flatten')
def m_iter_flat_unsupported(e, st, a, ctx): raise Abort('unmodelled iterator adapter: ' + ctx[0][:80])


@model(ITER + r'::cloned', ITER + r'::copied', ITER + r'::by_ref', ITER + r'::peekable', ITER + r'::fuse')
def m_iter_cloned(e, st, a, ctx):
    v = materialise(e, st, a[0])
    return mat_iter(V(v.len, [val(e, st, x) if isinstance(x, (P, PV)) else x for x in v.it]))


@model(ITER + r'::for_each::<.*>')
def m_iter_for_each(e, st, a, ctx):
    v = materialise(e, st, a[0]); map_cells(e, st, v, a[1]); return UNIT


@model(ITER + r'::find::<.*>')
def m_iter_find(e, st, a, ctx):
    v = materialise(e, st, a[0])
    flags = map_cells(e, st, v, a[1], wrap=lambda x: [PV(x)])
    found = False; item = POISON
    for i in range(len(flags) - 1, -1, -1):
        if flags[i] is None: continue
        c = simp(zand(i < v.len, flags[i])); item = v.it[i] if found is False else merge(c, v.it[i], item); found = zor(found, c)
    return opt(simp(found), item)


@model(ITER + r'::nth', ITER + r'::next_placeholder')
def m_iter_nth(e, st, a, ctx):
    it = e.deref(st, a[0]) if isinstance(a[0], (P, PV)) else a[0]
    v = materialise(e, st, it); n = a[1]
    return opt(simp(n < v.len), sel(v.it, n, POISON))


@model(r'std::collections::HashMap::<.*>::values', r'std::collections::HashMap::<.*>::into_values', r'std::collections::HashMap::<.*>::values_mut')
def m_map_values(e, st, a, ctx):
    mv = as_map(e, st, a[0])
    byref = not ctx[0].endswith('into_values')
    cells = [(PV(v) if byref and not isinstance(v, (P, PV)) else v) for p, k, v in mv.ents]
    return mat_iter(compact(V(len(cells), cells), [p for p, k, v in mv.ents]))


@model(r'<std::collections::hash_map::(Values|IntoValues|ValuesMut|IntoKeys)<.*> as std::iter::Iterator>::next', r'<std::collections::hash_map::(Values|IntoValues|IntoKeys)<.*> as std::iter::IntoIterator>::into_iter')
def m_map_values_next(e, st, a, ctx):
    if ctx[0].endswith('into_iter'): return a[0]
    return m_vec_iter_next(e, st, a, ctx)


@model(r'std::collections::HashMap::<.*>::into_keys')
def m_map_into_keys(e, st, a, ctx):
    mv = as_map(e, st, a[0])
    return mat_iter(compact(V(len(mv.ents), [k for p, k, v in mv.ents]), [p for p, k, v in mv.ents]))
