"""Parser for `rustc -Zunpretty=mir -Ztrim-diagnostic-paths=no` text, plus a light scan of the crate
source for struct field order, enum variant order and impl headers.

Nothing here is specific to a property: the output is a table of functions (blocks of pre-parsed
statements / terminators), allocation blobs, and type shape tables."""
import re, os, hashlib, functools

# ----------------------------------------------------------------------------- text helpers
_CHAR_RE = re.compile(r"'(\\u\{[0-9a-fA-F]+\}|\\x[0-9a-fA-F]{2}|\\.|[^\\'])'")


def scan_top(s, sep=','):
    """split s at top-level sep; aware of () [] {} <> nesting, string / byte-string / char literals."""
    out = []; depth = 0; cur = []; i = 0; n = len(s)
    while i < n:
        c = s[i]
        if c == '"':
            j = i + 1
            while j < n and s[j] != '"':
                if s[j] == '\\': j += 1
                j += 1
            cur.append(s[i:j + 1]); i = j + 1; continue
        if c == "'":
            m = _CHAR_RE.match(s, i)
            if m: cur.append(m.group(0)); i = m.end(); continue
        if c in '([{': depth += 1
        elif c in ')]}': depth -= 1
        elif c == '<':
            # generic bracket unless it is a comparison (never in MIR text) / part of "<=" ; "<" after space+digit no
            depth += 1
        elif c == '>':
            if i > 0 and s[i - 1] in '-=': pass
            else: depth -= 1
        elif c == sep and depth == 0:
            out.append(''.join(cur).strip()); cur = []; i += 1; continue
        cur.append(c); i += 1
    t = ''.join(cur).strip()
    if t: out.append(t)
    return out


def match_close(s, i):
    """s[i] is an opening ( [ { ; return index of the matching close (string/char aware; <> not counted)."""
    depth = 0; n = len(s)
    while i < n:
        c = s[i]
        if c == '"':
            j = i + 1
            while j < n and s[j] != '"':
                if s[j] == '\\': j += 1
                j += 1
            i = j + 1; continue
        if c == "'":
            m = _CHAR_RE.match(s, i)
            if m: i = m.end(); continue
        if c in '([{': depth += 1
        elif c in ')]}':
            depth -= 1
            if depth == 0: return i
        i += 1
    raise ValueError('unbalanced: ' + s)


def unescape(s):
    out = []; i = 0
    while i < len(s):
        c = s[i]
        if c == '\\':
            n = s[i + 1]
            if n == 'n': out.append('\n'); i += 2
            elif n == 'r': out.append('\r'); i += 2
            elif n == 't': out.append('\t'); i += 2
            elif n == '0': out.append('\0'); i += 2
            elif n == 'u':
                j = s.index('}', i); out.append(chr(int(s[i + 3:j], 16))); i = j + 1
            elif n == 'x':
                out.append(chr(int(s[i + 2:i + 4], 16))); i += 4
            else: out.append(n); i += 2
        else: out.append(c); i += 1
    return ''.join(out)


def unescape_bytes(s):
    """rust byte-string literal body -> list of ints"""
    out = []; i = 0
    while i < len(s):
        c = s[i]
        if c == '\\':
            n = s[i + 1]
            if n == 'n': out.append(10); i += 2
            elif n == 'r': out.append(13); i += 2
            elif n == 't': out.append(9); i += 2
            elif n == '0': out.append(0); i += 2
            elif n == 'x': out.append(int(s[i + 2:i + 4], 16)); i += 4
            else: out.append(ord(n)); i += 2
        else:
            out.extend(c.encode('utf-8')); i += 1
    return out


# ----------------------------------------------------------------------------- IR
class Fn:
    __slots__ = ('name', 'crate', 'params', 'ret', 'locals', 'blocks', 'text_hash', 'nargs', 'cfg', 'debug')

    def __init__(s, name, crate, params, ret):
        s.name = name; s.crate = crate; s.params = params; s.ret = ret
        s.locals = {}; s.blocks = {}; s.text_hash = None; s.nargs = len(params); s.cfg = None; s.debug = {}


INT_TYPES = {'usize': (0, 2**64 - 1), 'u8': (0, 255), 'u16': (0, 2**16 - 1), 'u32': (0, 2**32 - 1),
             'u64': (0, 2**64 - 1), 'u128': (0, 2**128 - 1), 'isize': (-2**63, 2**63 - 1), 'i8': (-128, 127),
             'i16': (-2**15, 2**15 - 1), 'i32': (-2**31, 2**31 - 1), 'i64': (-2**63, 2**63 - 1),
             'i128': (-2**127, 2**127 - 1), 'char': (0, 0x10FFFF), 'bool': (0, 1)}

BINOPS = {'Eq', 'Ne', 'Lt', 'Le', 'Gt', 'Ge', 'Add', 'Sub', 'Mul', 'Div', 'Rem', 'BitAnd', 'BitOr', 'BitXor', 'Shl',
          'Shr', 'AddWithOverflow', 'SubWithOverflow', 'MulWithOverflow', 'AddUnchecked', 'SubUnchecked',
          'MulUnchecked', 'Offset', 'Cmp', 'ShlUnchecked', 'ShrUnchecked'}
UNOPS = {'Not', 'Neg', 'PtrMetadata'}


@functools.lru_cache(maxsize=None)
def parse_place(t):
    """-> (base_local:int, projs: tuple) ; proj = ('deref',) | ('field', k, ty) | ('variant', name) |
    ('index', local) | ('cindex', k, from_end) | ('subslice', a, b, from_end)"""
    t = t.strip()
    base, proj, i = _pp(t, 0)
    if i != len(t): raise ValueError('place trailing: %r at %d' % (t, i))
    return base, tuple(proj)


def _pp(t, i):
    if t[i] == '_':
        m = re.compile(r'_(\d+)').match(t, i); base = int(m.group(1)); i = m.end(); proj = []
    elif t[i] == '(':
        if t[i + 1] == '*':
            base, proj, i = _pp(t, i + 2); proj = proj + [('deref',)]
            if t[i] != ')': raise ValueError('place deref: ' + t)
            i += 1
        else:
            base, proj, i = _pp(t, i + 1)
            if t.startswith(' as ', i):
                j = t.index(')', i); proj = proj + [('variant', t[i + 4:j])]; i = j + 1
            elif t[i] == '.':
                m = re.compile(r'\.(\d+): ').match(t, i); k = int(m.group(1)); i = m.end()
                st = i; depth = 0
                while True:
                    c = t[i]
                    if c in '([{': depth += 1
                    elif c in ')]}':
                        if depth == 0: break
                        depth -= 1
                    i += 1
                proj = proj + [('field', k, t[st:i])]; i += 1
            else: raise ValueError('place: ' + t)
    else: raise ValueError('place: ' + t)
    while i < len(t) and t[i] == '[':
        j = t.index(']', i); inner = t[i + 1:j]
        m = re.fullmatch(r'_(\d+)', inner)
        if m: proj = proj + [('index', int(m.group(1)))]
        else:
            m = re.fullmatch(r'(-?)(\d+) of (\d+)', inner)
            if m: proj = proj + [('cindex', int(m.group(2)), bool(m.group(1)))]
            else:
                m = re.fullmatch(r'(\d+):(-?)(\d*)', inner)
                if not m: raise ValueError('place index: ' + t)
                proj = proj + [('subslice', int(m.group(1)), int(m.group(3) or 0), bool(m.group(2)))]
        i = j + 1
    return base, proj, i


@functools.lru_cache(maxsize=None)
def parse_operand(t):
    t = t.strip()
    if t.startswith('copy '): return ('copy', parse_place(t[5:]))
    if t.startswith('move '): return ('move', parse_place(t[5:]))
    if t.startswith('const '): return ('const', t[6:].strip())
    # bare function path used as operand (fn item)
    return ('const', t)


_CAST_RE = re.compile(r'^(.*) as (.*) \((IntToInt|Transmute|PtrToPtr|PointerCoercion\(.*\)|FnPtrToPtr|IntToFloat|FloatToInt|FloatToFloat|PointerExposeProvenance|PointerWithExposedProvenance)\)$')


@functools.lru_cache(maxsize=None)
def parse_rvalue(t):
    t = t.strip()
    if t.startswith('no_retag '): t = t[9:]
    m = re.match(r'(\w+)\(', t)
    if m and t.endswith(')') and match_close(t, m.end() - 1) == len(t) - 1:
        op = m.group(1); inner = t[m.end():-1]
        if op in BINOPS:
            a, b = scan_top(inner); return ('bin', op, parse_operand(a), parse_operand(b))
        if op in UNOPS: return ('un', op, parse_operand(inner))
        if op == 'discriminant': return ('discr', parse_place(inner))
        if op == 'Len': return ('len', parse_place(inner))
        if op == 'CopyForDeref': return ('use', ('copy', parse_place(inner)))
    if t.startswith('deref_copy '): return ('use', ('copy', parse_place(t[11:])))
    if t.startswith('&'):
        pl = re.sub(r'^&(mut |raw const |raw mut |fake shallow |fake )?', '', t)
        return ('ref', parse_place(pl), t.startswith('&mut') or t.startswith('&raw mut'))
    if t.startswith(('copy ', 'move ', 'const ')):
        cm = _CAST_RE.match(t)
        if cm: return ('cast', parse_operand(cm.group(1)), cm.group(2), cm.group(3))
        return ('use', parse_operand(t))
    if t.startswith('['):
        inner = t[1:-1]
        parts = scan_top(inner, ';')
        if len(parts) == 2 and match_close(t, 0) == len(t) - 1:
            return ('repeat', parse_operand(parts[0]), parts[1])
        return ('array', tuple(parse_operand(x) for x in scan_top(inner)))
    if t.startswith('(') and match_close(t, 0) == len(t) - 1:
        return ('tuple', tuple(parse_operand(x) for x in scan_top(t[1:-1])))
    if t.startswith('{closure@') or t.startswith('{coroutine@'):
        j = match_close(t, 0); ty = t[:j + 1]; rest = t[j + 1:].strip()
        fields = []
        if rest.startswith('{'):
            for fa in scan_top(rest[1:-1].strip()):
                k, v = fa.split(': ', 1); fields.append((k.strip(), parse_operand(v)))
        return ('closure', ty, tuple(fields))
    # ADT aggregate: Path::Variant(args) | Path { f: v } | Path::Variant | Path::Variant { f: v }
    if t.endswith(')'):
        # find top-level '(' that closes at the end
        i = _last_group_start(t)
        if i is not None:
            path = t[:i]; args = tuple(parse_operand(x) for x in scan_top(t[i + 1:-1]))
            return ('adt', path, args, None)
    if t.endswith('}'):
        i = _last_group_start(t, '{')
        if i is not None:
            path = t[:i].strip(); body = t[i + 1:-1].strip()
            named = []
            for fa in scan_top(body):
                k, v = fa.split(': ', 1); named.append((k.strip(), parse_operand(v)))
            return ('adt', path, None, tuple(named))
    if re.fullmatch(r'[\w:<>, \'&\[\];()*]+', t):
        return ('adt', t, (), None)
    raise ValueError('rvalue: ' + t)


def _last_group_start(t, open_c='('):
    """index of the top-level open bracket whose group ends at the end of t (angle-bracket aware)"""
    depth = 0; i = 0; n = len(t); cand = None
    while i < n:
        c = t[i]
        if c == '"':
            j = i + 1
            while j < n and t[j] != '"':
                if t[j] == '\\': j += 1
                j += 1
            i = j + 1; continue
        if c == "'":
            m = _CHAR_RE.match(t, i)
            if m: i = m.end(); continue
        if c in '([{<':
            if depth == 0 and c == open_c: cand = i
            depth += 1
        elif c in ')]}':
            depth -= 1
        elif c == '>':
            if not (i > 0 and t[i - 1] in '-='): depth -= 1
        i += 1
    if cand is not None and match_close(t, cand) == n - 1: return cand
    return None


def parse_targets(t):
    """'[return: bb1, unwind: bb2]' / 'bb3' / 'unwind continue' -> dict"""
    d = {}
    t = t.strip()
    if t.startswith('['):
        for part in scan_top(t[1:-1]):
            if ': ' in part:
                k, v = part.split(': ', 1); d[k.strip()] = v.strip()
            else:
                d[part.split(' ')[0]] = part
    elif t.startswith('bb'): d['return'] = t
    else: d['unwind'] = t
    return d


def bbnum(s):
    m = re.fullmatch(r'bb(\d+)', s.strip())
    return int(m.group(1)) if m else None


def parse_terminator(t):
    t = t.strip()
    if t.startswith('goto -> '): return ('goto', bbnum(t[8:]))
    if t == 'return': return ('return',)
    if t == 'resume' or t.startswith('unreachable') or t.startswith('terminate') or t == 'abort': return ('dead', t)
    if t.startswith('switchInt('):
        j = match_close(t, len('switchInt'))
        op = parse_operand(t[len('switchInt('):j]); rest = t[j + 1:].strip()
        assert rest.startswith('-> ['), t
        arms = []; other = None
        for part in scan_top(rest[4:-1]):
            k, v = part.split(': ')
            if k == 'otherwise': other = bbnum(v)
            else: arms.append((int(k), bbnum(v)))
        return ('switch', op, tuple(arms), other)
    if t.startswith('drop('):
        j = match_close(t, 4); tg = parse_targets(t[j + 1:].strip()[3:])
        return ('drop', parse_place(t[5:j]), bbnum(tg['return']))
    if t.startswith('assert('):
        j = match_close(t, 6); inner = scan_top(t[7:j]); tg = parse_targets(t[j + 1:].strip()[3:])
        c = inner[0]; neg = c.startswith('!')
        return ('assert', parse_operand(c.lstrip('!')), neg, inner[1], tuple(parse_operand(x) for x in inner[2:]), bbnum(tg['success']))
    if t.startswith('falseEdge') or t.startswith('falseUnwind'):
        m = re.search(r'real: (bb\d+)', t) or re.search(r'-> \[?(bb\d+)', t)
        return ('goto', bbnum(m.group(1)))
    # call:  dest = callee(args) -> targets     (dest may be absent for tailcalls; not seen)
    k = t.rfind(' -> ')
    head, targ = t[:k], t[k + 4:]
    tg = parse_targets(targ)
    eq = _top_eq(head)
    dest = parse_place(head[:eq]) if eq is not None else None
    call = head[eq + 3:] if eq is not None else head
    i = _last_group_start(call)
    if i is None: raise ValueError('terminator: ' + t)
    callee = call[:i].strip(); args = tuple(parse_operand(x) for x in scan_top(call[i + 1:-1]))
    ret = bbnum(tg['return']) if 'return' in tg else None
    return ('call', dest, callee, args, ret)


def _top_eq(s):
    depth = 0
    for i, c in enumerate(s):
        if c in '([{': depth += 1
        elif c in ')]}': depth -= 1
        elif c == ' ' and depth == 0 and s.startswith(' = ', i): return i
    return None


_SKIP_STMT = re.compile(r'(StorageLive|StorageDead|nop|FakeRead|PlaceMention|AscribeUserType|Retag|Coverage|ConstEvalCounter|Deinit|BackwardIncompatibleDropHint)\b')


def parse_statement(t):
    m = _SKIP_STMT.match(t)
    if m:
        if m.group(1) == 'StorageDead':
            return ('dead', int(re.search(r'_(\d+)', t).group(1)))
        return None
    if t.startswith('discriminant('):
        j = match_close(t, len('discriminant')); pl = parse_place(t[len('discriminant('):j])
        return ('setdiscr', pl, int(t[j + 1:].strip()[2:]))
    if t.startswith('assume(') or t.startswith('Assume('):
        return ('assume', parse_operand(t[7:-1]))
    eq = _top_eq(t)
    if eq is None: raise ValueError('statement: ' + t)
    return ('assign', parse_place(t[:eq]), parse_rvalue(t[eq + 3:]))


FN_RE = re.compile(r'^(?:const )?fn (.+?)\((.*)\) -> (.+) \{$')
PROMOTED_RE = re.compile(r'^(?:const )?(\S.*?)::promoted\[(\d+)\]: (.*) = \{$')


class Mir:
    def __init__(s):
        s.fns = {}        # (crate, name) -> Fn
        s.allocs = {}     # (crate, id) -> dict(static=, bytes=[int|('ptr', id)])
        s.statics = {}    # (crate, name) -> alloc id
        s.closures = {}   # closure type string -> (crate, fn name)
        s.by_suffix = {}

    def lookup(s, crate, name):
        return s.fns.get((crate, name))


def parse_mir(text, crate, mir=None):
    mir = mir or Mir()
    lines = text.split('\n'); i = 0; n = len(lines)
    while i < n:
        ln = lines[i]
        m = FN_RE.match(ln); pm = None if m else PROMOTED_RE.match(ln)
        if m or pm:
            if m:
                name = m.group(1); ps = []
                for p in scan_top(m.group(2)):
                    q = re.match(r'_(\d+): (.*)$', p)
                    if q: ps.append((int(q.group(1)), q.group(2)))
                fn = Fn(name, crate, ps, m.group(3))
                for idx, ty in ps: fn.locals[idx] = ty
            else:
                name = '%s::promoted[%s]' % (pm.group(1), pm.group(2))
                fn = Fn(name, crate, [], pm.group(3))
            fn.locals[0] = fn.ret
            start = i; i += 1; cur = None; body = []
            while i < n and lines[i] != '}':
                l2 = lines[i].strip(); i += 1
                if not l2: continue
                bm = re.match(r'bb(\d+)( \(cleanup\))?: \{$', l2)
                if bm:
                    cur = int(bm.group(1)); body = []; fn.blocks[cur] = [body, None, bool(bm.group(2))]
                    continue
                if cur is None:
                    lm = re.match(r'let (mut )?_(\d+): (.*);$', l2)
                    if lm: fn.locals[int(lm.group(2))] = lm.group(3)
                    dm = re.match(r'debug (\w+) => _(\d+);$', l2)
                    if dm: fn.debug.setdefault(dm.group(1), int(dm.group(2)))
                    continue
                if l2 == '}':
                    fn.blocks[cur][1] = body.pop() if body else 'unreachable'; cur = None
                    continue
                while not l2.endswith(';') and i < n:
                    l2 += ' ' + lines[i].strip(); i += 1
                body.append(l2[:-1])
            fn.text_hash = hashlib.sha256('\n'.join(lines[start:i]).encode()).hexdigest()[:16]
            # pre-parse lazily: keep text, parse on first execution (see engine)
            if (crate, name) not in mir.fns:     # first definition wins (ctor shims are printed twice)
                mir.fns[(crate, name)] = fn
                if m and fn.params:
                    cm = re.match(r'&?(?:mut )?(\{closure@.*\})$', fn.params[0][1])
                    if cm and '{closure#' in name: mir.closures[cm.group(1)] = (crate, name)
            i += 1; continue
        am = re.match(r'^alloc(\d+) \((?:static: ([^,]+), )?size: (\d+), align: \d+\) \{$', ln)
        if am:
            aid = int(am.group(1)); data = []; i += 1
            while i < n and lines[i] != '}':
                row = re.sub(r'^\s*0x[0-9a-f]+\s*│', '', lines[i]); i += 1
                row = row.split('│')[0]
                for tok in re.findall(r'╾─*alloc\d+[^╼]*╼|__|[0-9a-f]{2}', row):
                    if tok.startswith('╾'):
                        data.append(('ptr', int(re.search(r'alloc(\d+)', tok).group(1))))
                    elif tok == '__': data.append(None)
                    else: data.append(int(tok, 16))
            mir.allocs.setdefault((crate, aid), dict(static=am.group(2), data=data))
            if am.group(2): mir.statics[(crate, am.group(2))] = aid
            i += 1; continue
        i += 1
    return mir


def ensure_parsed(fn):
    """pre-parse the statements/terminators of a function in place (idempotent)."""
    if fn.cfg is not None: return
    for b, blk in fn.blocks.items():
        if blk[2]: continue
        stmts = []
        for t in blk[0]:
            st = parse_statement(t)
            if st is not None: stmts.append(st)
        blk[0] = stmts; blk[1] = parse_terminator(blk[1])
    for b, blk in fn.blocks.items():
        t = blk[1]
        if not blk[2] and isinstance(t, tuple) and t[0] == 'call' and t[4] is not None and t[4] in fn.blocks and fn.blocks[t[4]][2]:
            blk[1] = (t[0], t[1], t[2], t[3], None)          # `-> bbN` with bbN a cleanup block: the call diverges, bbN is its unwind target
    fn.cfg = True


# ----------------------------------------------------------------------------- source scan
class Types:
    def __init__(s):
        s.structs = {}    # full path (crate-relative, e.g. 'types::instruction::Instruction') -> [field names]
        s.enums = {}      # full path -> [variant names]
        s.variant_fields = {}   # (enum path, variant) -> [field names] for struct-like variants
        s.impls = {}      # (file, line, col) -> (trait or None, type path)
        s.by_last = {}    # last segment -> [full paths]


def module_path(root, path):
    rel = os.path.relpath(path, root)[:-3]
    parts = rel.split(os.sep)
    if parts[-1] in ('mod', 'lib', 'main'): parts = parts[:-1]
    return '::'.join(parts)


def _strip_comments(src):
    src = re.sub(r'//[^\n]*', lambda m: ' ' * len(m.group(0)), src)
    return src


def scan_sources(crate_dir, src_prefix, types=None):
    """crate_dir: e.g. /scratch/duckscript ; src_prefix: the path rustc prints, e.g. 'duckscript/src'."""
    types = types or Types()
    root = os.path.join(crate_dir, 'src')
    for dp, dn, fnames in os.walk(root):
        for f in fnames:
            if not f.endswith('.rs') or f.endswith('_test.rs'): continue
            path = os.path.join(dp, f)
            raw = open(path, encoding='utf-8').read()
            mod = module_path(root, path)
            rel = src_prefix + '/' + os.path.relpath(path, root)
            _scan_file(raw, mod, rel, types)
    return types


def _scan_file(raw, mod, rel, types):
    src = _strip_comments(raw)
    def full(name): return (mod + '::' + name) if mod else name
    # nested items inside fn bodies (e.g. struct CallFunctionCommand inside FunctionCommand::run) get the
    # path of the enclosing fn in MIR; we register them under their last segment as a fallback.
    for m in re.finditer(r'\bstruct\s+(\w+)\s*(<[^>{(;]*>)?\s*(\{|\(|;)', src):
        name = m.group(1); fields = []
        if m.group(3) == '{':
            j = _match(src, m.end() - 1); body = src[m.end():j]
            for fm in re.finditer(r'(?:pub(?:\([^)]*\))?\s+)?(\w+)\s*:', _top_level(body)):
                fields.append(fm.group(1))
        elif m.group(3) == '(':
            j = _match(src, m.end() - 1); fields = ['%d' % k for k in range(len(scan_top(src[m.end():j])))]
        types.structs[full(name)] = fields
        types.by_last.setdefault(name, []).append(full(name))
    for m in re.finditer(r'\benum\s+(\w+)\s*(<[^>{]*>)?\s*\{', src):
        name = m.group(1); j = _match(src, m.end() - 1); body = src[m.end():j]
        variants = []
        for part in scan_top(re.sub(r'#\[[^\]]*\]', '', body)):
            vm = re.match(r'(\w+)', part.strip())
            if vm:
                variants.append(vm.group(1))
                rest = part.strip()[len(vm.group(1)):].strip()
                if rest.startswith('{'):
                    types.variant_fields[(full(name), vm.group(1))] = [fm.group(1) for fm in re.finditer(r'(\w+)\s*:', _top_level(rest[1:-1]))]
        types.enums[full(name)] = variants
        types.by_last.setdefault(name, []).append(full(name))
    # impl headers and derives, keyed by (file, line, col) of the rustc span start
    line_starts = [0]
    for k, c in enumerate(raw):
        if c == '\n': line_starts.append(k + 1)
    def pos(off):
        import bisect
        li = bisect.bisect_right(line_starts, off) - 1
        return li + 1, off - line_starts[li] + 1
    for m in re.finditer(r'\bimpl\b\s*(<[^>]*>)?\s*([^{;]+?)\s*\{', src):
        head = m.group(2).strip()
        tm = re.match(r'(.+?)\s+for\s+(.+)$', head)
        trait, ty = (tm.group(1).strip(), tm.group(2).strip()) if tm else (None, head)
        ty = re.sub(r'\s+where\b.*$', '', ty)
        l, c = pos(m.start())
        types.impls[(rel, l, c)] = (trait, ty, mod)
    for m in re.finditer(r'#\[derive\(([^)]*)\)\]', src):
        # the type that follows
        tm = re.compile(r'\s*(?:#\[[^\]]*\]\s*)*(?:pub(?:\([^)]*\))?\s+)?(?:struct|enum)\s+(\w+)').match(src, m.end())
        if not tm: continue
        base = m.start(1)
        for dm in re.finditer(r'\w+', m.group(1)):
            l, c = pos(base + dm.start())
            types.impls[(rel, l, c)] = (dm.group(0), tm.group(1), mod)


def _match(s, i):
    depth = 0; o = s[i]; cl = {'{': '}', '(': ')', '[': ']'}[o]
    while i < len(s):
        if s[i] == o: depth += 1
        elif s[i] == cl:
            depth -= 1
            if depth == 0: return i
        i += 1
    raise ValueError('unbalanced source')


def _top_level(body):
    """blank out nested bracket groups so that only top-level 'name:' pairs remain"""
    out = []; depth = 0
    for c in body:
        if c in '([{<': depth += 1; out.append(' ')
        elif c in ')]}>': depth -= 1; out.append(' ')
        else: out.append(c if depth == 0 else ' ')
    return ''.join(out)
