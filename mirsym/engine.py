"""Bounded symbolic executor with state merging for rustc MIR (see DESIGN.md section 2)."""
import re, sys, itertools, time
import z3
from .values import *
from . import mirparse as mp
from .mirparse import INT_TYPES, ensure_parsed

sys.setrecursionlimit(20000)

WRAPPERS = ('std::mem::ManuallyDrop<', 'std::mem::MaybeDangling<', 'std::mem::MaybeUninit<', 'core::mem::ManuallyDrop<',
            'core::mem::MaybeUninit<')
BUILTIN_ENUMS = {
    'std::option::Option': ['None', 'Some'], 'std::result::Result': ['Ok', 'Err'],
    'std::ops::ControlFlow': ['Continue', 'Break'], 'std::borrow::Cow': ['Borrowed', 'Owned'],
    'std::cmp::Ordering': ['Less', 'Equal', 'Greater'], 'std::convert::Infallible': [],
    'std::sync::atomic::Ordering': ['Relaxed', 'Release', 'Acquire', 'AcqRel', 'SeqCst'],
}
for k in list(BUILTIN_ENUMS): BUILTIN_ENUMS[k.replace('std::', 'core::', 1)] = BUILTIN_ENUMS[k]
OPTION = 'std::option::Option'; RESULT = 'std::result::Result'


def some(v): return E(OPTION, 1, {0: [], 1: [v]})
def none(): return E(OPTION, 0, {0: []})
def ok(v): return E(RESULT, 0, {0: [v]})
def err(v): return E(RESULT, 1, {1: [v]})
def opt(c, v): return E(OPTION, zite(c, 1, 0), {0: [], 1: [v]})


def strip_generics(s):
    """remove every <...> group except a leading qualified-self group"""
    out = []; depth = 0; i = 0; n = len(s); lead = s.startswith('<')
    while i < n:
        c = s[i]
        if c == '<':
            if lead and i == 0:
                j = _angle_close(s, 0); out.append('<' + strip_generics_inner(s[1:j]) + '>'); i = j + 1; continue
            j = _angle_close(s, i)
            if out and out[-1] == '::': out.pop()
            i = j + 1; continue
        if c == ':' and s.startswith('::', i): out.append('::'); i += 2; continue
        out.append(c); i += 1
    return ''.join(out)


def strip_generics_inner(s):
    parts = split_as(s)
    return ' as '.join(strip_generics(p) if not p.startswith('<') else strip_generics(p) for p in parts)


def split_as(s):
    depth = 0
    for i, c in enumerate(s):
        if c in '<([{': depth += 1
        elif c in ')]}': depth -= 1
        elif c == '>' and not (i > 0 and s[i - 1] in '-='): depth -= 1
        elif depth == 0 and s.startswith(' as ', i): return [s[:i], s[i + 4:]]
    return [s]


def _angle_close(s, i):
    depth = 0; n = len(s)
    while i < n:
        c = s[i]
        if c in '<([{': depth += 1
        elif c in ')]}': depth -= 1
        elif c == '>':
            if not (i > 0 and s[i - 1] in '-='):
                depth -= 1
        if depth == 0: return i
        i += 1
    raise ValueError('angle: ' + s)


class State:
    __slots__ = ('g', 'm')

    def __init__(s, g, m): s.g = g; s.m = m
    def copy(s, g=None): return State(s.g if g is None else g, dict(s.m))


NAMER = None


def merge_states(a, b):
    if a is None: return b
    if b is None: return a
    if a.g is False: return b
    if b.g is False: return a
    m = {}
    am, bm = a.m, b.m
    for k, x in am.items():
        y = bm.get(k)
        m[k] = x if (y is x or y is None) else merge(a.g, x, y)
    for k, y in bm.items():
        if k not in am: m[k] = y
    g = zor(a.g, b.g)
    if NAMER is not None: g = NAMER(g)
    return State(g, m)


class Obligation:
    __slots__ = ('guard', 'cond', 'msg', 'kind', 'where')

    def __init__(s, guard, cond, msg, kind, where=''): s.guard = guard; s.cond = cond; s.msg = msg; s.kind = kind; s.where = where


class Engine:
    def __init__(s, mir, types, models, unwind=12, max_rec=6, int_digits=20):
        s.mir = mir; s.types = types; s.models = models
        s.unwind = unwind; s.unwind_for = {}; s.max_rec = max_rec; s.int_digits = int_digits
        s.obligations = []; s.assumptions = []
        s.fid = itertools.count(1); s.heap = itertools.count(1); s.fresh = itertools.count(1)
        s.stats = dict(blocks=0, calls=0, solver_checks=0, merges=0, model_calls=0)
        s.solver = z3.Solver(); s.solver.set('timeout', 20000)
        s.stack = []            # names of functions being executed
        s.encoded = {}          # (crate, fn name) -> text hash, for evidence
        s.model_used = set()
        s.hooks = {}            # callee regex/text -> python override supplied by a harness
        s.dyn_impls = {}        # (type tag, method) -> python callable (harness command models)
        s.cfg_cache = {}
        s._method_index = None
        s._resolve_cache = {}
        s._promoted = {}
        s.split_by_steps = set()    # fn names of split loops whose states also stay apart per number of iterations done
        s.split_loops = {}          # fn name -> debug name of a local: interpreter loops (fetch / execute over a line counter) are explored per
                                    # concrete value of that local instead of merging all arrivals at the loop header (states at the same value merge)
        s.loop_entry_hooks = {}     # fn name -> callback(engine, fn, info, L, state, fid) at the first arrival at a loop header
        s.trace = False
        s.cur_fn = None
        global NAMER
        NAMER = s.name

    # ------------------------------------------------------------------ solver helpers
    def feasible(s, g):
        if g is True: return True
        if g is False: return False
        g2 = z3.simplify(g)
        if z3.is_true(g2): return True
        if z3.is_false(g2): return False
        s.stats['solver_checks'] += 1
        lit = s.name(g2)
        if lit is True or lit is False: return lit
        r = s.solver.check(lit)
        if r == z3.unknown: s.stats['solver_unknown'] = s.stats.get('solver_unknown', 0) + 1
        return r != z3.unsat

    def name(s, g):
        """replace a compound guard by a fresh literal defined once in the persistent solver"""
        if g is True or g is False: return g
        if z3.is_const(g) or (z3.is_not(g) and z3.is_const(g.arg(0))): return g
        g2 = z3.simplify(g)
        if z3.is_true(g2): return True
        if z3.is_false(g2): return False
        if z3.is_const(g2) or (z3.is_not(g2) and z3.is_const(g2.arg(0))): return g2
        lit = z3.Bool('g!%d' % next(s.fresh))
        d = (lit == g2)
        s.assumptions.append(d); s.solver.add(d); s.stats['guards_named'] = s.stats.get('guards_named', 0) + 1
        return lit

    def assume(s, c):
        if c is True: return
        s.assumptions.append(c); s.solver.add(c)

    def oblige(s, st, cond, msg, kind='panic'):
        """record proof obligation guard => cond and continue under cond"""
        if cond is True: return
        where = s.stack[-1] if s.stack else ''
        s.obligations.append(Obligation(st.g, cond, msg, kind, where))
        st.g = s.name(zand(st.g, cond))

    def fresh_int(s, name, lo=None, hi=None, st=None):
        v = z3.Int('%s!%d' % (name, next(s.fresh)))
        if lo is not None: s.assume(v >= lo)
        if hi is not None: s.assume(v <= hi)
        if lo is not None and hi is not None and isinstance(lo, int) and isinstance(hi, int): VAR_BOUNDS[v.get_id()] = (v, lo, hi)
        return v

    def fresh_bool(s, name): return z3.Bool('%s!%d' % (name, next(s.fresh)))

    def fresh_str(s, name, cap):
        n = next(s.fresh)
        ln = z3.Int('%s!%d.len' % (name, n)); s.assume(z3.And(ln >= 0, ln <= cap)); VAR_BOUNDS[ln.get_id()] = (ln, 0, cap)
        ch = []
        for i in range(cap):
            c = z3.Int('%s!%d.c%d' % (name, n, i)); ch.append(c)
            s.assume(z3.And(c >= 0, c <= 0x10FFFF, z3.Or(c < 0xD800, c > 0xDFFF)))
        return S(ln, ch)

    def alloc(s, st, v):
        n = next(s.heap); st.m[('h', n)] = v
        return P('h', n)

    # ------------------------------------------------------------------ types
    def norm_type(s, crate, t):
        t = t.strip()
        while True:
            if t.startswith('&'): t = t[1:].lstrip()
            elif t.startswith('mut '): t = t[4:]
            elif t.startswith("'") and ' ' in t: t = t.split(' ', 1)[1]
            else: break
        t = strip_generics(t)
        if t.startswith('duckscript::'): t = t[len('duckscript::'):]
        if t.startswith('core::'): t = 'std::' + t[6:]
        return t

    def enum_variants(s, ty):
        v = BUILTIN_ENUMS.get(ty)
        if v is not None: return v
        v = s.types.enums.get(ty)
        if v is not None: return v
        last = ty.split('::')[-1]
        cands = [p for p in s.types.by_last.get(last, []) if p in s.types.enums]
        if len(cands) == 1: return s.types.enums[cands[0]]
        return None

    def struct_fields(s, ty):
        f = s.types.structs.get(ty)
        if f is not None: return f
        last = ty.split('::')[-1]
        cands = [p for p in s.types.by_last.get(last, []) if p in s.types.structs]
        if len(cands) == 1: return s.types.structs[cands[0]]
        return None

    def variant_index(s, ev, name):
        vs = s.enum_variants(ev.ty)
        if vs is None: raise Abort('unknown enum type %r for variant %s' % (ev.ty, name))
        return vs.index(name)

    # ------------------------------------------------------------------ places
    def _deref_ty(s, ty):
        if ty is None: return None
        ty = ty.strip()
        for p in ('&mut ', '&', '*const ', '*mut '):
            if ty.startswith(p):
                ty = ty[len(p):].lstrip()
                if ty.startswith("'"): ty = ty.split(' ', 1)[1] if ' ' in ty else ty
                if ty.startswith('mut '): ty = ty[4:]
                return ty
        m = re.match(r'std::boxed::Box<(.*)>$', ty)
        if m: return mp.scan_top(m.group(1))[0]
        return None

    def ptr_place(s, v):
        if isinstance(v, P): return ('mem', v.fid, v.loc, list(v.proj))
        if isinstance(v, PV): return ('val', v.v)
        if isinstance(v, (S, V, M)): return ('val', v)
        if isinstance(v, U): return ('u', [(c, s.ptr_place(x)) for c, x in v.alts])
        if isinstance(v, T) and len(v.f) >= 1 and isinstance(v.f[0], (P, PV, U)): return s.ptr_place(v.f[0])
        if v is POISON or v is None: return ('val', POISON)
        raise Abort('deref of non-pointer %r' % (v,))

    def resolve(s, st, fn, fid, place):
        base, projs = place
        cur = ('mem', fid, base, [])
        if not projs: return cur
        ty = fn.locals.get(base) if fn is not None else None
        for pr in projs:
            k = pr[0]
            if k == 'deref':
                cur = s.ptr_place(s.read(st, cur)); ty = s._deref_ty(ty)
            elif k == 'field':
                transparent = pr[2].startswith(WRAPPERS) or (ty is not None and ty.startswith(WRAPPERS))
                if not transparent: cur = s.extend(st, cur, ('f', pr[1]))
                ty = pr[2]
            elif k == 'variant':
                name = pr[1]
                cur = s.extend(st, cur, ('v', name)); ty = None
            elif k == 'index':
                cur = s.extend(st, cur, ('i', st.m.get((fid, pr[1])))); ty = None
            elif k == 'cindex':
                if pr[2]: raise Abort('from-end constant index')
                cur = s.extend(st, cur, ('i', pr[1])); ty = None
            else: raise Abort('projection ' + repr(pr))
        return cur

    def extend(s, st, cur, pr):
        if cur[0] == 'mem':
            if pr[0] == 'v':   # resolve the variant name to its index now
                ev = s.read(st, cur)
                if isinstance(ev, E): pr = ('v', s.variant_index(ev, pr[1]))
                elif ev is POISON or ev is None: return ('val', POISON)
                elif isinstance(ev, U):
                    return ('u', [(c, s.extend(st, ('val', x), pr)) for c, x in ev.alts])
                else: raise Abort('variant projection on %r' % (ev,))
            return ('mem', cur[1], cur[2], cur[3] + [pr])
        if cur[0] == 'val': return ('val', s.proj_read(cur[1], pr))
        return ('u', [(c, s.extend(st, p, pr)) for c, p in cur[1]])

    def read(s, st, pl):
        if pl[0] == 'mem':
            v = st.m.get((pl[1], pl[2]))
            for pr in pl[3]: v = s.proj_read(v, pr)
            return v
        if pl[0] == 'val': return pl[1]
        r = None
        for c, p in reversed(pl[1]):
            x = s.read(st, p)
            r = x if r is None else merge(c, x, r)
        return r

    def proj_read(s, v, pr):
        if v is None or v is POISON: return POISON
        if isinstance(v, U): return umap(v, lambda x: s.proj_read(x, pr))
        k = pr[0]
        if k == 'f':
            if isinstance(v, T):
                if pr[1] >= len(v.f): raise Abort('field %d of %r' % (pr[1], v))
                return v.f[pr[1]]
            if isinstance(v, (P, PV)): return v          # Box / Unique / NonNull / Rc internals
            if isinstance(v, Opaque): return v
            raise Abort('field %r of %r' % (pr[1], v))
        if k == 'v':
            if not isinstance(v, E): raise Abort('variant of %r' % (v,))
            idx = pr[1] if isinstance(pr[1], int) else s.variant_index(v, pr[1])
            if idx not in v.p: return POISON
            return T(v.p[idx])
        if k == 'i':
            items = v.it if isinstance(v, V) else v.ch if isinstance(v, S) else None
            if items is None: raise Abort('index of %r' % (v,))
            return sel(items, pr[1], POISON)
        if k == 'm':
            return v.ents[pr[1]][2]
        raise Abort('proj ' + repr(pr))

    def write(s, st, pl, val):
        if pl[0] == 'mem':
            key = (pl[1], pl[2])
            st.m[key] = s.proj_write(st.m.get(key), pl[3], val) if pl[3] else val
        elif pl[0] == 'u':
            for c, p in pl[1]:
                if p[0] == 'val': continue
                s.write(st, p, merge(c, val, s.read(st, p)))
        else:
            raise Abort('write to an immutable value place')

    def proj_write(s, old, proj, val):
        if not proj: return val
        pr = proj[0]; k = pr[0]
        if isinstance(old, U):
            return umap(old, lambda x: s.proj_write(x, proj, val))
        if k == 'f':
            if old is None or old is POISON:
                f = [None] * (pr[1] + 1); ty = None
            elif isinstance(old, T): f = list(old.f); ty = old.ty
            else: raise Abort('field write into %r' % (old,))
            while len(f) <= pr[1]: f.append(None)
            f[pr[1]] = s.proj_write(f[pr[1]], proj[1:], val); return T(f, ty)
        if k == 'v':
            idx = pr[1] if isinstance(pr[1], int) else s.variant_index(old, pr[1])
            p = dict(old.p); p[idx] = s.proj_write(T(p.get(idx, [])), proj[1:], val).f; return E(old.ty, old.d, p)
        if k == 'i':
            i = pr[1]; isv = isinstance(old, V); items = list(old.it if isv else old.ch)
            if not is_sym(i):
                if i < len(items): items[i] = s.proj_write(items[i], proj[1:], val)
            else:
                for j in range(len(items)): items[j] = merge(i == j, s.proj_write(items[j], proj[1:], val), items[j])
            return V(old.len, items) if isv else S(old.len, items)
        if k == 'm':
            ents = list(old.ents); p, kk, vv = ents[pr[1]]; ents[pr[1]] = (p, kk, s.proj_write(vv, proj[1:], val)); return M(ents)
        raise Abort('write proj ' + repr(pr))

    def make_ref(s, st, pl):
        if pl[0] == 'mem': return P(pl[1], pl[2], pl[3])
        if pl[0] == 'val':
            v = pl[1]
            return v if isinstance(v, (S, V)) else PV(v)
        alts = [(c, s.make_ref(st, p)) for c, p in pl[1]]
        r = None
        for c, x in reversed(alts): r = x if r is None else merge(c, x, r)
        return r

    def deref(s, st, p):
        """value behind a pointer-like value"""
        return s.read(st, s.ptr_place(p))

    def store(s, st, p, v):
        s.write(st, s.ptr_place(p), v)

    # ------------------------------------------------------------------ operands / rvalues
    def operand(s, st, fn, fid, op):
        k = op[0]
        if k == 'const': return s.const(fn, op[1])
        base, projs = op[1]
        if not projs:
            v = st.m.get((fid, base))
            return POISON if v is None else v
        v = s.read(st, s.resolve(st, fn, fid, op[1]))
        return POISON if v is None else v

    _INT_RE = re.compile(r'(-?\d+)_(usize|isize|u8|u16|u32|u64|i8|i16|i32|i64|u128|i128)$')
    KNOWN_CONSTS = {'u8::MAX': 255, 'usize::MAX': USIZE_MAX, 'u32::MAX': 2**32 - 1, 'i32::MAX': 2**31 - 1, 'i64::MAX': 2**63 - 1,
                    'u64::MAX': 2**64 - 1, 'isize::MAX': 2**63 - 1, 'i32::MIN': -2**31, 'i64::MIN': -2**63, 'isize::MIN': -2**63}

    def const(s, fn, t):
        if t == 'true': return True
        if t == 'false': return False
        m = s._INT_RE.match(t)
        if m: return int(m.group(1))
        c0 = t[0]
        if c0 == "'": return ord(mp.unescape(t[1:-1]))
        if c0 == '"': return mk_str(mp.unescape(t[1:-1]))
        if t.startswith('b"'):
            b = mp.unescape_bytes(t[2:-1]); return V(len(b), b)
        if t == '()': return UNIT
        if c0 == '{':
            m = re.match(r'\{alloc(\d+): (.*)\}$', t)
            if m: return s.static_ref(fn.crate, int(m.group(1)), m.group(2))
        if t in s.KNOWN_CONSTS: return s.KNOWN_CONSTS[t]
        if t.startswith('ZeroSized: '): t = t[len('ZeroSized: '):]
        if t.startswith('{closure@'): return T([], t)          # closure without captures
        if '::promoted[' in t:
            key = (fn.crate, t)
            if key not in s.mir.fns:       # references print the trait path, definitions the impl span: promoteds belong to the current fn
                key = (fn.crate, fn.name + t[t.rindex('::promoted['):])
            if key not in s._promoted:
                pf = s.mir.fns.get(key)
                if pf is None: raise Abort('promoted constant not in dump: ' + t)
                stack, s.stack = s.stack, []
                try: rs, rv = s.call_fn(pf, State(True, {}), [])
                finally: s.stack = stack
                s._promoted[key] = rv
            return s._promoted[key]
        m = re.match(r'(.*) \{\{\s*\}\}$', t)
        if m: return T([], s.norm_type(fn.crate, m.group(1)))
        if t.startswith('std::ops::RangeFull'): return T([], 'std::ops::RangeFull')
        if re.match(r'std::marker::PhantomData', t) or t.startswith('std::alloc::Global'): return UNIT
        if re.match(r'[<\w]', t) and ' ' not in strip_generics(t).replace(' as ', '_as_'):
            return FnItem(t)
        if re.match(r'<.* as .*>::\w+', t): return FnItem(t)
        return Opaque('const', t)

    def static_ref(s, crate, aid, ty):
        a = s.mir.allocs.get((crate, aid))
        if a is None: raise Abort('unknown alloc%d' % aid)
        d = a['data']
        if ty == '&&str':
            ptr = d[0]; ln = int.from_bytes(bytes(d[1:9]), 'little')
            b = s.mir.allocs[(crate, ptr[1])]['data'] if ln else []
            return PV(mk_str(bytes(b[:ln]).decode('utf-8')))
        if ty == '&char': return PV(int.from_bytes(bytes(d[:4]), 'little'))
        if ty in ('&usize', '&u64', '&u32', '&u8', '&bool'):
            return PV(int.from_bytes(bytes(x or 0 for x in d), 'little'))
        return PV(Opaque('static', (crate, aid, ty)))

    def int_type_of(s, fn, op):
        """declared integer type of an operand when it is a plain local or a typed constant"""
        if op[0] == 'const':
            m = s._INT_RE.match(op[1])
            if m: return m.group(2)
            if op[1][0] == "'": return 'char'
            if op[1] in ('true', 'false'): return 'bool'
            return None
        base, projs = op[1]
        if not projs: return fn.locals.get(base)
        last = projs[-1]
        if last[0] == 'field': return last[2]
        return None

    def rvalue(s, st, fn, fid, rv, dest):
        k = rv[0]
        if k == 'use': return s.operand(st, fn, fid, rv[1])
        if k == 'ref':
            return s.make_ref(st, s.resolve(st, fn, fid, rv[1]))
        if k == 'adt': return s.aggregate(st, fn, fid, rv)
        if k == 'discr':
            v = s.read(st, s.resolve(st, fn, fid, rv[1]))
            if isinstance(v, U): return umap(v, lambda x: x.d)
            if v is POISON or v is None: return POISON
            if not isinstance(v, E): raise Abort('discriminant of %r' % (v,))
            if v.ty == 'std::cmp::Ordering': return v.d - 1 if not is_sym(v.d) else v.d - 1
            return v.d
        if k == 'cast': return s.cast(st, fn, fid, rv)
        if k == 'bin':
            a = s.operand(st, fn, fid, rv[2]); b = s.operand(st, fn, fid, rv[3])
            ty = s.int_type_of(fn, rv[2]) or s.int_type_of(fn, rv[3])
            return s.binop(st, rv[1], a, b, ty)
        if k == 'un':
            a = s.operand(st, fn, fid, rv[2])
            if rv[1] == 'Not':
                if is_bool(a): return znot(a)
                raise Abort('bitwise Not on integer')
            if rv[1] == 'Neg': return -a
            if rv[1] == 'PtrMetadata':
                v = a if isinstance(a, (S, V)) else s.deref(st, a)
                if isinstance(v, U): return umap(v, lambda x: x.len)
                return v.len
        if k == 'len':
            v = s.read(st, s.resolve(st, fn, fid, rv[1])); return v.len
        if k == 'array':
            its = [s.operand(st, fn, fid, x) for x in rv[1]]; return V(len(its), its)
        if k == 'tuple': return T([s.operand(st, fn, fid, x) for x in rv[1]])
        if k == 'closure':
            return T([s.operand(st, fn, fid, v) for _, v in rv[2]], rv[1])
        if k == 'repeat':
            v = s.operand(st, fn, fid, rv[1]); n = s.const(fn, rv[2].replace('const ', ''))
            if not isinstance(n, int): raise Abort('repeat count')
            return V(n, [v] * n)
        raise Abort('rvalue ' + repr(rv))

    def aggregate(s, st, fn, fid, rv):
        _, path, pos, named = rv
        p = s.norm_type(fn.crate, path)
        if '::' in p:
            head, last = p.rsplit('::', 1)
            vs = s.enum_variants(head)
            if vs is not None and last in vs:
                vi = vs.index(last)
                if named is not None:
                    order = s.types.variant_fields.get((head, last)) or [k for k, _ in named]
                    vals = dict((k, s.operand(st, fn, fid, v)) for k, v in named)
                    args = [vals[k] for k in order]
                else: args = [s.operand(st, fn, fid, x) for x in pos]
                return E(head if head in BUILTIN_ENUMS or head in s.types.enums else head, vi, {vi: args})
        if named is not None:
            vals = dict((k, s.operand(st, fn, fid, v)) for k, v in named)
            fields = s.struct_fields(p)
            if fields is None: fields = [k for k, _ in named]      # a struct the source scan does not know (declared inside a function): MIR prints the fields in declaration order
            elif set(fields) != set(vals): fields = fields
            if p.startswith('std::ops::Range'): fields = [f for f in ('start', 'end') if f in vals]
            return T([vals[k] for k in fields], p)
        return T([s.operand(st, fn, fid, x) for x in pos], p)

    def cast(s, st, fn, fid, rv):
        _, op, ty, kind = rv
        v = s.operand(st, fn, fid, op)
        if kind == 'IntToInt':
            src = s.int_type_of(fn, op)
            return s.int_cast(v, src, ty)
        return v      # Transmute / PtrToPtr / PointerCoercion: identity in this value model

    def int_cast(s, v, src, dst):
        if isinstance(v, bool): v = 1 if v else 0
        elif is_sym(v) and z3.is_bool(v): v = z3.If(v, 1, 0)
        if dst not in INT_TYPES: return v
        lo, hi = INT_TYPES[dst]
        if src in INT_TYPES:
            slo, shi = INT_TYPES[src]
            if slo >= lo and shi <= hi: return v
        if not is_sym(v):
            m = hi - lo + 1; w = (v - lo) % m + lo; return w
        m = hi - lo + 1
        return (v - lo) % m + lo

    def binop(s, st, op, a, b, ty):
        if a is POISON or b is POISON: return POISON
        if isinstance(a, (Opaque, FnItem)) or isinstance(b, (Opaque, FnItem)): raise Abort('binop on opaque value')
        if op == 'Eq': return zeq(a, b)
        if op == 'Ne': return znot(zeq(a, b))
        if op == 'Lt': return a < b
        if op == 'Le': return a <= b
        if op == 'Gt': return a > b
        if op == 'Ge': return a >= b
        if op in ('AddWithOverflow', 'SubWithOverflow', 'MulWithOverflow'):
            lo, hi = INT_TYPES.get(ty, INT_TYPES['usize'])
            r = a + b if op[0] == 'A' else a - b if op[0] == 'S' else a * b
            ov = zor(r > hi, r < lo) if (is_sym(r)) else (r > hi or r < lo)
            return T([r, ov])
        if op in ('Add', 'Sub', 'Mul', 'AddUnchecked', 'SubUnchecked', 'MulUnchecked'):
            r = a + b if op[0] == 'A' else a - b if op[0] == 'S' else a * b
            if ty in INT_TYPES:
                lo, hi = INT_TYPES[ty]
                s.oblige(st, zand(r >= lo, r <= hi) if is_sym(r) else (lo <= r <= hi), 'unchecked arithmetic overflow (%s)' % op, 'panic')
            return r
        if op in ('BitAnd', 'BitOr', 'BitXor') and is_bool(a) and is_bool(b):
            if op == 'BitAnd': return zand(a, b)
            if op == 'BitOr': return zor(a, b)
            return znot(zeq(a, b))
        if op in ('Div', 'Rem'):
            if not is_sym(a) and not is_sym(b):
                q = abs(a) // abs(b) * (1 if (a >= 0) == (b >= 0) else -1)
                return q if op == 'Div' else a - q * b
            if not is_sym(b) and b > 0:
                # truncated division for possibly negative a
                q = z3.If(a >= 0, a / b, -((-a) / b))
                return q if op == 'Div' else a - q * b
            raise Abort('symbolic divisor')
        if op == 'Cmp':
            return E('std::cmp::Ordering', zite(a < b, 0, zite(zeq(a, b), 1, 2)), {0: [], 1: [], 2: []})
        if op in ('BitAnd', 'BitOr', 'BitXor', 'Shl', 'Shr') and not is_sym(a) and not is_sym(b):
            return {'BitAnd': a & b, 'BitOr': a | b, 'BitXor': a ^ b, 'Shl': a << b, 'Shr': a >> b}[op]
        raise Abort('binop ' + op)

    # ------------------------------------------------------------------ CFG analysis
    def cfg(s, fn):
        info = s.cfg_cache.get(id(fn))
        if info is not None: return info
        ensure_parsed(fn)
        succ = {}
        for b, (stm, term, cl) in fn.blocks.items():
            if cl: continue
            succ[b] = s.term_targets(term)
        reach = set(); stack = [0]
        while stack:
            x = stack.pop()
            if x in reach: continue
            reach.add(x); stack.extend(t for t in succ[x] if t in succ)
        nodes = sorted(reach)
        pred = {b: [] for b in nodes}
        for b in nodes:
            for t in succ[b]:
                if t in pred: pred[t].append(b)
        dom = {b: set(nodes) for b in nodes}; dom[0] = {0}
        ch = True
        while ch:
            ch = False
            for b in nodes:
                if b == 0: continue
                ps = [dom[p] for p in pred[b]]
                nd = (set.intersection(*ps) | {b}) if ps else {b}
                if nd != dom[b]: dom[b] = nd; ch = True
        loops = {}
        for b in nodes:
            for t in succ[b]:
                if t in dom[b]:
                    body = loops.setdefault(t, {t}); stack = [b]
                    while stack:
                        x = stack.pop()
                        if x in body: continue
                        body.add(x); stack.extend(pred[x])
        inner = {}
        for b in nodes:
            cands = [h for h, body in loops.items() if b in body]
            inner[b] = min(cands, key=lambda h: len(loops[h])) if cands else None
        parent = {}
        for h in loops:
            cands = [h2 for h2, body in loops.items() if h2 != h and h in body]
            parent[h] = min(cands, key=lambda h2: len(loops[h2])) if cands else None
        info = dict(succ=succ, nodes=nodes, loops=loops, inner=inner, parent=parent, topo={})
        s.cfg_cache[id(fn)] = info
        return info

    @staticmethod
    def term_targets(term):
        k = term[0]
        if k == 'goto': return [term[1]]
        if k == 'switch': return [t for _, t in term[2]] + ([term[3]] if term[3] is not None else [])
        if k == 'drop': return [term[2]]
        if k == 'assert': return [term[5]]
        if k == 'call': return [term[4]] if term[4] is not None else []
        return []

    def region_nodes(s, info, L):
        if L in info['topo']: return info['topo'][L]
        loops = info['loops']
        body = loops[L] if L is not None else set(info['nodes'])
        members = [b for b in body if info['inner'][b] == L]
        children = [h for h in loops if info['parent'][h] == L and h in body]
        nodeset = set(members) | set(children)

        def owner(t):
            if t not in body: return None
            if info['inner'][t] == L: return t
            h = info['inner'][t]
            while info['parent'][h] != L: h = info['parent'][h]
            return h
        edges = {n: set() for n in nodeset}
        for n in nodeset:
            blks = loops[n] if (n in children and n != L) else [n]
            for b in blks:
                for t in info['succ'][b]:
                    if t == L and L is not None: continue
                    o = owner(t)
                    if o is not None and o != n: edges[n].add(o)
        order = []; seen = set()

        def dfs(n):
            stack = [(n, iter(sorted(edges[n])))]
            if n in seen: return
            seen.add(n)
            while stack:
                node, it = stack[-1]
                adv = False
                for t in it:
                    if t not in seen:
                        seen.add(t); stack.append((t, iter(sorted(edges[t])))); adv = True; break
                if not adv:
                    order.append(node); stack.pop()
        dfs(L if L is not None else 0)
        for n in sorted(nodeset): dfs(n)
        order.reverse()
        res = (order, set(members), set(children), owner)
        info['topo'][L] = res
        return res

    # ------------------------------------------------------------------ execution
    def call_fn(s, fn, st, args):
        """execute fn from st (guard st.g); returns (state_at_return, retval) or (None, None) if it never returns"""
        s.stats['calls'] += 1
        ensure_parsed(fn)
        depth = s.stack.count(fn.name)
        if depth >= 1 or len(s.stack) > 0:
            if not s.feasible(st.g): return None, None
        if depth > s.max_rec:
            s.obligations.append(Obligation(st.g, False, 'recursion bound %d exceeded in %s' % (s.max_rec, fn.name), 'unwind', fn.name))
            return None, None
        s.encoded[(fn.crate, fn.name)] = fn.text_hash
        fid = next(s.fid)
        if len(args) != fn.nargs: raise Abort('arity mismatch calling %s: %d vs %d' % (fn.name, len(args), fn.nargs))
        for (idx, _), a in zip(fn.params, args): st.m[(fid, idx)] = a
        info = s.cfg(fn)
        s.stack.append(fn.name)
        try:
            exits, _ = s.run_region(fn, info, None, st, fid)
        finally:
            s.stack.pop()
        rs = exits.get('RET')
        if rs is None: return None, None
        rv = rs.m.get((fid, 0), UNIT)
        m = rs.m
        if isinstance(rv, P) and rv.fid == fid:      # promoted constant: reference to its own temporary
            tv = s.read(rs, ('mem', rv.fid, rv.loc, list(rv.proj)))
            rv = tv if isinstance(tv, (S, V)) else PV(tv)
        for k in [k for k in m if k[0] == fid]: del m[k]
        return rs, rv

    def run_region(s, fn, info, L, st, fid, start=None):
        order, members, children, owner = s.region_nodes(info, L)
        pending = {(start if start is not None else (L if L is not None else 0)): st}
        exits = {}; back = None
        split = L is not None and fn.name in s.split_loops
        for n in order:
            cur = pending.pop(n, None)
            if cur is None: continue
            if cur.g is False: continue
            if n in children and n != L:
                outs = list(s.run_loop(fn, info, n, cur, fid).items())
            else:
                outs = s.exec_block(fn, n, cur, fid)
            for tgt, st2 in outs:
                if st2 is None or st2.g is False: continue
                if tgt == L and L is not None:
                    if split: back = (back or []) + [st2]
                    else: back = merge_states(st2, back)
                    continue
                o = owner(tgt) if tgt != 'RET' else None
                if o is None: exits[tgt] = merge_states(st2, exits.get(tgt))
                else: pending[o] = merge_states(st2, pending.get(o))
        if pending: raise Abort('irreducible control flow in %s: %r' % (fn.name, list(pending)))
        return exits, back

    def run_loop_split(s, fn, info, L, st, fid):
        """an interpreter loop: the states are kept apart per concrete value of the designated local (the line counter); the state with
        the smallest value runs next, states that arrive at the same value merge"""
        idx = fn.debug.get(s.split_loops[fn.name])
        if idx is None: raise Abort('split local %r not found in %s' % (s.split_loops[fn.name], fn.name))
        all_exits = {}
        bound = s.unwind_for.get(fn.name, s.unwind)

        def parts(st1):
            v = st1.m.get((fid, idx))
            if not is_sym(v): return [(v, st1)]
            leaves = int_leaves(simp(v))
            if leaves is None or len(leaves) > 16: return [(None, st1)]
            out = []
            for lv in sorted(leaves):
                g = simp(zand(st1.g, v == lv))
                if g is False or not s.feasible(g): continue
                m2 = dict(st1.m); m2[(fid, idx)] = lv
                out.append((lv, State(g, m2)))
            return out
        by_steps = fn.name in s.split_by_steps          # keep states of different iteration counts apart (no merging across loop passes)
        work = {}
        for key, st1 in parts(st): work[(key, 0) if by_steps else key] = (st1, 0)
        def order(k_):
            ln = k_[0] if by_steps else k_
            return (ln is None, ln if ln is not None else 0, k_[1] if by_steps else 0)
        while work:
            key = min(work, key=order)
            cur, k = work.pop(key)
            if k > bound:
                s.obligations.append(Obligation(cur.g, False, 'unwinding bound %d exceeded in %s loop bb%d' % (bound, fn.name, L), 'unwind', fn.name)); continue
            exits, backs = s.run_region(fn, info, L, cur, fid)
            for t, e in exits.items(): all_exits[t] = merge_states(e, all_exits.get(t))
            for b in (backs or []):
                if b.g is False or not s.feasible(b.g): continue
                for key2, st2 in parts(b):
                    if by_steps: key2 = (key2, k + 1)
                    old = work.get(key2)
                    work[key2] = (merge_states(st2, old[0]), max(k + 1, old[1])) if old else (st2, k + 1)
        return all_exits

    def run_loop(s, fn, info, L, st, fid):
        cb = s.loop_entry_hooks.get(fn.name)
        if cb is not None: cb(s, fn, info, L, st, fid)
        if fn.name in s.split_loops: return s.run_loop_split(fn, info, L, st, fid)
        all_exits = {}
        bound = s.unwind_for.get(fn.name, s.unwind)
        for k in range(bound + 1):
            exits, back = s.run_region(fn, info, L, st, fid)
            for t, e in exits.items(): all_exits[t] = merge_states(e, all_exits.get(t))
            if back is None or not s.feasible(back.g): return all_exits
            st = back
        s.obligations.append(Obligation(st.g, False, 'unwinding bound %d exceeded in %s loop bb%d' % (bound, fn.name, L), 'unwind', fn.name))
        return all_exits

    def exec_block(s, fn, b, st, fid):
        s.stats['blocks'] += 1
        stmts, term, _ = fn.blocks[b]
        m = st.m
        for stm in stmts:
            k = stm[0]
            if k == 'assign':
                val = s.rvalue(st, fn, fid, stm[2], stm[1])
                base, projs = stm[1]
                if not projs: m[(fid, base)] = val
                else: s.write(st, s.resolve(st, fn, fid, stm[1]), val)
            elif k == 'dead':
                m.pop((fid, stm[1]), None)
            elif k == 'setdiscr':
                pl = s.resolve(st, fn, fid, stm[1]); v = s.read(st, pl)
                if isinstance(v, E): s.write(st, pl, E(v.ty, stm[2], v.p))
                else: raise Abort('SetDiscriminant on %r' % (v,))
            elif k == 'assume':
                c = s.operand(st, fn, fid, stm[1]); st.g = zand(st.g, c)
        k = term[0]
        if k == 'goto': return [(term[1], st)]
        if k == 'return': return [('RET', st)]
        if k == 'dead': return []
        if k == 'drop': return [(term[2], st)]
        if k == 'switch':
            v = s.operand(st, fn, fid, term[1])
            if v is POISON:
                if s.feasible(st.g): raise Abort('switch on uninitialised value in %s bb%d' % (fn.name, b))
                return []
            outs = []; seen = []
            isb = is_bool(v)
            for kv, t in term[2]:
                if isb: c = znot(v) if kv == 0 else v
                else: c = zeq(v, kv)
                c = simp(c); seen.append(c)
                if c is False: continue
                outs.append((t, s.name(zand(st.g, c))))
                if c is True: break
            else:
                if term[3] is not None:
                    c = simp(zand(*[znot(o) for o in seen]))
                    if c is not False: outs.append((term[3], s.name(zand(st.g, c))))
            if len(outs) == 1: st.g = outs[0][1]; return [(outs[0][0], st)]
            return [(t, State(g, dict(m))) for t, g in outs]
        if k == 'assert':
            c = s.operand(st, fn, fid, term[1])
            if term[2]: c = znot(c)
            c = simp(c)
            if c is not True:
                s.obligations.append(Obligation(st.g, c, 'panic: %s' % term[3].strip('"')[:60], 'panic', '%s bb%d' % (fn.name, b)))
            if c is False: return []
            st.g = s.name(zand(st.g, c))
            return [(term[5], st)]
        if k == 'call':
            _, dest, callee, argops, tgt = term
            args = [s.operand(st, fn, fid, a) for a in argops]
            dest_ty = fn.locals.get(dest[0]) if dest is not None and not dest[1] else None
            s.cur_fn = fn
            if tgt is None and not any(pat == callee or (pat.startswith('re:') and re.fullmatch(pat[3:], callee)) for pat in s.hooks):
                # diverging call (panic!, unreachable!, unwrap_failed, ...): a panic site
                what = callee
                if args and isinstance(args[0], S) and str_concrete(args[0]): what += ': ' + str_concrete(args[0])[:60]
                s.obligations.append(Obligation(st.g, False, 'panic: diverging call %s' % what[:120], 'panic', '%s bb%d' % (fn.name, b)))
                return []
            st2, rv = s.call(callee, st, args, fn, dest_ty)
            if st2 is None or st2.g is False: return []
            if tgt is None:
                # diverging call that "returned": it is a panic site
                s.obligations.append(Obligation(st2.g, False, 'diverging call %s' % callee[:80], 'panic', '%s bb%d' % (fn.name, b)))
                return []
            if dest is not None:
                if not dest[1]: st2.m[(fid, dest[0])] = rv
                else: s.write(st2, s.resolve(st2, fn, fid, dest), rv)
            return [(tgt, st2)]
        raise Abort('terminator ' + repr(term))

    # ------------------------------------------------------------------ call resolution
    def method_index(s):
        if s._method_index is not None: return s._method_index
        idx = {}
        for (crate, name), fn in s.mir.fns.items():
            ms = list(re.finditer(r'<impl at ([^:>]+):(\d+):(\d+): \d+:\d+>', name))
            if not ms: continue
            m = ms[-1]
            rest = name[m.end():]
            if not rest.startswith('::'): continue
            method = rest[2:]
            info = s.types.impls.get((m.group(1), int(m.group(2)), int(m.group(3))))
            if info is None: continue
            trait, ty, mod = info
            ty = strip_generics(ty.strip()); trait_last = strip_generics(trait).split('::')[-1] if trait else None
            tyfull = ty if '::' in ty or ty.startswith(('Box<', '&', 'dyn ')) else ((mod + '::' + ty) if mod else ty)
            for key in ((tyfull, trait_last, method), (ty.split('::')[-1], trait_last, method)):
                idx.setdefault(key, []).append(fn)
        s._method_index = idx
        return idx

    def find_method(s, ty, trait_last, method, crate=None):
        idx = s.method_index()
        c = idx.get((ty, trait_last, method))
        if c is None:
            # fall back on the last path segment (types declared inside a function carry the function in their path), but only
            # among impls of the crate the type lives in: two types with the same simple name (types::command::AliasCommand of the
            # core crate, the AliasCommand local to the SDK's alias command) must not share methods
            c = idx.get((ty.split('::')[-1], trait_last, method))
            if c and '::' in ty:
                top = ty.lstrip('<').split('::')[0]
                own = 'sdk' if top in ('sdk', 'utils') else 'core' if top in ('expansion', 'parser', 'preprocessor', 'runner') else None
                if own is not None: c = [f for f in c if f.crate == own]
                tyn = ty.lstrip('<'); mod = tyn.rsplit('::', 1)[0]
                near = [f for f in c if tyn.startswith(f.name.split('::<impl')[0] + '::') or f.name.split('::<impl')[0].startswith(mod)]
                c = near          # an impl block in an unrelated module is not taken for this type
        if not c: return None
        if len(c) > 1 and crate is not None:
            c2 = [f for f in c if f.crate == crate]
            if len(c2) == 1: return c2[0]
        if len(c) > 1:
            # disambiguate by module prefix of the type path
            mod = ty.rsplit('::', 1)[0] if '::' in ty else ''
            c2 = [f for f in c if f.name.startswith(mod + '::<impl')]
            if len(c2) >= 1: return c2[0]
            return None
        return c[0]

    def resolve_callee(s, crate, callee):
        key = (crate, callee)
        r = s._resolve_cache.get(key)
        if r is not None: return r
        r = s._resolve(crate, callee)
        s._resolve_cache[key] = r
        return r

    def _resolve(s, crate, callee):
        """-> ('fn', Fn) | ('dyn', trait_last, method) | ('closure_call', kind) | ('none',)"""
        c = strip_generics(callee)
        tc = crate
        if c.startswith('duckscript::'): c = c[len('duckscript::'):]; tc = 'core'
        elif c.startswith('duckscriptsdk::'): c = c[len('duckscriptsdk::'):]; tc = 'sdk'
        f = s.mir.fns.get((tc, c))
        if f is not None and f.blocks: return ('fn', f)
        if c.startswith('<'):
            j = _angle_close(c, 0); inner = c[1:j]; rest = c[j + 1:]
            parts = split_as(inner)
            if len(parts) == 2 and rest.startswith('::'):
                X, trait = parts; method = rest[2:]
                trait_last = trait.split('::')[-1]
                Xn = s.norm_type(crate, X)
                if trait_last in ('Fn', 'FnMut', 'FnOnce') and method in ('call', 'call_mut', 'call_once'):
                    return ('closure_call', method)
                if X.startswith('dyn ') or X in ('Self',) or re.fullmatch(r'[A-Z]\w?', X) or X.startswith('(dyn '):
                    if trait_last in ('Command',): return ('dyn', trait_last, method)
                    return ('none',)
                f = s.find_method(Xn, trait_last, method, None)
                if f is not None and trait_last not in ('Clone', 'Debug', 'Display'): return ('fn', f)
            return ('none',)
        if '::' in c:
            ty, method = c.rsplit('::', 1)
            ty2 = ty[len('duckscript::'):] if ty.startswith('duckscript::') else ty
            f = s.find_method(ty2, None, method, tc)
            if f is not None: return ('fn', f)
        return ('none',)

    def call(s, callee, st, args, fn, dest_ty=None):
        crate = fn.crate if fn is not None else 'core'
        for pat, h in s.hooks.items():
            if pat == callee or (pat.startswith('re:') and re.fullmatch(pat[3:], callee)):
                r = h(s, st, args, callee)
                if r is not NotImplemented:
                    return (st if st.g is not False else None), r
        if callee.startswith(('move ', 'copy ')):
            # call through a fn pointer / closure value held in a local
            raise Abort('indirect call through local: ' + callee)
        r = s.resolve_callee(crate, callee)
        if r[0] == 'fn':
            return s.call_fn(r[1], st, args)
        if r[0] == 'dyn':
            return s.dyn_call(st, r[1], r[2], args, callee)
        if r[0] == 'closure_call':
            return s.call_closure(st, args[0], args[1].f if isinstance(args[1], T) else [args[1]])
        for pat, f in s.models:
            if pat.fullmatch(callee):
                s.stats['model_calls'] += 1; s.model_used.add(f.__name__)
                ctx = (callee, dest_ty, fn)
                rv = f(s, st, args, ctx)
                if st.g is False: return None, None
                return st, rv
        raise Abort('no model for callee: ' + callee)

    def call_closure(s, st, clo, args):
        """clo: closure value (T with ty '{closure@..}') or pointer to one, or FnItem"""
        c = clo
        if isinstance(c, (P, PV)): c = s.deref(st, c)
        if isinstance(c, FnItem):
            return s.call(c.path, st, list(args), s.cur_fn)
        if not isinstance(c, T) or not c.ty or not c.ty.startswith('{closure@'):
            raise Abort('call of non-closure %r' % (c,))
        key = s.mir.closures.get(c.ty)
        if key is None: raise Abort('closure body not found: ' + c.ty)
        cf = s.mir.fns[key]
        p0 = cf.params[0][1]
        envarg = clo if p0.startswith('&') else c
        if p0.startswith('&') and not isinstance(clo, (P, PV)): envarg = PV(c)
        return s.call_fn(cf, st, [envarg] + list(args))

    def dyn_call(s, st, trait_last, method, args, callee):
        recv = args[0]
        obj = s.deref(st, recv) if isinstance(recv, (P, PV, U)) else recv

        def one(st1, o, recv=None):
            recv = args[0] if recv is None else recv
            if isinstance(o, (P, PV)): o = s.deref(st1, o)      # Box<dyn T> behind a reference
            if not isinstance(o, T) or not o.ty: raise Abort('dyn call on %r (%s)' % (o, callee))
            h = s.dyn_impls.get((o.ty, method))
            if h is not None:
                rv = h(s, st1, [o] + args[1:])
                return (st1 if st1.g is not False else None), rv
            f = s.find_method(o.ty, trait_last, method, None)
            if f is None:
                # default trait method body (e.g. Command::aliases)
                f = s.mir.fns.get(('core', 'types::command::%s::%s' % (trait_last, method)))
                if f is None: raise Abort('no impl of %s::%s for %s' % (trait_last, method, o.ty))
            a0 = recv if f.params[0][1].startswith('&') else o
            return s.call_fn(f, st1, [a0] + args[1:])
        if isinstance(obj, U):
            res = None; rstate = None
            for c, o in obj.alts:
                g = simp(zand(st.g, c))
                if g is False or not s.feasible(g): continue
                st1 = State(g, dict(st.m))
                st2, rv = one(st1, o, PV(s.deref(st1, o)) if isinstance(o, (P, PV)) else PV(o))
                if st2 is None: continue
                st2.m[('ret', 0)] = rv
                rstate = merge_states(st2, rstate)
            if rstate is None: return None, None
            rv = rstate.m.pop(('ret', 0))
            return rstate, rv
        return one(st, obj)

    def run_call(s, name, st, args, crate='sdk'):
        """call a MIR function from inside a hook/model: the result state replaces st in place"""
        r = s.resolve_callee(crate, name)
        if r[0] != 'fn': raise Abort('run_call: function not found: ' + name)
        rs, rv = s.call_fn(r[1], State(st.g, st.m), args)
        if rs is None: st.g = False; return POISON
        st.g = rs.g; st.m = rs.m
        return rv

    def finish_from(s, fn, fid, block, st):
        """continue the execution of fn (top-level region) from `block` to the return: (state, return value) or (None, None)"""
        info = s.cfg(fn)
        s.stack.append(fn.name)
        try: exits, _ = s.run_region(fn, info, None, st, fid, start=block)
        finally: s.stack.pop()
        rs = exits.get('RET')
        if rs is None: return None, None
        return rs, rs.m.get((fid, 0), UNIT)

    # ------------------------------------------------------------------ entry helper
    def run(s, crate, name, args, st=None):
        fn = s.mir.fns.get((crate, name))
        if fn is None:
            r = s.resolve_callee(crate, name)
            if r[0] != 'fn': raise Abort('entry function not found in MIR dump: %s' % name)
            fn = r[1]
        st = st or State(True, {})
        return s.call_fn(fn, st, args)
