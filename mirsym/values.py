"""Value model of the symbolic executor. Values are persistent (never mutated in place)."""
import z3

USIZE_MAX = 2**64 - 1


class S:
    """String / &str / str: symbolic length + char cells (ints). Invariant: 0 <= len <= len(ch)."""
    __slots__ = ('len', 'ch', 'hint')

    def __init__(s, ln, ch, hint=None): s.len = ln; s.ch = list(ch); s.hint = hint
    def __repr__(s): return 'S(%r,%r)' % (s.len, s.ch)


class V:
    """Vec<T> / [T] / [T; N]: symbolic length + item cells. Invariant: 0 <= len <= len(it)."""
    __slots__ = ('len', 'it')

    def __init__(s, ln, it): s.len = ln; s.it = list(it)
    def __repr__(s): return 'V(%r,%r)' % (s.len, s.it)


class T:
    """struct / tuple / closure environment; ty is the (normalised) type path when known."""
    __slots__ = ('f', 'ty')

    def __init__(s, f, ty=None): s.f = list(f); s.ty = ty
    def __repr__(s): return 'T%s%r' % ('<%s>' % s.ty if s.ty else '', s.f)


class E:
    """enum: type path, discriminant (variant index), payload per variant index."""
    __slots__ = ('ty', 'd', 'p')

    def __init__(s, ty, d, p): s.ty = ty; s.d = d; s.p = dict(p)
    def __repr__(s): return 'E<%s>(%r,%r)' % (s.ty, s.d, s.p)


class P:
    """pointer to a place: frame id (or 'h' for heap), local / heap cell number, projection."""
    __slots__ = ('fid', 'loc', 'proj')

    def __init__(s, fid, loc, proj=()): s.fid = fid; s.loc = loc; s.proj = tuple(proj)
    def __eq__(s, o): return isinstance(o, P) and (s.fid, s.loc, s.proj) == (o.fid, o.loc, o.proj)
    def __hash__(s): return hash((s.fid, s.loc, s.proj))
    def __repr__(s): return 'P(%r,%r,%r)' % (s.fid, s.loc, s.proj)


class PV:
    """pointer to an anonymous immutable value (results of look-ups, statics)."""
    __slots__ = ('v',)

    def __init__(s, v): s.v = v
    def __repr__(s): return 'PV(%r)' % (s.v,)


class U:
    """guarded union of values of different shapes: [(cond, value)], conds mutually exclusive."""
    __slots__ = ('alts',)

    def __init__(s, alts): s.alts = list(alts)
    def __repr__(s): return 'U%r' % (s.alts,)


class M:
    """HashMap / HashSet: list of slots (present, key, value); present keys are pairwise distinct."""
    __slots__ = ('ents',)

    def __init__(s, ents): s.ents = list(ents)
    def __repr__(s): return 'M%r' % (s.ents,)


class FnItem:
    __slots__ = ('path',)

    def __init__(s, path): s.path = path
    def __repr__(s): return 'FnItem(%s)' % s.path


class Opaque:
    __slots__ = ('tag', 'data')

    def __init__(s, tag, data=None): s.tag = tag; s.data = data
    def __repr__(s): return 'Opaque(%s)' % (s.tag,)


class Poison:
    def __repr__(s): return 'POISON'


POISON = Poison()
UNIT = T([])


class NotRecognised(Exception):
    """a lemma harness does not find the loop / locals it is written for"""


class Abort(Exception):
    """the engine cannot continue soundly (unmodelled construct): run is inconclusive"""


def is_sym(x): return isinstance(x, z3.ExprRef)
def is_bool(x): return isinstance(x, bool) or (is_sym(x) and z3.is_bool(x))
def is_int(x): return (isinstance(x, int) and not isinstance(x, bool)) or (is_sym(x) and z3.is_int(x))
def mk_str(py): return S(len(py), [ord(c) for c in py])


def zand(*xs):
    ys = []
    for x in xs:
        if x is True: continue
        if x is False: return False
        ys.append(x)
    if not ys: return True
    if len(ys) == 1: return ys[0]
    return z3.And(*ys)


def zor(*xs):
    ys = []
    for x in xs:
        if x is False: continue
        if x is True: return True
        ys.append(x)
    if not ys: return False
    if len(ys) == 1: return ys[0]
    return z3.Or(*ys)


def znot(x):
    if x is True: return False
    if x is False: return True
    return z3.Not(x)


def zimp(a, b): return zor(znot(a), b)


def zeq(a, b):
    if isinstance(a, bool) and is_sym(b): return b if a else z3.Not(b)
    if isinstance(b, bool) and is_sym(a): return a if b else z3.Not(a)
    r = (a == b)
    return r


def zite(c, a, b):
    if c is True: return a
    if c is False: return b
    if a is b: return a
    sa, sb = is_sym(a), is_sym(b)
    if not sa and not sb:
        if type(a) == type(b) and a == b: return a
        if isinstance(a, bool) and isinstance(b, bool):
            return c if a else z3.Not(c)
    elif sa and sb and a.eq(b): return a
    if isinstance(a, bool): a = z3.BoolVal(a)
    if isinstance(b, bool): b = z3.BoolVal(b)
    return z3.If(c, a, b)


VAR_BOUNDS = {}      # z3 ast id -> (variable, lo, hi): fresh integers whose range is assumed globally by the engine
_BOUNDS_CACHE = {}
_INF = float('inf')


def int_bounds(x, _depth=0):
    """a syntactic interval for an integer term (constants, ranged variables, +, -, ite); (-inf, inf) when unknown.
    Sound: the variable ranges are global assumptions of every query"""
    if not is_sym(x): return (x, x) if isinstance(x, int) else (-_INF, _INF)
    k = x.get_id()
    r = _BOUNDS_CACHE.get(k)
    if r is not None: return r[1]
    if _depth > 400: return (-_INF, _INF)
    res = (-_INF, _INF)
    try:
        if z3.is_int_value(x): v = x.as_long(); res = (v, v)
        elif z3.is_const(x):
            b = VAR_BOUNDS.get(k)
            if b is not None: res = (b[1], b[2])
        elif z3.is_add(x):
            lo = hi = 0
            for c in x.children():
                l, h = int_bounds(c, _depth + 1); lo += l; hi += h
            res = (lo, hi)
        elif z3.is_sub(x) and x.num_args() == 2:
            (l0, h0), (l1, h1) = int_bounds(x.arg(0), _depth + 1), int_bounds(x.arg(1), _depth + 1)
            res = (l0 - h1, h0 - l1)
        elif z3.is_app_of(x, z3.Z3_OP_ITE):
            (l0, h0), (l1, h1) = int_bounds(x.arg(1), _depth + 1), int_bounds(x.arg(2), _depth + 1)
            res = (min(l0, l1), max(h0, h1))
    except RecursionError: res = (-_INF, _INF)
    if len(_BOUNDS_CACHE) > 200000: _BOUNDS_CACHE.clear()
    _BOUNDS_CACHE[k] = (x, res)
    return res


def int_leaves(x, _budget=None):
    """the set of integers a term built from constants, ite and +/- can evaluate to (None when it is not of that shape or too large)"""
    if not is_sym(x): return {x} if isinstance(x, int) else None
    if z3.is_int_value(x): return {x.as_long()}
    if z3.is_app_of(x, z3.Z3_OP_ITE):
        a = int_leaves(x.arg(1)); b = int_leaves(x.arg(2))
        if a is None or b is None or len(a) + len(b) > 64: return None
        return a | b
    if z3.is_add(x) or (z3.is_sub(x) and x.num_args() == 2):
        acc = {0}
        for i, c in enumerate(x.children()):
            l = int_leaves(c)
            if l is None or len(l) * len(acc) > 64: return None
            acc = {p + (q if (z3.is_add(x) or i == 0) else -q) for p in acc for q in l}
        return acc
    return None


def simp(x):
    if is_sym(x):
        y = z3.simplify(x)
        if z3.is_true(y): return True
        if z3.is_false(y): return False
        if z3.is_int_value(y): return y.as_long()
        return y
    return x


def _scalar(x): return isinstance(x, (int, bool)) or is_sym(x)


def merge(c, a, b):
    """value that equals a when c holds and b otherwise."""
    if a is b: return a
    if c is True: return a
    if c is False: return b
    if a is None: return b
    if b is None: return a
    if a is POISON or b is POISON:
        return b if a is POISON else a      # poison = unreachable / dead value: prefer the live side
    if _scalar(a) and _scalar(b):
        if is_bool(a) != is_bool(b): return POISON
        return zite(c, a, b)
    ta, tb = type(a), type(b)
    if ta is S and tb is S:
        n = max(len(a.ch), len(b.ch)); la, lb = len(a.ch), len(b.ch)
        return S(zite(c, a.len, b.len), [zite(c, a.ch[i] if i < la else 0, b.ch[i] if i < lb else 0) for i in range(n)])
    if ta is V and tb is V:
        n = max(len(a.it), len(b.it)); it = []
        for i in range(n):
            x = a.it[i] if i < len(a.it) else None; y = b.it[i] if i < len(b.it) else None
            it.append(merge(c, x, y))
        return V(zite(c, a.len, b.len), it)
    if ta is T and tb is T and len(a.f) == len(b.f) and a.ty == b.ty:
        return T([merge(c, x, y) for x, y in zip(a.f, b.f)], a.ty)
    if ta is E and tb is E and a.ty == b.ty:
        p = {}
        for k in set(a.p) | set(b.p):
            if k in a.p and k in b.p: p[k] = [merge(c, x, y) for x, y in zip(a.p[k], b.p[k])]
            else: p[k] = a.p.get(k, b.p.get(k))
        return E(a.ty, zite(c, a.d, b.d), p)
    if ta is M and tb is M:
        n = max(len(a.ents), len(b.ents)); ents = []
        for i in range(n):
            x = a.ents[i] if i < len(a.ents) else None; y = b.ents[i] if i < len(b.ents) else None
            if x is None: ents.append((zand(znot(c), y[0]), y[1], y[2]))
            elif y is None: ents.append((zand(c, x[0]), x[1], x[2]))
            else: ents.append((zite(c, x[0], y[0]), merge(c, x[1], y[1]), merge(c, x[2], y[2])))
        return M(ents)
    if ta is P and tb is P and a == b: return a
    if ta is PV and tb is PV:
        return PV(merge(c, a.v, b.v))
    if ta is FnItem and tb is FnItem and a.path == b.path: return a
    if ta is Opaque and tb is Opaque and a.tag == b.tag: return a
    # different shapes: guarded union
    alts = []
    for cond, v in ((c, a), (znot(c), b)):
        if isinstance(v, U): alts.extend((zand(cond, k), x) for k, x in v.alts)
        else: alts.append((cond, v))
    # coalesce identical pointers
    out = []
    for k, x in alts:
        for j, (k2, x2) in enumerate(out):
            if (isinstance(x, P) and isinstance(x2, P) and x == x2) or x is x2:
                out[j] = (zor(k2, k), x2); break
        else: out.append((k, x))
    if len(out) == 1: return out[0][1]
    return U(out)


def umap(v, f):
    """apply f to a value or to every alternative of a union and merge the results"""
    if isinstance(v, U):
        r = None
        for k, x in reversed(v.alts):
            y = f(x)
            r = y if r is None else merge(k, y, r)
        return r
    return f(v)


def str_eq(a, b):
    if not is_sym(a.len) and not is_sym(b.len) and a.len != b.len: return False
    n = min(len(a.ch), len(b.ch))
    cs = [zeq(a.len, b.len)]
    concrete_len = a.len if not is_sym(a.len) else (b.len if not is_sym(b.len) else None)
    for i in range(n):
        if concrete_len is not None:
            if i >= concrete_len: break
            cs.append(zeq(a.ch[i], b.ch[i]))
        else:
            cs.append(zor(a.len <= i, zeq(a.ch[i], b.ch[i])))
    # if one side may be longer than the other's capacity equality of lengths already forbids it
    return zand(*cs)


def str_concrete(s):
    """python str if fully concrete else None"""
    if is_sym(s.len): return None
    out = []
    for i in range(s.len):
        c = s.ch[i]
        if is_sym(c): return None
        out.append(chr(c))
    return ''.join(out)


def sel(items, i, default=0):
    """items[i] for symbolic i (ite chain)"""
    if not is_sym(i): return items[i] if 0 <= i < len(items) else default
    if not items: return default
    r = items[-1]
    for k in range(len(items) - 2, -1, -1): r = merge(i == k, items[k], r)
    return r


def upd(items, i, val):
    items = list(items)
    if not is_sym(i):
        while len(items) <= i: items.append(None)
        items[i] = val
    else:
        for k in range(len(items)): items[k] = merge(i == k, val, items[k])
    return items


def deep_eq(a, b):
    """structural equality of two values as a formula (pointers are compared by target value if PV)"""
    if a is b: return True
    if isinstance(a, PV): a = a.v
    if isinstance(b, PV): b = b.v
    if _scalar(a) and _scalar(b): return zeq(a, b)
    if isinstance(a, S) and isinstance(b, S): return str_eq(a, b)
    if isinstance(a, V) and isinstance(b, V):
        cs = [zeq(a.len, b.len)]
        n = min(len(a.it), len(b.it))
        for i in range(n):
            inside = simp(i < a.len)
            if inside is False: break
            cs.append(zimp(inside, deep_eq(a.it[i], b.it[i])))
        return zand(*cs)
    if isinstance(a, T) and isinstance(b, T) and len(a.f) == len(b.f):
        return zand(*[deep_eq(x, y) for x, y in zip(a.f, b.f)])
    if isinstance(a, E) and isinstance(b, E):
        cs = [zeq(a.d, b.d)]
        for k in set(a.p) | set(b.p):
            if k in a.p and k in b.p:
                cs.append(zimp(zeq(a.d, k), zand(*[deep_eq(x, y) for x, y in zip(a.p[k], b.p[k])])))
            elif k in a.p: cs.append(znot(zeq(a.d, k)) if a.p[k] else True)
            else: cs.append(znot(zeq(b.d, k)) if b.p[k] else True)
        return zand(*cs)
    if isinstance(a, U) or isinstance(b, U):
        if isinstance(a, U): return zor(*[zand(c, deep_eq(x, b)) for c, x in a.alts])
        return zor(*[zand(c, deep_eq(a, x)) for c, x in b.alts])
    if a is POISON or b is POISON or a is None or b is None: return False
    raise Abort('deep_eq of %r and %r' % (type(a), type(b)))
