"""Common machinery of the per-property checks: job scheduling, evidence, replay, known findings, exit codes.

A check is a list of jobs. A job is a python function run in a forked worker process: it builds symbolic inputs,
runs the engine on functions taken from the MIR of /repo's current tree, adds the property as obligations and
returns a JobResult. The parent aggregates, replays counterexamples natively and writes evidence."""
import re
import os, sys, json, time, traceback, multiprocessing, subprocess, hashlib, signal
import z3
from . import build, solve
from .values import *
from .engine import Engine, State, Obligation, some, none, ok, err
from .models import MODELS

VERIF = os.path.dirname(os.path.dirname(os.path.abspath(__file__)))
EVID = os.environ.get('VERIF_EVIDENCE_DIR') or os.path.join(VERIF, 'evidence')      # the override is for development runs (other seeds) that must not touch the committed evidence
KNOWN = os.path.join(VERIF, 'known_findings.json')

_MIR = None
_TYPES = None


def load_mir(crates=('core', 'sdk')):
    global _MIR, _TYPES
    if _MIR is None:
        _MIR, _TYPES = build.load(crates)
    return _MIR, _TYPES


class JobResult:
    def __init__(s, name):
        s.name = name; s.status = 'pass'       # pass | violation | inconclusive | skipped (lemma job whose loop shape is not recognised)
        s.obligations = 0; s.discharged = 0; s.unwinding = 0; s.queries = 0; s.solver_time = 0.0; s.symex_time = 0.0
        s.blocks = 0; s.merges = 0; s.functions = {}; s.bounds = {}
        s.violations = []       # list of dict(case=..., what=..., oracle=...)
        s.witnesses = []        # list of dict
        s.samples = []
        s.notes = []
        s.known_hits = []       # known-finding classes still reproducible (list of dict(class=, case=))
        s.reason = ''
        s.wall = 0.0
        s.models_used = []

    def todict(s): return s.__dict__


class Ctx:
    """what a job function gets"""

    def __init__(s, pid, tier, seed, panic_only=False):
        s.pid = pid; s.tier = tier; s.seed = seed
        s.mir, s.types = _MIR, _TYPES
        s.panic_only = panic_only

    def engine(s, **kw):
        e = Engine(s.mir, s.types, MODELS, **kw)
        e.panic_only = s.panic_only
        e.solver.set('random_seed', s.seed % (2**31))
        z3.set_param('smt.random_seed', s.seed % (2**31)); z3.set_param('sat.random_seed', s.seed % (2**31))
        return e


def finish_job(jr, e, res=None, t_symex=None):
    """fold engine + discharge statistics into the job result"""
    jr.blocks += e.stats['blocks']; jr.merges += e.stats.get('guards_named', 0)
    for (crate, name), h in e.encoded.items(): jr.functions['%s::%s' % (crate, name)] = h
    jr.models_used = sorted(set(jr.models_used) | e.model_used)
    if res is not None:
        jr.obligations += res.total; jr.discharged += res.discharged; jr.queries += res.queries; jr.solver_time += res.solver_time
        jr.unwinding += sum(1 for o in e.obligations if o.kind == 'unwind')
    if t_symex is not None: jr.symex_time += t_symex


def _run_job(args):
    fn, name, pid, tier, seed, kw = args
    jr = JobResult(name); t0 = time.time()
    try:
        ctx = Ctx(pid, tier, seed, panic_only=kw.pop('_panic_only', False))
        fn(ctx, jr, **kw)
    except NotRecognised as ex:
        # a lemma job is tied to the shape of one loop; when the loop was restructured the lemmas do not apply and the
        # bounded jobs of the same check decide alone
        jr.status = 'skipped'; jr.reason = 'lemmas not applicable to the current shape of the code: %s' % ex
    except Abort as ex:
        jr.status = 'inconclusive'; jr.reason = 'engine abort: %s' % ex
        jr.notes.append(traceback.format_exc()[-1500:])
    except Exception as ex:
        jr.status = 'inconclusive'; jr.reason = 'harness error: %s: %s' % (type(ex).__name__, ex)
        jr.notes.append(traceback.format_exc()[-3000:])
    jr.wall = time.time() - t0
    return jr.todict()


LEMMA_KINDS = ('c01_lemma', 'c01_struct', 'c01_arglist', 'c02_lemma', 'lemma')


class Check:
    def __init__(s, pid, tier, seed, crates=('core', 'sdk')):
        s.pid = pid; s.tier = tier; s.seed = seed; s.crates = crates
        s.jobs = []; s.t0 = time.time()
        s.assumptions = []; s.bounds = {}; s.trusted = []
        s.replayer = None       # function(case dict) -> (reproduced: bool, detail) for violations
        s.known_classifier = None

    def job(s, fn, name, **kw):
        flt = os.environ.get('VERIF_JOBS')        # development aid: run only the jobs whose name matches (never set by registered commands)
        if flt and not re.search(flt, name): return
        s.jobs.append((fn, name, s.pid, s.tier, s.seed, kw))

    def run(s, procs=None):
        load_mir(s.crates)
        procs = procs or min(len(s.jobs), int(os.environ.get('VERIF_PROCS', '14')))
        if procs <= 1 or len(s.jobs) == 1:
            results = [_run_job(j) for j in s.jobs]
        else:
            ctx = multiprocessing.get_context('fork')
            with ctx.Pool(procs, maxtasksperchild=1) as pool:
                results = pool.map(_run_job, s.jobs, chunksize=1)
        return results

    # ------------------------------------------------------------------ reporting
    def finish(s, results, level_rule, extra_assumptions=()):
        os.makedirs(EVID, exist_ok=True)
        import glob
        for old in glob.glob(os.path.join(EVID, '%s.violation.*.json' % s.pid)): os.unlink(old)      # replay files of earlier runs
        known = load_known(s.pid)
        viol_lines = []; known_lines = []; status = 0
        n_viol = 0; replays = 0
        for r in results:
            if r['status'] == 'inconclusive': status = max(status, 2)
            for v in r['violations']:
                rep = None
                if s.replayer is not None:
                    try: rep = s.replayer(v)
                    except Exception as ex: rep = (None, 'replay error: %s' % ex)
                    replays += 1
                v['replay'] = rep
                if rep is not None and rep[0] in (False, None) and v.get('kind') in LEMMA_KINDS:
                    # a per-iteration / per-function lemma fails from a state or callee result that no native run confirms: the
                    # decomposition does not fit the code as it is now written (e.g. work moved between functions). That is neither a
                    # violation nor a verdict; the bounded jobs of the same check decide alone and the evidence says so.
                    r['lemma_open'] = r.get('lemma_open', 0) + 1
                    r['notes'].append('lemma not established and not confirmed natively (%s): %s' % (rep[1], v.get('what')))
                    print('[%s] %s: lemma not established, no native confirmation (%s): %s' % (s.pid, r['name'], rep[1], v.get('what'))); continue
                if rep is not None and rep[0] is False:
                    # counterexample does not reproduce natively: engine/model defect, never a violation
                    status = max(status, 2); r['notes'].append('non-reproducing counterexample: %r' % (v,))
                    print('[%s] %s: counterexample not reproduced natively (%s): %s' % (s.pid, r['name'], rep[1], json.dumps({k: x for k, x in v.items() if k not in ('native', 'spec')}, default=str)[:int(os.environ.get("VERIF_SHOW", "600"))])); continue
                if rep is not None and rep[0] is None:
                    status = max(status, 2); r['notes'].append('replay failed: %r' % (rep,))
                    print('[%s] %s: replay inconclusive (%s): %s' % (s.pid, r['name'], rep[1], json.dumps({k: x for k, x in v.items() if k not in ('native', 'spec')}, default=str)[:int(os.environ.get("VERIF_SHOW", "600"))])); continue
                cls = classify_known(known, v)
                if cls is not None:
                    known_lines.append('KNOWN-FINDING: property=%s %s' % (s.pid, cls['what']))
                    continue
                n_viol += 1
                path = os.path.join(EVID, '%s.violation.%d.json' % (s.pid, n_viol))
                json.dump(v, open(path, 'w'), indent=1, default=str)
                viol_lines.append('VIOLATION property=%s replay=%s' % (s.pid, path))
            if r.get('lemma_open') and r['status'] == 'violation' and r['lemma_open'] == len(r['violations']):
                r['status'] = 'skipped'; r['reason'] = '%d lemma(s) not established for the current shape of the code; no native confirmation; the bounded jobs decide' % r['lemma_open']
            for kh in r.get('known_hits', []):
                rep = (True, 'not replayed')
                if s.replayer is not None:
                    try: rep = s.replayer(kh['case'])
                    except Exception as ex: rep = (None, 'replay error: %s' % ex)
                    replays += 1
                if rep[0]: known_lines.append('KNOWN-FINDING: property=%s %s' % (s.pid, kh['what']))
                else: r['notes'].append('known finding %s found by the solver but not reproduced natively: %r' % (kh['class'], rep))
        if n_viol: status = 1
        funcs = {}
        for r in results: funcs.update(r['functions'])
        samples = []
        for r in results:
            for w in r['witnesses'][:3]: samples.append({'job': r['name'], 'witness': w})
            for x in r['samples'][:3]: samples.append({'job': r['name'], 'sample': x})
        obligations = sum(r['obligations'] for r in results); discharged = sum(r['discharged'] for r in results)
        cov = dict(
            states=max(1, sum(r['blocks'] for r in results)), transitions=max(1, sum(r['merges'] for r in results)),
            traces_validated_against_impl=replays, samples=samples[:40] or [{'note': 'no witness produced'}],
            obligations=obligations, discharged=discharged,
            unwinding_obligations=sum(r['unwinding'] for r in results), queries=sum(r['queries'] for r in results),
            solver_time_s=round(sum(r['solver_time'] for r in results), 2), symex_time_s=round(sum(r['symex_time'] for r in results), 2),
            functions_encoded=funcs, bounds=s.bounds, rule=level_rule,
            evaluations=max(1, obligations), distinct_nontrivial=max(2, discharged) if discharged >= 2 else 2 if obligations >= 2 else 0,
            jobs=[dict(name=r['name'], status=r['status'], reason=r['reason'], obligations=r['obligations'], discharged=r['discharged'],
                       wall_s=round(r['wall'], 1), bounds=r['bounds'], notes=r['notes'][:6]) for r in results],
            tree_hash=getattr(_MIR, 'tree_hash', None), exhaustive=False,
            std_models_used=sorted(set(m for r in results for m in r['models_used'])),
            solver='z3 %s (python API, incremental, guard literals)' % z3.get_version_string(),
        )
        ev = dict(property_id=s.pid, tier=s.tier, seed=s.seed, level='model_checking', coverage=cov,
                  assumptions=list(s.assumptions) + list(extra_assumptions), wall_s=round(time.time() - s.t0, 1), violations=n_viol,
                  status={0: 'pass', 1: 'violation', 2: 'inconclusive'}[status])
        if not os.environ.get('VERIF_JOBS'):      # a filtered development run never replaces the evidence of the full check
            json.dump(ev, open(os.path.join(EVID, '%s.json' % s.pid), 'w'), indent=1, default=str)
        for l in sorted(set(known_lines)): print(l)
        for l in viol_lines: print(l)
        for r in results:
            tag = {'pass': 'ok', 'violation': 'VIOL', 'inconclusive': 'INCONCLUSIVE', 'skipped': 'skipped'}[r['status']]
            print('[%s] %-28s %-12s obligations=%d discharged=%d symex=%.1fs solve=%.1fs wall=%.1fs %s' % (
                s.pid, r['name'], tag, r['obligations'], r['discharged'], r['symex_time'], r['solver_time'], r['wall'], r['reason']))
            if r['status'] in ('inconclusive', 'skipped'):
                for n in r['notes'][:3]: print('    ' + str(n).replace('\n', '\n    '))
        print('[%s] tier=%s seed=%d obligations=%d discharged=%d violations=%d status=%s wall=%.1fs' % (
            s.pid, s.tier, s.seed, obligations, discharged, n_viol, ev['status'], time.time() - s.t0))
        return status


# ---------------------------------------------------------------------- per-job helpers
def process_failed(jr, e, res, extract):
    for o, m, r in res.failed:
        if r == 'unknown':
            jr.status = 'inconclusive'; jr.reason = 'solver returned unknown for: ' + o.msg; continue
        if o.kind == 'unwind':
            jr.status = 'inconclusive'; jr.reason = 'bound too small: ' + o.msg; continue
        case = extract(m, o)
        case['what'] = o.msg; case['where'] = o.where; case['obligation_kind'] = o.kind
        jr.violations.append(case)
        if jr.status == 'pass': jr.status = 'violation'


def witness(jr, e, name, formula, extract, optional=False):
    r, m = solve.check_sat(e, formula)
    if r == z3.sat:
        jr.witnesses.append({name: extract(m)})
    elif optional:
        jr.notes.append('optional witness %s: %s' % (name, r))
    else:
        jr.status = 'inconclusive'; jr.reason = 'vacuity witness %s is %s' % (name, r)


def discharge_known(e, jr, pid, classes, extract, obligations=None, prefer=None):
    """Discharge obligations with the open known-finding classes excluded, then ask for each open class
    whether it still reproduces. classes: name -> (formula over the inputs, obligation kinds it may affect)."""
    if prefer is not None:
        # phase 1: the sub-space whose counterexamples can be rebuilt natively; phase 2 (everything) only if phase 1 is clean
        base = list(e.obligations if obligations is None else obligations)
        res1 = discharge_known(e, jr, pid, classes, extract, obligations=[Obligation(zand(o.guard, prefer), o.cond, o.msg, o.kind, o.where) for o in base])
        if jr.violations: return res1
        res2 = discharge_known(e, jr, pid, classes, extract, obligations=base)
        res2.total += res1.total; res2.discharged += res1.discharged; res2.queries += res1.queries; res2.solver_time += res1.solver_time
        return res2
    known = {k['class']: k for k in load_known(pid)}
    active = {n: c for n, c in classes.items() if n in known}
    src = list(e.obligations if obligations is None else obligations)
    if getattr(e, 'panic_only', False):       # C07 re-uses other properties' harnesses for their panic / unwinding obligations only
        src = [o for o in src if o.kind != 'assert']
    obs = []
    for o in src:
        excl = [znot(f) for n, (f, kinds) in active.items() if o.kind in kinds]
        obs.append(Obligation(zand(o.guard, *excl), o.cond, o.msg, o.kind, o.where) if excl else o)
    res = solve.discharge(e, obs)
    process_failed(jr, e, res, extract)
    for n, (f, kinds) in active.items():
        negs = [zand(o.guard, znot(o.cond)) for o in src if o.kind in kinds]
        if not negs: continue
        r, m = solve.check_sat(e, zand(f, zor(*negs)))
        if r == z3.sat:
            case = extract(m, None); case['class'] = n
            jr.known_hits.append({'class': n, 'what': known[n]['what'], 'case': case})
        elif r == z3.unknown:
            jr.notes.append('known class %s: solver unknown' % n)
        else:
            jr.notes.append('known class %s no longer reproduces in this job' % n)
    return res


# ---------------------------------------------------------------------- known findings
def load_known(pid):
    if not os.path.exists(KNOWN): return []
    d = json.load(open(KNOWN))
    return [k for k in d.get('findings', []) if k.get('property') == pid and k.get('status') == 'open']


def classify_known(known, v):
    """a violation is known iff its class tag equals a listed open class"""
    cls = v.get('class')
    for k in known:
        if cls is not None and cls == k.get('class'): return k
    return None


# ---------------------------------------------------------------------- native replay
REPLAY_DIR = os.path.join(VERIF, 'replay')
REPLAY_TARGET = os.path.join(build.CACHE, 'replay-target')


def build_replay(quiet=True):
    """build the replay binary against the current working tree of the repository under check (path dependencies).
    For /repo the committed crate in replay/ is used as it is; for another tree (VERIF_REPO, development / seed sweeps) a copy of
    the crate with re-pointed path dependencies is built in the cache, with its own target directory."""
    env = dict(os.environ); env.update(CARGO_NET_OFFLINE='true', RUSTUP_TOOLCHAIN='stable')
    src, target = REPLAY_DIR, REPLAY_TARGET
    if os.path.realpath(build.REPO) != '/repo':
        import hashlib, shutil
        tag = hashlib.sha1(os.path.realpath(build.REPO).encode()).hexdigest()[:10]
        src = os.path.join(build.CACHE, 'replay-src-' + tag); target = os.path.join(build.CACHE, 'replay-target-' + tag)
        os.makedirs(os.path.join(src, 'src'), exist_ok=True)
        shutil.copy(os.path.join(REPLAY_DIR, 'src', 'main.rs'), os.path.join(src, 'src', 'main.rs'))
        toml = open(os.path.join(REPLAY_DIR, 'Cargo.toml')).read().replace('"/repo/', '"%s/' % os.path.realpath(build.REPO))
        open(os.path.join(src, 'Cargo.toml'), 'w').write(toml)
        lock = os.path.join(build.REPO, 'Cargo.lock')
        if os.path.exists(lock): shutil.copy(lock, os.path.join(src, 'Cargo.lock'))
    env['CARGO_TARGET_DIR'] = target
    r = subprocess.run(['cargo', 'build', '--offline', '--quiet'], cwd=src, env=env, capture_output=True, text=True)
    if r.returncode != 0:
        raise RuntimeError('replay build failed:\n' + r.stderr[-3000:])
    return os.path.join(target, 'debug', 'replay')


_REPLAY_BIN = None


def replay(case, timeout=60):
    """run one JSON case through the real build; returns the parsed JSON outcome"""
    global _REPLAY_BIN
    if _REPLAY_BIN is None: _REPLAY_BIN = build_replay()
    r = subprocess.run([_REPLAY_BIN], input=json.dumps(case), capture_output=True, text=True, timeout=timeout)
    if r.returncode != 0 and not r.stdout.strip():
        return {'panic': True, 'stderr': r.stderr[-2000:], 'rc': r.returncode}
    try:
        out = json.loads(r.stdout.strip().split('\n')[-1])
    except Exception:
        return {'panic': r.returncode != 0, 'stderr': r.stderr[-2000:], 'stdout': r.stdout[-2000:], 'rc': r.returncode}
    if r.returncode != 0: out['panic'] = True; out['stderr'] = r.stderr[-2000:]
    return out


# ---------------------------------------------------------------------- symbolic input helpers
def sym_str(e, name, cap, minlen=0):
    sv = e.fresh_str(name, cap)
    if minlen: e.assume(sv.len >= minlen)
    return sv


def pick(e, name, n):
    """fresh int in 0..n-1"""
    return e.fresh_int(name, 0, n - 1)


def main_args(argv=None):
    import argparse
    ap = argparse.ArgumentParser()
    ap.add_argument('pid'); ap.add_argument('--tier', default=os.environ.get('VERIF_TIER', 'quick'))
    ap.add_argument('--replay', default=None); ap.add_argument('--only', default=None)
    a = ap.parse_args(argv)
    a.seed = int(os.environ.get('VERIF_SEED', '0') or 0)
    return a
