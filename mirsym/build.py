"""Regenerate the MIR dumps from /repo's current working tree (DESIGN.md 2.1).

The dump is cached by a hash of every source file that can influence it, so two checks run back to back on
the same tree share one rustc invocation; any edit to /repo yields a new dump."""
import os, sys, subprocess, hashlib, shutil, time, fcntl, json
from . import mirparse as mp

REPO = os.environ.get('VERIF_REPO', '/repo')
CACHE = os.environ.get('VERIF_CACHE', '/root/.cache/duckverif')
CRATES = {'core': ('duckscript', 'duckscript', 'duckscript/src'),
          'sdk': ('duckscriptsdk', 'duckscript_sdk', 'duckscript_sdk/src'),
          'cli': ('duckscript_cli', 'duckscript_cli', 'duckscript_cli/src')}
RUSTFLAGS_MIR = ['-Zunpretty=mir', '-Ztrim-diagnostic-paths=no', '-C', 'debug-assertions=off', '-C', 'overflow-checks=on']


def tree_hash(repo=REPO):
    h = hashlib.sha256()
    files = []
    for top in ('duckscript', 'duckscript_sdk', 'duckscript_cli'):
        for dp, dn, fn in os.walk(os.path.join(repo, top)):
            dn[:] = [d for d in dn if d not in ('target', '.git')]
            for f in fn:
                if f.endswith(('.rs', '.toml', '.ds', '.md')): files.append(os.path.join(dp, f))
    files += [os.path.join(repo, 'Cargo.toml'), os.path.join(repo, 'Cargo.lock')]
    for f in sorted(files):
        if not os.path.exists(f): continue
        h.update(os.path.relpath(f, repo).encode()); h.update(b'\0')
        with open(f, 'rb') as fh: h.update(fh.read())
        h.update(b'\0')
    return h.hexdigest()[:20]


def _run(cmd, cwd, out, env):
    with open(out, 'wb') as fo, open(out + '.err', 'wb') as fe:
        r = subprocess.run(cmd, cwd=cwd, stdout=fo, stderr=fe, env=env)
    return r.returncode


def dump(crates=('core', 'sdk'), repo=REPO, verbose=False):
    """-> dict crate -> path of MIR text, plus the scratch source dir used for the source scan"""
    os.makedirs(CACHE, exist_ok=True)
    th = tree_hash(repo)
    ddir = os.path.join(CACHE, 'dump-' + th)
    lock = open(os.path.join(CACHE, 'lock'), 'w')
    fcntl.flock(lock, fcntl.LOCK_EX)
    try:
        os.makedirs(ddir, exist_ok=True)
        need = [c for c in crates if not os.path.exists(os.path.join(ddir, c + '.mir.ok'))]
        src = os.path.join(ddir, 'src')
        if need or not os.path.isdir(src):
            if os.path.isdir(src): shutil.rmtree(src)
            subprocess.check_call(['rsync', '-a', '--exclude', 'target', '--exclude', '.git', repo + '/', src + '/'])
        env = dict(os.environ)
        env.update(CARGO_NET_OFFLINE='true', CARGO_TARGET_DIR=os.path.join(CACHE, 'target'), RUSTUP_TOOLCHAIN='nightly')
        env.pop('RUSTFLAGS', None)
        for c in need:
            pkg, d, _ = CRATES[c]
            t0 = time.time()
            kind = ['--bin', 'duck'] if c == 'cli' else ['--lib']
            cmd = ['cargo', 'rustc', '--offline', '-p', pkg] + kind + ['--'] + RUSTFLAGS_MIR
            # touch so that cargo re-runs rustc even when its fingerprint says fresh
            lib = os.path.join(src, d, 'src', 'main.rs' if c == 'cli' else 'lib.rs')
            os.utime(lib, None)
            out = os.path.join(ddir, c + '.mir')
            rc = _run(cmd, src, out, env)
            if rc != 0 or os.path.getsize(out) == 0:
                sys.stderr.write(open(out + '.err', errors='replace').read()[-3000:])
                raise RuntimeError('MIR dump failed for %s (rc=%s): does /repo still compile?' % (c, rc))
            open(out + '.ok', 'w').write('%.1f' % (time.time() - t0))
            if verbose: print('[build] dumped %s MIR in %.1fs' % (c, time.time() - t0), file=sys.stderr)
        # drop old dumps (keep the 3 most recent)
        ds = sorted((d for d in os.listdir(CACHE) if d.startswith('dump-')), key=lambda d: os.path.getmtime(os.path.join(CACHE, d)))
        for d in ds[:-3]:
            if d != 'dump-' + th: shutil.rmtree(os.path.join(CACHE, d), ignore_errors=True)
        os.utime(ddir, None)
    finally:
        fcntl.flock(lock, fcntl.LOCK_UN); lock.close()
    return {c: os.path.join(ddir, c + '.mir') for c in crates}, src, th


def load(crates=('core', 'sdk'), repo=REPO, verbose=False):
    paths, src, th = dump(crates, repo, verbose)
    mir = mp.Mir(); types = mp.Types()
    for c in crates:
        mp.parse_mir(open(paths[c], encoding='utf-8').read(), c, mir)
        pkg, d, prefix = CRATES[c]
        mp.scan_sources(os.path.join(src, d), prefix, types)
    mir.tree_hash = th
    return mir, types


if __name__ == '__main__':
    t = time.time()
    mir, types = load(tuple(sys.argv[1:]) or ('core', 'sdk'), verbose=True)
    print('functions: %d, structs: %d, enums: %d, impls: %d, %.1fs' % (len(mir.fns), len(types.structs), len(types.enums), len(types.impls), time.time() - t))
