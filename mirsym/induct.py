"""One-iteration ("inductive step") execution of a loop of a real function.

The engine normally unrolls loops up to a bound. For a loop whose state is a handful of named locals this module instead
  1. runs the function from its entry until the header of the loop is reached for the first time and captures the frame there
     (`capture`), so that drop flags, temporaries and references set up by the prologue are the real ones;
  2. lets the caller overwrite the *named* locals (names come from the MIR `debug` table of the function, i.e. from the source)
     with an arbitrary symbolic loop-head state and executes exactly one iteration of the real MIR (`step`);
  3. runs every way out of the loop on to the function's return (`returns`).
The caller states, as obligations, what one iteration must do from each class of states; composing the lemmas over an input of any
length is an induction argued in DESIGN.md (8.6), not a solver query."""
from .values import *
from .engine import State


class _Captured(Exception):
    pass


class LoopFrame:
    def __init__(s, e, fn, info, L, st, fid):
        s.e = e; s.fn = fn; s.info = info; s.L = L; s.st = st; s.fid = fid

    def local(s, name):
        d = s.fn.debug
        if name not in d: raise NotRecognised('local %r not found in the debug table of %s' % (name, s.fn.name))
        return d[name]

    def get(s, st, name): return st.m.get((s.fid, s.local(name)))

    def state(s, guard=True, **over):
        """a copy of the captured frame with the named locals replaced"""
        st = s.st.copy(); st.g = guard
        for k, v in over.items(): st.m[(s.fid, s.local(k))] = v
        return st

    def step(s, st):
        """one iteration: ({exit block: state}, state at the back edge or None)"""
        s.e.stack.append(s.fn.name)
        try: return s.e.run_region(s.fn, s.info, s.L, st, s.fid)
        finally: s.e.stack.pop()

    def returns(s, exits):
        """[(state, return value)] of every way out of the loop, run to the function's return"""
        out = []
        for tgt, est in exits.items():
            rs, rv = (est, est.m.get((s.fid, 0))) if tgt == 'RET' else s.e.finish_from(s.fn, s.fid, tgt, est)
            if rs is not None: out.append((rs, rv))
        return out


def capture(e, crate, fname, args, st, which=0):
    """run crate::fname(args) until its `which`-th distinct top-level loop header is first reached; returns the LoopFrame"""
    seen = []; cap = {}

    def cb(eng, fn, info, L, st1, fid):
        if L not in seen: seen.append(L)
        if seen.index(L) == which and not cap:
            cap['f'] = LoopFrame(eng, fn, info, L, st1.copy(), fid); raise _Captured()
    key = fname
    fn = e.mir.fns.get((crate, fname))
    if fn is not None: key = fn.name
    e.loop_entry_hooks[key] = cb
    depth = len(e.stack)
    try: e.run(crate, fname, args, st)
    except _Captured: pass
    finally:
        e.loop_entry_hooks.pop(key, None)
        del e.stack[depth:]
    if 'f' not in cap: raise NotRecognised('loop %d of %s was not reached' % (which, fname))
    return cap['f']


# ---------------------------------------------------------------------- which locals carry state from one iteration to the next
_PROJ = {'deref', 'field', 'variant', 'index', 'cindex', 'subslice'}


def _is_place(x):
    return isinstance(x, tuple) and len(x) == 2 and isinstance(x[0], int) and isinstance(x[1], tuple) and all(isinstance(p, tuple) and p and p[0] in _PROJ for p in x[1])


def _uses(x, out):
    """locals read by a parsed rvalue / operand / place (recursively)"""
    if _is_place(x):
        out.append(x[0])
        for p in x[1]:
            if p[0] == 'index': out.append(p[1])
        return
    if isinstance(x, (tuple, list)):
        for y in x: _uses(y, out)


def _block_use_def(fn, b):
    """(locals used before being defined in block b, locals defined in b) in statement order"""
    stmts, term, _ = fn.blocks[b]
    use = set(); dfn = set(); mut_refs = set()

    def rd(x):
        tmp = []; _uses(x, tmp)
        for l in tmp:
            if l not in dfn: use.add(l)

    def wr(pl):
        if _is_place(pl):
            if pl[1]: rd(pl)              # a write through a projection reads the base
            else: dfn.add(pl[0])
    for st in stmts:
        k = st[0]
        if k == 'assign':
            rd(st[2]); wr(st[1])
            if isinstance(st[2], tuple) and st[2] and st[2][0] == 'ref' and st[2][2] and _is_place(st[2][1]):
                mut_refs.add(st[2][1][0])          # `&mut local`: whoever gets the reference may change it
        elif k == 'dead': dfn.add(st[1])
        elif k == 'setdiscr': rd(st[1])
        else: rd(st[1:])
    if isinstance(term, tuple):
        if term[0] == 'drop': pass        # dropping reads nothing the lemmas speak about (uninitialised locals are guarded by drop flags)
        elif term[0] == 'call':      # ('call', destination place or None, callee, argument operands, target block)
            rd(term[3])
            if not isinstance(term[2], str): rd(term[2])
            if term[1] is not None: wr(term[1])
        else: rd(term[1:])
    return use, dfn, mut_refs


def loop_carried(fn, info, L):
    """locals that are live at the header of loop L and assigned inside it: the state one iteration hands to the next"""
    blocks = info['loops'][L]
    ud = {b: _block_use_def(fn, b) for b in blocks}
    live_in = {b: set(ud[b][0]) for b in blocks}
    changed = True
    while changed:
        changed = False
        for b in blocks:
            out = set()
            for s_ in info['succ'].get(b, []):
                if s_ in blocks: out |= live_in[s_]
            new = ud[b][0] | (out - ud[b][1])
            if new != live_in[b]: live_in[b] = new; changed = True
    defs = set()
    for b in blocks: defs |= ud[b][1] | ud[b][2]
    # a write through a projection also changes the local
    for b in blocks:
        stmts, term, _ = fn.blocks[b]
        for st in stmts:
            if st[0] == 'assign' and _is_place(st[1]) and st[1][1] and st[1][1][0][0] != 'deref': defs.add(st[1][0])
        if isinstance(term, tuple) and term[0] == 'call' and term[1] is not None and _is_place(term[1]) and term[1][1] and term[1][1][0][0] != 'deref': defs.add(term[1][0])
    carried = live_in[L] & defs
    # memory behind a pointer local that the loop writes through (`(*_p).f = ...`): reported as the negative local number
    for b in blocks:
        stmts, term, _ = fn.blocks[b]
        for st in stmts:
            if st[0] in ('assign', 'setdiscr') and _is_place(st[1]) and st[1][1] and st[1][1][0][0] == 'deref': carried.add(-st[1][0])
    named = set(fn.debug.values())
    # compiler-made drop flags: unnamed bool locals
    return {l for l in carried if not (l >= 0 and l not in named and fn.locals.get(l) == 'bool')}


def _carried_of(frame):
    inv = {v: k for k, v in frame.fn.debug.items()}
    return {l: (inv.get(l, '_%d' % l) if l >= 0 else '*' + inv.get(-l, '_%d' % -l)) for l in loop_carried(frame.fn, frame.info, frame.L)}


LoopFrame.carried = _carried_of


def _require(frame, names, also=()):
    """the lemma quantifies over the locals `names`; every other local that carries state between iterations must be listed in
    `also` (with the reason known to the harness) - otherwise the code has grown state the lemma does not cover"""
    known = {frame.local(n) for n in names} | {frame.fn.debug[n] for n in also if n in frame.fn.debug} | {int(n[1:]) for n in also if n.startswith('_') and n[1:].isdigit()}
    known |= {-frame.fn.debug[n[1:]] for n in also if n.startswith('*') and n[1:] in frame.fn.debug}
    extra = {l: nm for l, nm in frame.carried().items() if l not in known}
    if extra: raise NotRecognised('the loop of %s carries state in %s, which the lemma does not quantify over' % (frame.fn.name, ', '.join(sorted(extra.values()))))


LoopFrame.require = _require
