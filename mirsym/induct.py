"""One-iteration ("inductive step") execution of a loop of a real function.

The engine normally unrolls loops up to a bound. For a loop whose state is a handful of named locals this module instead
  1. runs the function from its entry until the header of the loop is reached for the first time and captures the frame there
     (`capture`), so that drop flags, temporaries and references set up by the prologue are the real ones;
  2. lets the caller overwrite the *named* locals (names come from the MIR `debug` table of the function, i.e. from the source)
     with an arbitrary symbolic loop-head state and executes exactly one iteration of the real MIR (`step`);
  3. runs every way out of the loop on to the function's return (`returns`).
The caller states, as obligations, what one iteration must do from each class of states; composing the lemmas over an input of any
length is an induction argued in DESIGN.md (8.6), not a solver query."""
from .values import *
from .engine import State


class _Captured(Exception):
    pass


class LoopFrame:
    def __init__(s, e, fn, info, L, st, fid):
        s.e = e; s.fn = fn; s.info = info; s.L = L; s.st = st; s.fid = fid

    def local(s, name):
        d = s.fn.debug
        if name not in d: raise NotRecognised('local %r not found in the debug table of %s' % (name, s.fn.name))
        return d[name]

    def get(s, st, name): return st.m.get((s.fid, s.local(name)))

    def state(s, guard=True, **over):
        """a copy of the captured frame with the named locals replaced"""
        st = s.st.copy(); st.g = guard
        for k, v in over.items(): st.m[(s.fid, s.local(k))] = v
        return st

    def step(s, st):
        """one iteration: ({exit block: state}, state at the back edge or None)"""
        s.e.stack.append(s.fn.name)
        try: return s.e.run_region(s.fn, s.info, s.L, st, s.fid)
        finally: s.e.stack.pop()

    def returns(s, exits):
        """[(state, return value)] of every way out of the loop, run to the function's return"""
        out = []
        for tgt, est in exits.items():
            rs, rv = (est, est.m.get((s.fid, 0))) if tgt == 'RET' else s.e.finish_from(s.fn, s.fid, tgt, est)
            if rs is not None: out.append((rs, rv))
        return out


def capture(e, crate, fname, args, st, which=0):
    """run crate::fname(args) until its `which`-th distinct top-level loop header is first reached; returns the LoopFrame"""
    seen = []; cap = {}

    def cb(eng, fn, info, L, st1, fid):
        if L not in seen: seen.append(L)
        if seen.index(L) == which and not cap:
            cap['f'] = LoopFrame(eng, fn, info, L, st1.copy(), fid); raise _Captured()
    key = fname
    fn = e.mir.fns.get((crate, fname))
    if fn is not None: key = fn.name
    e.loop_entry_hooks[key] = cb
    depth = len(e.stack)
    try: e.run(crate, fname, args, st)
    except _Captured: pass
    finally:
        e.loop_entry_hooks.pop(key, None)
        del e.stack[depth:]
    if 'f' not in cap: raise NotRecognised('loop %d of %s was not reached' % (which, fname))
    return cap['f']
