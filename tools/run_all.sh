#!/bin/bash
# tools/run_all.sh [tier] : run every claimed check on the unchanged tree, one after the other (refreshes evidence/)
T=${1:-quick}; cd /verif
git -C /repo status --short | grep -q . && { echo "/repo not clean"; exit 2; }
for P in $(python3 -c "import json;print(' '.join(c['property_id'] for c in json.load(open('MANIFEST.json'))['checks']))"); do
  S=$(date +%s); ./check $P --tier $T > /tmp/runall_$P.log 2>&1; RC=$?
  echo "$P exit=$RC $(( $(date +%s) - S ))s $(grep -c '^KNOWN-FINDING' /tmp/runall_$P.log) known  $(tail -1 /tmp/runall_$P.log | cut -c1-140)"
done
