#!/bin/bash
# tools/store_seed.sh <property> <k> "<what I ran>" : copy a confirmed seed from its worktree into /verif/seeded/<property>-<k>/
P=$1; K=$2; RAN=$3; S=/tmp/wt_$P/_seed; D=/verif/seeded/$P-$K
mkdir -p $D; cp $S/patch$K.diff $D/patch.diff; cp $S/demo$K.rs $D/demo.rs
python3 - <<PY
import json
m=json.load(open('$S/meta$K.json'))
m['confirmed_by_me']='$RAN'
m['base_commit']='6255501 (pinned snapshot, before any fix: commit)'
json.dump(m,open('$D/meta.json','w'),indent=1)
PY
ls $D
