#!/bin/bash
# tools/store_seed.sh <property> <k> "<what I ran>" : copy a confirmed seed from its worktree into /verif/seeded/<property>-<k>/
P=$1; K=$2; RAN=$3; S=/tmp/wt_$P/_seed; D=/verif/seeded/$P-$K
mkdir -p $D; cp $S/patch$K.diff $D/patch.diff; cp $S/demo$K.rs $D/demo.rs
BASE=$(git -C /tmp/wt_$P rev-parse --short HEAD)
python3 - "$S/meta$K.json" "$D/meta.json" "$RAN" "$BASE" <<'PY'
import json, sys
m = json.load(open(sys.argv[1]))
m['confirmed_by_me'] = sys.argv[3]
m['base_commit'] = sys.argv[4] + ' (the /repo commit the scratch worktree was taken from)'
json.dump(m, open(sys.argv[2], 'w'), indent=1)
PY
ls $D | tr '\n' ' '
