#!/bin/bash
# tools/run_seed.sh <seed dir name> <property> [tier] : apply a stored seed to /repo, run the check, undo it straight afterwards
D=/verif/seeded/$1; P=$2; T=${3:-quick}
cd /repo && git status --short | grep -q . && { echo "/repo not clean"; exit 2; }
git apply --3way $D/patch.diff 2>/tmp/apply.err || git apply $D/patch.diff || { echo "patch does not apply to /repo HEAD"; cat /tmp/apply.err; git checkout -q -- .; exit 2; }
git reset -q 2>/dev/null
cd /verif && ./check $P --tier $T > /tmp/seedrun_$1_$P.log 2>&1; RC=$?
git -C /repo checkout -q -- . ; git -C /repo status --short
echo "seed $1 vs $P ($T): exit $RC"; grep -E 'VIOLATION|KNOWN|status=' /tmp/seedrun_$1_$P.log | head -5
