#!/bin/bash
# tools/run_seed.sh <seed dir name> <property> [tier] : apply a stored seed to /repo, run the check, undo it straight afterwards.
# patch.diff is relative to the commit the seed was made on; when a later fix: commit touches the same lines, patch.rebased.diff
# (the same change re-expressed on the fixed tree) is used instead. The evidence file of the property is saved and restored:
# committed evidence must come from runs on the unchanged tree only.
D=/verif/seeded/$1; P=$2; T=${3:-quick}
cd /repo && git status --short | grep -q . && { echo "/repo not clean"; exit 2; }
if git apply --check $D/patch.diff 2>/dev/null; then git apply $D/patch.diff; USED=patch.diff
elif [ -f $D/patch.rebased.diff ] && git apply --check $D/patch.rebased.diff 2>/dev/null; then git apply $D/patch.rebased.diff; USED=patch.rebased.diff
else echo "seed $1: no patch applies to /repo HEAD"; exit 2; fi
cp /verif/evidence/$P.json /tmp/evidence_keep_$P.json 2>/dev/null
cd /verif && ./check $P --tier $T > /tmp/seedrun_$1_$P.log 2>&1; RC=$?
cp /verif/evidence/$P.json /tmp/seed_evidence_$1_$P.json 2>/dev/null
[ -f /tmp/evidence_keep_$P.json ] && mv /tmp/evidence_keep_$P.json /verif/evidence/$P.json
git -C /repo checkout -q -- . ; git -C /repo status --short
echo "seed $1 ($USED) vs $P ($T): exit $RC"; grep -E 'VIOLATION|KNOWN|status=' /tmp/seedrun_$1_$P.log | head -4
