#!/usr/bin/env python3
"""Writes /verif/MANIFEST.json from the table below and validates it against the schema."""
import json, os, sys
HERE = os.path.dirname(os.path.dirname(os.path.abspath(__file__)))

TECH = ('bounded symbolic execution of rustc MIR (state merging) + z3 SMT queries over whole functions and, for loops, over single iterations from '
        'arbitrary loop-head states (inductive step lemmas); native replay of counterexamples')
TRUST = ('rustc nightly MIR faithfully represents the stable build; mirsym MIR parser/executor; std models in mirsym/models.py '
         '(differential-tested by conformance/); z3; the oracle in props/<id>.py')

CLAIMED = {
    'C01': dict(
        text='Bounded model checking of the real parser MIR: for every instruction and every documented rendering whose line fits the bound, '
             'parse_text(rendering) is that instruction (harness A, one solver run per instruction shape); the token scanner round-trips every '
             'argument string up to the token bound at a symbolic offset (B); scripts of n rendered lines give n instructions with line i (C).',
        note='Bounds: quick line<=8 chars / token<=5 / 3 lines; thorough line<=10 / token<=6 / 4 lines. Names <= 2 chars. Outside: longer lines. ' + TRUST,
        ref='4/C01'),
    'C08': dict(
        text='Bounded model checking of parse_text on arbitrary text (no grammar assumed): every panic site and loop bound of the parser is a discharged '
             'obligation; one instruction per line with 1-based numbers; blank/# lines empty; the whole text parses iff every line parses alone, the error '
             'being that of the first malformed line with its number (compositional oracle); ten malformed-line classes give the documented error kind.',
        note='Bounds: quick 1 line<=8 chars, 3 lines x 3 chars; thorough 1 line<=12, 4x3, 2x6. !include_files stubbed (C14). ' + TRUST,
        ref='4/C08'),
}

CLAIMED.update({
    'C02': dict(
        text='Bounded model checking of bind_command_arguments / expand_by_wrapper / reparse_arguments MIR: for every argument template shape of literal, '
             '${name} and \\${name} segments (one solver run per shape, names and values symbolic over all Unicode, symbolic environment of two variables, '
             'symbolic position among neighbours) the command receives exactly one argument equal to the verbatim single-pass substitution; %{name} '
             'yields exactly the space-separated words.',
        note='Bounds: quick all shapes <= 2 segments + 10 seeded 3-segment shapes, names <= 2, values <= 4; thorough all 155 shapes <= 3 segments, values <= 5 (spread binding: <= 4 in both tiers). '
             'Spread values exclude " and #. One open known finding (escaped name containing \\$ \\% ${ %{). ' + TRUST,
        ref='4/C02'),
    'C06': dict(
        text='Bounded model checking of eval_condition_for_slice / is_true / the not command MIR against an and-of-ors stack specification: every well-formed '
             'token sequence (symbolic token kinds, symbolic atoms) within the bound evaluates to the specified value; truthiness table on arbitrary values; '
             'if/elseif/while are checked to call the same evaluator (structural check on the current MIR).',
        note='Bounds: quick <= 8 tokens depth <= 3 atoms <= 5 chars; thorough <= 10 tokens (11 with short atoms). Atom alphabet ASCII + 3 case-less '
             'non-ASCII representatives (to_lowercase model). ' + TRUST,
        ref='4/C06'),
})

CLAIMED.update({
    'C03': dict(
        text='Bounded model checking of the runner MIR (run, create_runtime, run_instructions, run_instruction, update_output, run_on_error_instruction, '
             'bind_command_arguments, Commands lookups) on a symbolic instruction vector with scripted commands returning a fully symbolic CommandResult per '
             'fetch/execute iteration, against the abstract machine of the property in lockstep: invocations (which, arguments, output variable), on_error '
             'arguments, final variables, success/failure with the failing line and source.',
        note='Bounds: quick 3 lines x 5 iterations and 4 x 4; thorough 3x7, 4x6, 5x5. Labels {:a,:b} + undefined target, line jumps 0..n+1, values {0,1,7,v}, '
             'on_error present or not. Programs enter at runner::run (parser half is C01/C08). REPL not covered. ' + TRUST,
        ref='4/C03'),
    'C13': dict(
        text='The C03 harness with Atomic<bool>::load returning a symbolic monotone sequence b_j (one value per poll): every instant at which a command or '
             'another thread can have raised the flag is a flip position. Obligations: no command starts at or after the first poll that saw the flag, the run '
             'returns Ok, and the returned variables are the store of that instant (lockstep abstract machine with the same halt sequence).',
        note='Threads are modelled at the only interaction point (the SeqCst load); real preemption inside a command and weak-memory effects are outside. '
             'Bounds as C03. ' + TRUST,
        ref='4/C13'),
    'C11': dict(
        text='Bounded model checking of the real set/set_by_name/get_by_name/is_defined/get_all_var_names/unset_all_vars/clear_scope/scope_push_stack/'
             'scope_pop_stack run functions, utils::scope::push/pop, types::scope::clear and the state helpers, executed through the real runner: for each '
             'history shape all arguments, --copy lists (undefined and repeated names included), output variables and the initial variable map are symbolic; '
             'final variables equal a map + stack-of-maps specification; every panic site is an obligation.',
        note='Bounds: names {a, ab, s::x}, values {1,2,empty}, quick 132 history shapes of <= 5 ops, thorough 612 of <= 6. unset is represented by its body '
             '(set_by_name); put_handle key is an arbitrary non-live key. ' + TRUST,
        ref='4/C11'),
    'C15': dict(
        text='Bounded model checking of Commands::{new,set,get,exists,get_for_use,remove,get_all_command_names} MIR on histories from new(): op kinds '
             'case-split, all names / alias lists / lookup keys symbolic over a 3-name universe; after every step both tables equal the name-table + '
             'alias-table specification (refusals leave the state unchanged, no alias dangles), results agree, listing is sorted.',
        note='Bounds: quick all 4-step histories with >= 2 registrations, thorough 5-step + selected 6-step. dyn Command name()/aliases() are harness values. '
             'Script-level alias/unalias/remove_command not yet covered. ' + TRUST,
        ref='4/C15'),
})

CLAIMED.update({
    'C09': dict(
        text='Bounded model checking of the text round trip that if/elseif/while/not/alias share (utils::eval::parse -> parser::parse_text -> '
             'bind_command_arguments -> the command), executed through the real not command with a recording command: outside the open known-finding '
             'classes every argument value reaches the wrapped command unchanged (same count, same strings); each open class is re-asked and printed as '
             'KNOWN-FINDING only while the solver still finds it and it replays natively. A call-graph check on the current MIR ties the other wrappers to the same path.',
        note='Bounds: quick 1 value <= 2 chars (all Unicode) + keyword-looking first value with a second value <= 1 char; thorough 1x3, 2x1, keyword (8 words) + 1. '
             'Six open known-finding classes (line break, #, binding syntax, double quote, trailing Unicode white space, leading =): genuine, recorded, not repaired. ' + TRUST,
        ref='4/C09'),
    'C12': dict(
        text='Bounded model checking, one step per command from an arbitrary handle table: three handles whose stored value has a symbolic kind (all 13 '
             'StateValue variants) and symbolic contents (including values that are themselves handle keys); the real run of 21 Rust-implemented collection '
             'commands + release is executed with symbolic handle / index / value arguments. Obligations: wrong-kind, unknown or released handle -> error (or '
             'false) and every collection unchanged (the restore-on-mismatch arms of mutate_list/map/set); on a match exactly the specified effect; verbatim values.',
        note='Bounds: <= 3 live handles, collections <= 2 elements (items are strings or the numbers range stores), values <= 2 (quick) / 3 (thorough) chars. '
             'Script-implemented commands: see the script:* jobs below; array_concat n/a (too slow). Handle distinctness rests on the RNG (stubbed as an arbitrary non-live key). ' + TRUST,
        ref='4/C12'),
    'C16': dict(
        text='Bounded model checking of the run functions of length, indexof, last_indexof, contains, starts_with, ends_with, equals, is_empty, trim*, '
             'substring (all arities, symbolic numeric arguments) and range with a byte-accurate string model (UTF-8 widths per char), plus the cross-command '
             'relation substring(s,0,indexof(s,t)) + t is a prefix of s. Out-of-domain input must give the error result; every panic site is an obligation.',
        note='Bounds: arguments <= 6 (quick) / 9 (thorough) chars over all Unicode, numeric arguments <= 3 chars, range span <= 4. For one-line wrappers around '
             'std the model and the oracle coincide: plumbing and unit consistency are what is checked. n/a parts: calc, less_than/greater_than beyond plain integer literals (f64), '
             'uppercase/lowercase, concat (script; C19 runs its body), split/replace with an empty pattern. ' + TRUST,
        ref='4/C16'),
})

CLAIMED.update({
    'C05': dict(
        text='Whole runs of generated programs with 1-2 function definitions (scoped or not, optionally self-recursive), calls as statements and with output '
             'variables, returns at any depth inside if / for-in, repeated calls after early returns, through the real runner and the real function / return / end / '
             'scope push-pop / flow-control commands (registry built by executing flowcontrol::load), against a reference interpreter with real call frames: the trace of '
             'executed commands with their argument values and the final caller variables are equal. Control flow is concretised: every assignment of the condition '
             'variables and the array length of each program is executed; the array items are symbolic and decided by the solver.',
        note='Programs: quick 60, thorough 400 (seeded). Open known finding forin-left-by-return (programs with a return inside a for-in are excluded from the main '
             'query and re-confirmed). Left open as in the property: positional variables after unscoped calls; scoped call without value into an already defined '
             'output variable; inside a condition call, output variables of calls that end without a value. Calls in condition position (if [not] f args) are generated '
             'with concrete argument words. The control dimension is enumerated, only the data dimension is solver-decided. ' + TRUST,
        ref='4/C05'),
    'C04': dict(
        text='Layer 1, bounded model checking of the block-boundary discovery (utils::instruction_query::find_commands and create_if/while/forin_meta_info_for_line) '
             'on fully symbolic program structure: an opener followed by symbolic lines, each a symbolic choice among every alias and full-name spelling of every block '
             'keyword (spellings obtained by executing the real name()/aliases()), well-nestedness assumed by a symbolic stack recogniser; the discovered end and the '
             'elseif/else lines equal the stack specification. Layer 2, whole runs of generated well-nested programs (if/elseif/else with value and command conditions, '
             'while, for-in, emit, set; every keyword spelled with a real alias or full name) through the real runner and flow-control commands against a tree-walking '
             'interpreter: equal trace of executed commands with argument values and equal final variables; control flow concretised (every assignment of the condition '
             'variables and array length per program), array items symbolic.',
        note='Bounds: L1 quick opener + 8 lines, nesting <= 3; thorough opener + 11 lines. L2 quick 72 programs, thorough 480 (seeded), while loops <= 2 iterations, '
             'arrays <= 2 items. In L2 only the data dimension is solver-decided; the program and control dimensions are generated / enumerated. ' + TRUST,
        ref='4/C04'),
    'C07': dict(
        text='Every panic site (MIR assert terminators, unwrap/expect, slicing, diverging calls) and every loop / recursion bound of the encoded functions is a discharged '
             'obligation: 64 command run functions with arbitrary argument vectors (0..3 arguments), the parser on arbitrary text, the 21 collection commands on symbolic handle '
             'tables, substring/range, scope push/pop histories and the condition evaluator.',
        note='Reduced scope: commands backed by third-party crates (calc, json, semver, hex, base64 decode, case conversion, hash), fs, net, process, env, time, thread, random, '
             'print/debug and script-implemented commands are not covered; hang-freedom only as unwinding obligations of the encoded loops; range spans <= 4. ' + TRUST,
        ref='4/C07'),
    'C10': dict(
        text='Bounded model checking of the error protocol through the real runner with the real on_error, exit_on_error, get_last_error, get_last_error_line, '
             'get_last_error_source and trigger_error run functions plus a failing harness command: per program shape all output variables, source lines/files, messages and '
             'exit_on_error spellings are symbolic; output variable false, last-error triple of the latest error, continuation, and the fatal path (message + failing line and '
             'source) equal the protocol specification.',
        note='Bounds: quick 40 program shapes of <= 4 instructions, thorough 170 of <= 5. Top-level programs only (errors inside functions, loops, script-implemented commands '
             'and included files are not covered); assert_error/set_error not covered. ' + TRUST,
        ref='4/C10'),
})

CLAIMED.update({
    'C14': dict(
        text='Bounded model checking of parse_file / parse_text_with_source_file / parse_lines / preprocessor::run / include_files_preprocessor::run with the '
             'file system stubbed by a symbolic immutable file table: for 8 include-tree shapes (case split) every non-directive line of every file is symbolic '
             '(arbitrary, possibly malformed); the resulting instruction list is exactly the pasted sequence, every instruction equals its line parsed alone and '
             'carries its own file and 1-based line, a missing file gives ErrorReadingFile(path), a malformed included line gives its kind with that file and line.',
        note='Stubs (part of the claim): read_text_file = table look-up; canonicalize = Err or lexical normal form (both explored); Path ops lexical. Free lines '
             '<= 4 (quick) / 7 (thorough) chars. "Behaves like the pasted script" follows by composition with C03. Outside: real file systems, symlinks, cycles. ' + TRUST,
        ref='4/C14'),
})

CLAIMED.update({
    'C19': dict(
        text='Bounded model checking of the wrapper mechanism of script-implemented commands (types::command::AliasCommand::run, types::scope::clear / '
             'set_line_context_name, put_handle / get_handles_sub_state) with the script body replaced by a havoc stub constrained by the wrapper contract (it may '
             'add, change or remove any variable under the scope prefix and return any result): after run, for every result kind, the caller variables are exactly '
             'as before, no scope::<cmd>:: variable and no published argument remains, and the handle table is exactly as before (temporary argument array released).',
        note='The wrapper jobs cover every body abstractly; 11 of the 21 real script.ds bodies are also run for real (body:* jobs, below); the other 10 call commands '
             'backed by the file system, network, processes or hashing crates (array_concat: too slow). 0..3 arguments, 3 caller variables incl. near-miss prefixes, 0..2 handles. ' + TRUST,
        ref='4/C19'),
    'C20': dict(
        text='Bounded model checking of the CLI MIR (main, run_cli, run_script, linter::lint_file / lint_instructions / lint_instruction / is_lower_case) with the '
             'library calls stubbed by symbolic outcomes (any ScriptError kind, runtime messages incl. exit codes) and exit/println logged: OS exit status (low 8 bits) '
             'non-zero with an Error: line exactly when the library failed; -e/--eval pass text, otherwise file; -l/--lint only parses; lint accepts exactly when the '
             'file parses and every label, command and output is unchanged by lower-casing.',
        note='Reduced scope: the process boundary (real exit status / stdout of the built binary and agreement with a real library run) is exercised only by the native '
             'replay of counterexamples against the real duck binary. argv <= 2 arguments; lint <= 2/3 instructions, names <= 3/5 chars, ASCII + 2 case-less chars. ' + TRUST,
        ref='4/C20'),
})

# lemma jobs added in round 2 (DESIGN.md 8.6-8.10): per-iteration / per-operation steps decided from an arbitrary state
LEMMAS = {
    'C01': 'Also: per-iteration lemmas of the token scanner (argument, name and first-token configurations), of the argument-list loop, find_label, '
           'find_output_and_command, parse_command_line and parse_line from arbitrary loop-head states with callees as arbitrary results; their composition over '
           'a line of any length is an induction argued in DESIGN.md 8.6 (capacity: buffer 24/64, accumulated text 12/32).',
    'C08': 'Also: per-iteration lemmas for the error returns of the token scanner (kind and line of the caller), find_label (EmptyLabel), the line structure '
           'functions and the line loop parse_lines (one instruction per line, line number k+1, errors passed on) from arbitrary states (DESIGN.md 8.6); '
           'a directive line whose pre-processor (stub) adds 0..2 arbitrary instructions, followed by two arbitrary lines: every instruction carries its own line number.',
    'C02': 'Also: per-character lemmas of expand_by_wrapper (phases between segments / after $ or % / inside {name / after backslash / end, single and spread), '
           'the re-split configuration of the scanner and the word-list loop, from arbitrary states: templates, names and values of any length up to the '
           'capacity 24/64 (DESIGN.md 8.6).',
    'C03': 'Also: one fetch/execute iteration of run_instructions from an arbitrary state (instruction index, variables, label table, shared state; callees as '
           'arbitrary results), run_instruction, run_on_error_instruction and the label-table loop of create_runtime as lemmas: programs and runs of any length by '
           'induction over the iterations (DESIGN.md 8.7).',
    'C13': 'Also: the step lemma of run_instructions with the halt flag as a monotone function of time sampled by the loads (DESIGN.md 8.7); Env::new / '
           'create_runtime keep the very halt flag the embedder passed (pointer identity) for every combination of writers.',
    'C04': 'Also: if, elseif and else as single steps from an arbitrary call-info stack with block boundaries and condition value as arbitrary results: a branch '
           'runs iff no earlier one ran and its condition holds, the condition is not evaluated once a branch ran, a skipped branch jumps to the next branch line or '
           'behind the end; while / end_while and for / end_for (pass k binds element k) likewise, with entries of another line context (the body of a script-implemented '
           'command) allowed on the same line numbers (DESIGN.md 8.20).',
    'C05': 'Also: call, return and end of a function as single steps from an arbitrary call stack (entries pushed by the real push_to_call_stack from symbolic '
           'values), arbitrary variables and scope stack: recursion of any depth and call sequences of any length by induction (DESIGN.md 8.18).',
    'C06': 'Also: per-token lemmas of eval_condition_for_slice from an arbitrary evaluator state (START / AT / AND / OR / GROUP(k)) with the recursive group '
           'evaluation as an arbitrary result: statements of any length and nesting depth by induction (DESIGN.md 8.8).',
    'C11': 'Also: every operation kind once from an arbitrary variable map and an arbitrary scope stack of depth 0-2, stack compared entry by entry afterwards '
           '(histories of any length by induction, DESIGN.md 8.9).',
    'C15': 'Also: set / remove / lookups once from an arbitrary registry over the universe satisfying the stated invariant, invariant re-established (DESIGN.md 8.9).',
    'C09': 'Also: lemmas for the re-serialiser utils::eval::parse (one argument-loop iteration from an arbitrary buffer; post-processing; the text of a value is its '
           'rendering with only the backslash escaped) + the scanner and argument-list lemmas that read that text back: values of any length outside the listed classes '
           '(DESIGN.md 8.19).',
    'C10': 'Also: every operation once from an arbitrary error-protocol state with the state compared field by field afterwards, and the error-related '
           'obligations of the runner step lemma (DESIGN.md 8.7, 8.9); positions: every instruction of a text carries the number of its own line, also behind a '
           'directive that added instructions (job shared with C08).',
    'C14': 'Also: lemmas for the include argument loop (25 includer/path pairs, arbitrary collected list and parse_file result), directive dispatch, parse_file, '
           'parse_text_with_source_file and parse_lines: include trees of any shape by induction on depth (DESIGN.md 8.10).',
    'C19': 'Also: the REAL bodies (script.ds as compiled into the MIR constants of the current tree) of unset, concat, map_contains_key, array_is_empty, set_is_empty, '
           'map_is_empty, set_from_array, array_join, array_contains, map_contains_value run through the real AliasCommand::run, eval_instructions (explored per script '
           'line), runner::run_instruction and the real commands their bodies use, with symbolic arguments, caller variables (incl. near-miss prefixes) and collections '
           '(sizes and values used in condition position enumerated for the last four; calc stubbed as integer +/-).',
    'C12': 'Also: the creating commands array, map, set_new, map_keys, set_to_array from a symbolic handle table: the result is a handle that was not live, every '
           'live handle is unchanged, exactly one handle is added, the new collection holds exactly what the model says. The script-implemented commands array_join, '
           'array_contains, map_contains_value, map_contains_key, set_from_array and *_is_empty: their REAL script.ds bodies run through AliasCommand::run and the real '
           'commands they call, output compared with the reference collection (sizes enumerated, contents symbolic; array_join separator from a panel of concrete '
           'separators; calc stubbed as integer +/-).',
    'C07': 'Also: utils::eval::parse (the re-serialiser behind eval, alias commands and command conditions) on an arbitrary argument vector: no panic site reachable.',
    'C16': 'Also: less_than / greater_than on plain integer literals (partial f64 model: integer literals exact, strings with a character no number literal has '
           'are errors; fractions, exponents, inf, nan outside); split and replace with a non-empty symbolic pattern (the pieces joined by the separator give back '
           'the text, no piece contains the separator, replace = pieces joined by the replacement).',
}
for _k, _t in LEMMAS.items():
    CLAIMED[_k]['text'] += ' ' + _t
    CLAIMED[_k]['note'] += (' Lemma jobs: the induction composing the decided steps is argued, not decided; a lemma job whose loop carries state it does not '
                             'quantify over, or whose counterexample is not confirmed natively, reports itself as skipped and the bounded jobs decide alone.')

NOT_APPLICABLE = {
    'C17': 'round-trips live in third-party crates (base64, serde_json, java-properties, std fmt/from_str_radix) that are not in the encoded MIR; '
           'modelling them by specification would make decode(encode(x))=x true by construction (DESIGN.md section 5)',
    'C18': 'every step is a syscall through std::fs/fs_extra/fsio; there is no in-repo logic to execute symbolically and a stubbed file system would be '
           'checked against itself (DESIGN.md section 5)',
}

PENDING_REASON = 'whole-run check over enumerated program skeletons (DESIGN.md section 4, C04-L2/C05) not built in this revision; not claimed'


def main():
    props = [json.loads(l) for l in open(os.path.join(HERE, 'properties.jsonl'))]
    checks = []; na = []
    for p in props:
        pid = p['id']
        if pid in CLAIMED:
            c = CLAIMED[pid]
            checks.append(dict(property_id=pid, quick_cmd='./check %s --tier quick' % pid, thorough_cmd='./check %s --tier thorough' % pid,
                               evidence_file='evidence/%s.json' % pid, replay_cmd_template='./check %s --replay {path}' % pid, engine='mirsym',
                               level_claimed=dict(category='model_checking', text=c['text'], design_ref=c['ref']), level_note=c['note'], technique=TECH))
        else:
            na.append(dict(property_id=pid, reason=NOT_APPLICABLE.get(pid, PENDING_REASON)))
    man = dict(version=1, setup_cmd='./setup.sh',
               hooks=dict(guard='duckscript_verif', enable='none needed: MIR contains private functions and replay uses the public API',
                          baseline_off_cmd='cd /repo && cargo test --workspace --no-fail-fast --offline', source_commits=[], add_only=True),
               engines=[dict(name='mirsym', path='mirsym/', serves_properties=sorted(CLAIMED),
                             kind_free_text='bounded symbolic executor for rustc MIR text with state merging, guard literals and z3; regenerated from /repo on every run')],
               checks=checks, not_applicable=na,
               notes='exit 0 = all obligations unsat within the stated bounds; exit 1 = VIOLATION replayed natively; exit 2 = inconclusive (unmodelled callee, bound too small, solver unknown, non-reproducing counterexample)')
    json.dump(man, open(os.path.join(HERE, 'MANIFEST.json'), 'w'), indent=1)
    try:
        import jsonschema
        jsonschema.validate(man, json.load(open('/root/.vp/MANIFEST.schema.json')))
        print('MANIFEST.json valid: %d checks, %d not_applicable' % (len(checks), len(na)))
    except ImportError:
        print('written (jsonschema not available for validation)')


if __name__ == '__main__':
    main()
