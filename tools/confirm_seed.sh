#!/bin/bash
# tools/confirm_seed.sh <property> <k> : re-confirm a sub-agent's seeded change in its scratch worktree
# (existing tests pass with the patch, demo fails with it and passes without), then store it under seeded/.
P=$1; K=$2; WT=/tmp/wt_$P; S=$WT/_seed
set -u
cd $WT || exit 2
git checkout -q -- . ; git clean -fdq -e _seed -e target
DEMOCMD=$(python3 -c "import json;print(json.load(open('$S/meta$K.json'))['demo'])")
CRATE=$(echo "$DEMOCMD" | grep -oE 'cargo test.* -p [a-z_]+' | grep -oE '\-p [a-z_]+' | tail -1 | cut -d' ' -f2); [ -z "$CRATE" ] && CRATE=duckscript
DIR=$CRATE; [ $CRATE = duckscriptsdk ] && DIR=duckscript_sdk
mkdir -p $DIR/tests; cp $S/demo$K.rs $DIR/tests/seed_demo$K.rs
echo "== demo WITHOUT patch"; cargo test --offline -p $CRATE --test seed_demo$K 2>&1 | grep -E '^test result|panicked|error' | head -5; R0=${PIPESTATUS[0]}
git apply $S/patch$K.diff || { echo "patch does not apply"; exit 2; }
echo "== demo WITH patch"; cargo test --offline -p $CRATE --test seed_demo$K 2>&1 | grep -E '^test result|error\[' | head -5
rm -f $DIR/tests/seed_demo$K.rs; rmdir $DIR/tests 2>/dev/null
rm -rf duckscript_sdk/target/_duckscript
echo "== existing suite WITH patch"; cargo test --workspace --offline --no-fail-fast 2>&1 | grep -E '^test result|^    (sdk|utils|types|parser|runner|expansion)' | sort | uniq -c | head -30
git checkout -q -- . ; git clean -fdq -e _seed -e target
