#!/bin/bash
# tools/run_seed_wt.sh <seed dir name> <property> [tier] : like run_seed.sh but in a scratch worktree of /repo (VERIF_REPO), so that /repo
# and the committed evidence are never touched and several seeds can be run while other work goes on.
S=$1; P=$2; T=${3:-quick}; WT=/tmp/repo_seed_$$; EV=/tmp/evid_seed_wt
git -C /repo worktree add --detach $WT HEAD -q || exit 2
mkdir -p $EV
D=/verif/seeded/$S
if git -C $WT apply --check $D/patch.diff 2>/dev/null; then git -C $WT apply $D/patch.diff
elif [ -f $D/patch.rebased.diff ] && git -C $WT apply --check $D/patch.rebased.diff 2>/dev/null; then git -C $WT apply $D/patch.rebased.diff
else echo "seed $S: no patch applies"; git -C /repo worktree remove --force $WT; exit 2; fi
cd /verif && VERIF_REPO=$WT VERIF_CACHE=/root/.cache/duckverif_seedwt VERIF_EVIDENCE_DIR=$EV ./check $P --tier $T > $EV/$S.log 2>&1; RC=$?
git -C /repo worktree remove --force $WT
echo "seed $S vs $P ($T): exit $RC"; grep -E 'VIOLATION|KNOWN|status=' $EV/$S.log | head -4
