//! Native replay of solver counterexamples through the public API of the real build.
//! Reads one JSON case on stdin, prints one JSON outcome line on stdout.
use duckscript::types::command::{Command, CommandInvocationContext, CommandResult, Commands, GoToValue};
use duckscript::types::error::ScriptError;
use duckscript::types::instruction::{Instruction, InstructionType};
use duckscript::types::runtime::Context;
use duckscript::{parser, runner};
use serde_json::{json, Value};
use std::cell::RefCell;
use std::io::Read;
use std::rc::Rc;

fn meta_json(meta: &duckscript::types::instruction::InstructionMetaInfo) -> Value {
    json!({"line": meta.line, "source": meta.source})
}

fn error_json(error: &ScriptError) -> Value {
    let (kind, meta, msg) = match error {
        ScriptError::ErrorReadingFile(f, _) => ("ErrorReadingFile", None, Some(f.clone())),
        ScriptError::Initialization(m) => ("Initialization", None, Some(m.clone())),
        ScriptError::Runtime(m, meta) => ("Runtime", meta.clone(), Some(m.clone())),
        ScriptError::PreProcessNoCommandFound(m) => ("PreProcessNoCommandFound", Some(m.clone()), None),
        ScriptError::ControlWithoutValidValue(m) => ("ControlWithoutValidValue", Some(m.clone()), None),
        ScriptError::InvalidControlLocation(m) => ("InvalidControlLocation", Some(m.clone()), None),
        ScriptError::MissingEndQuotes(m) => ("MissingEndQuotes", Some(m.clone()), None),
        ScriptError::MissingOutputVariableName(m) => ("MissingOutputVariableName", Some(m.clone()), None),
        ScriptError::InvalidEqualsLocation(m) => ("InvalidEqualsLocation", Some(m.clone()), None),
        ScriptError::InvalidQuotesLocation(m) => ("InvalidQuotesLocation", Some(m.clone()), None),
        ScriptError::EmptyLabel(m) => ("EmptyLabel", Some(m.clone()), None),
        ScriptError::UnknownPreProcessorCommand(m) => ("UnknownPreProcessorCommand", Some(m.clone()), None),
    };
    json!({"kind": kind, "line": meta.as_ref().and_then(|m| m.line), "source": meta.as_ref().and_then(|m| m.source.clone()), "message": msg})
}

fn instruction_json(instruction: &Instruction) -> Value {
    let mut v = meta_json(&instruction.meta_info);
    match &instruction.instruction_type {
        InstructionType::Empty => {
            v["type"] = json!("empty");
        }
        InstructionType::PreProcess(p) => {
            v["type"] = json!("preprocess");
            v["command"] = json!(p.command);
            v["arguments"] = json!(p.arguments);
        }
        InstructionType::Script(s) => {
            v["type"] = json!("script");
            v["label"] = json!(s.label);
            v["output"] = json!(s.output);
            v["command"] = json!(s.command);
            v["arguments"] = json!(s.arguments);
        }
    }
    v
}

fn mode_parse(case: &Value) -> Value {
    let text = case["text"].as_str().unwrap_or("");
    let result = match case["source"].as_str() {
        Some(src) => parser::parse_text_with_source_file(text, src),
        None => parser::parse_text(text),
    };
    match result {
        Ok(instructions) => json!({"ok": true, "instructions": instructions.iter().map(instruction_json).collect::<Vec<Value>>()}),
        Err(error) => json!({"ok": false, "error": error_json(&error)}),
    }
}

fn mode_parse_file(case: &Value) -> Value {
    // files: {path: content} written under a fresh temp dir; entry: relative path of the root file
    let dir = std::env::temp_dir().join(format!("duckverif_replay_{}", std::process::id()));
    let _ = std::fs::remove_dir_all(&dir);
    std::fs::create_dir_all(&dir).unwrap();
    if let Some(files) = case["files"].as_object() {
        for (p, c) in files {
            let full = dir.join(p);
            if let Some(parent) = full.parent() {
                std::fs::create_dir_all(parent).unwrap();
            }
            std::fs::write(&full, c.as_str().unwrap_or("")).unwrap();
        }
    }
    let entry = dir.join(case["entry"].as_str().unwrap());
    let prefix = format!("{}/", dir.to_string_lossy());
    let strip = |s: Option<String>| s.map(|x| x.replace(&prefix, ""));
    let out = match parser::parse_file(&entry.to_string_lossy()) {
        Ok(instructions) => {
            let list: Vec<Value> = instructions
                .iter()
                .map(|i| {
                    let mut v = instruction_json(i);
                    v["source"] = json!(strip(i.meta_info.source.clone()));
                    v
                })
                .collect();
            json!({"ok": true, "instructions": list})
        }
        Err(error) => {
            let mut e = error_json(&error);
            e["source"] = json!(strip(e["source"].as_str().map(|s| s.to_string())));
            e["message"] = json!(strip(e["message"].as_str().map(|s| s.to_string())));
            json!({"ok": false, "error": e})
        }
    };
    let _ = std::fs::remove_dir_all(&dir);
    out
}

/// run a script with the SDK loaded; variables are preset from the case, so argument values can be passed
/// verbatim as ${name} without going through the parser's escaping rules.
fn mode_sdk(case: &Value) -> Value {
    let mut context = Context::new();
    if let Err(error) = duckscriptsdk::load(&mut context.commands) {
        return json!({"ok": false, "error": error_json(&error)});
    }
    if let Some(vars) = case["vars"].as_object() {
        for (k, v) in vars {
            context.variables.insert(k.clone(), v.as_str().unwrap_or("").to_string());
        }
    }
    let script = case["script"].as_str().unwrap_or("");
    match runner::run_script(script, context, None) {
        Ok(context) => {
            let mut vars = serde_json::Map::new();
            for (k, v) in &context.variables {
                vars.insert(k.clone(), json!(v));
            }
            let handles = match context.state.get("handles") {
                Some(duckscript::types::runtime::StateValue::SubState(m)) => m.len(),
                _ => 0,
            };
            json!({"ok": true, "vars": vars, "handles": handles, "state_keys": context.state.keys().cloned().collect::<Vec<String>>()})
        }
        Err(error) => json!({"ok": false, "error": error_json(&error)}),
    }
}

#[derive(Clone)]
struct Scripted {
    name: String,
    log: Rc<RefCell<Vec<Value>>>,
    results: Rc<RefCell<Vec<Value>>>,
}

fn result_from(v: &Value) -> CommandResult {
    let out = v["output"].as_str().map(|s| s.to_string());
    match v["kind"].as_str().unwrap_or("continue") {
        "continue" => CommandResult::Continue(out),
        "goto_label" => CommandResult::GoTo(out, GoToValue::Label(v["label"].as_str().unwrap_or("").to_string())),
        "goto_line" => CommandResult::GoTo(out, GoToValue::Line(v["line"].as_u64().unwrap_or(0) as usize)),
        "error" => CommandResult::Error(v["message"].as_str().unwrap_or("").to_string()),
        "crash" => CommandResult::Crash(v["message"].as_str().unwrap_or("").to_string()),
        "exit" => CommandResult::Exit(out),
        _ => CommandResult::Continue(None),
    }
}

impl Command for Scripted {
    fn name(&self) -> String {
        self.name.clone()
    }
    fn clone_and_box(&self) -> Box<dyn Command> {
        Box::new(self.clone())
    }
    fn run(&self, context: CommandInvocationContext) -> CommandResult {
        self.log.borrow_mut().push(json!({"command": self.name, "line": context.line, "arguments": context.arguments,
            "output_variable": context.output_variable}));
        let mut results = self.results.borrow_mut();
        if results.is_empty() {
            // out of script: halt the run so that bounded replays terminate
            context.env.halt.store(true, std::sync::atomic::Ordering::SeqCst);
            return CommandResult::Continue(None);
        }
        let v = results.remove(0);
        if v["halt"].as_bool().unwrap_or(false) {
            context.env.halt.store(true, std::sync::atomic::Ordering::SeqCst);
        }
        result_from(&v)
    }
}

/// run a script text whose commands are scripted: each invocation logs its arguments and returns the next
/// scripted result. `commands`: names to register; `on_error_results`: optional own queue for on_error.
fn mode_scripted(case: &Value) -> Value {
    let mut context = Context::new();
    let log = Rc::new(RefCell::new(vec![]));
    let results = Rc::new(RefCell::new(case["results"].as_array().cloned().unwrap_or_default()));
    let mut commands = Commands::new();
    for name in case["commands"].as_array().cloned().unwrap_or_default() {
        let n = name.as_str().unwrap().to_string();
        let r = if n == "on_error" && case["on_error_results"].is_array() {
            Rc::new(RefCell::new(case["on_error_results"].as_array().cloned().unwrap()))
        } else {
            results.clone()
        };
        commands.set(Box::new(Scripted { name: n, log: log.clone(), results: r })).unwrap();
    }
    context.commands = commands;
    if let Some(vars) = case["vars"].as_object() {
        for (k, v) in vars {
            context.variables.insert(k.clone(), v.as_str().unwrap_or("").to_string());
        }
    }
    let script = case["script"].as_str().unwrap_or("");
    let outcome = match case["source"].as_str() {
        Some(_) => runner::run_script(script, context, None),
        None => runner::run_script(script, context, None),
    };
    let logv = log.borrow().clone();
    match outcome {
        Ok(context) => {
            let mut vars = serde_json::Map::new();
            for (k, v) in &context.variables {
                vars.insert(k.clone(), json!(v));
            }
            json!({"ok": true, "vars": vars, "log": logv})
        }
        Err(error) => json!({"ok": false, "error": error_json(&error), "log": logv}),
    }
}

#[derive(Clone)]
struct Recorder {
    name: String,
    log: Rc<RefCell<Vec<Value>>>,
    output: Option<String>,
}

impl Command for Recorder {
    fn name(&self) -> String {
        self.name.clone()
    }
    fn clone_and_box(&self) -> Box<dyn Command> {
        Box::new(self.clone())
    }
    fn run(&self, context: CommandInvocationContext) -> CommandResult {
        self.log.borrow_mut().push(json!({"command": self.name, "arguments": context.arguments}));
        if self.output.as_deref() == Some("@arg1") {
            return CommandResult::Continue(context.arguments.get(1).cloned());
        }
        CommandResult::Continue(self.output.clone())
    }
}

/// the SDK plus recording commands (default: one named "c" returning "true")
fn mode_scripted_sdk(case: &Value) -> Value {
    let mut context = Context::new();
    if let Err(error) = duckscriptsdk::load(&mut context.commands) {
        return json!({"ok": false, "error": error_json(&error)});
    }
    let log = Rc::new(RefCell::new(vec![]));
    let names = case["recorders"].as_array().cloned().unwrap_or(vec![json!("c")]);
    for n in names {
        let out = case["recorder_output"].as_str().unwrap_or("true").to_string();
        let out = if out.is_empty() { None } else { Some(out) };
        context.commands.set(Box::new(Recorder { name: n.as_str().unwrap().to_string(), log: log.clone(), output: out })).unwrap();
    }
    // probes: record their arguments and return their second argument
    for n in case["probes"].as_array().cloned().unwrap_or_default() {
        context.commands.set(Box::new(Recorder { name: n.as_str().unwrap().to_string(), log: log.clone(), output: Some("@arg1".to_string()) })).unwrap();
    }
    // commands that fail with the next message of a queue
    let fail_queue = Rc::new(RefCell::new(
        case["fail_messages"].as_array().cloned().unwrap_or_default().iter().map(|m| json!({"kind": "error", "message": m})).collect::<Vec<Value>>(),
    ));
    for n in case["failers"].as_array().cloned().unwrap_or_default() {
        context.commands.set(Box::new(Scripted { name: n.as_str().unwrap().to_string(), log: log.clone(), results: fail_queue.clone() })).unwrap();
    }
    if let Some(vars) = case["vars"].as_object() {
        for (k, v) in vars {
            context.variables.insert(k.clone(), v.as_str().unwrap_or("").to_string());
        }
    }
    // optional include files: written under a scratch directory, @DIR@ in the script is replaced by its path
    let dir = std::env::temp_dir().join(format!("duckverif_replay_inc_{}", std::process::id()));
    let dir_s = dir.to_string_lossy().to_string();
    let mut script = case["script"].as_str().unwrap_or("").to_string();
    if let Some(files) = case["files"].as_object() {
        let _ = std::fs::remove_dir_all(&dir);
        std::fs::create_dir_all(&dir).unwrap();
        for (p, c) in files {
            std::fs::write(dir.join(p), c.as_str().unwrap_or("").replace("@DIR@", &dir_s)).unwrap();
        }
        script = script.replace("@DIR@", &dir_s);
    }
    let outcome = match case["entry"].as_str() {
        Some(entry) => runner::run_script_file(&dir.join(entry).to_string_lossy(), context, None),
        None => runner::run_script(&script, context, None),
    };
    let _ = std::fs::remove_dir_all(&dir);
    let logv = log.borrow().clone();
    let strip = |s: &str| s.replace(&format!("{}/", dir_s), "");
    match outcome {
        Ok(context) => {
            let mut vars = serde_json::Map::new();
            for (k, v) in &context.variables {
                vars.insert(k.clone(), json!(strip(v)));
            }
            json!({"ok": true, "vars": vars, "log": logv})
        }
        Err(error) => {
            let mut e = error_json(&error);
            e["source"] = json!(e["source"].as_str().map(|x| strip(x)));
            json!({"ok": false, "error": e, "log": logv})
        }
    }
}

#[derive(Clone)]
struct Named {
    name: String,
    aliases: Vec<String>,
}

impl Command for Named {
    fn name(&self) -> String {
        self.name.clone()
    }
    fn aliases(&self) -> Vec<String> {
        self.aliases.clone()
    }
    fn clone_and_box(&self) -> Box<dyn Command> {
        Box::new(self.clone())
    }
}

/// the halt flag handed to Env::new is the one the runner polls: for every combination of writers, raise the caller's flag before
/// the run and count how many instructions start
fn mode_env_wiring(_case: &Value) -> Value {
    use duckscript::types::env::Env;
    use std::sync::atomic::{AtomicBool, Ordering};
    use std::sync::Arc;
    let mut out = vec![];
    for (with_out, with_err) in [(false, false), (true, false), (false, true), (true, true)] {
        let flag = Arc::new(AtomicBool::new(false));
        let o: Option<Box<dyn std::io::Write>> = if with_out { Some(Box::new(std::io::sink())) } else { None };
        let e: Option<Box<dyn std::io::Write>> = if with_err { Some(Box::new(std::io::sink())) } else { None };
        let env = Env::new(o, e, Some(flag.clone()));
        let same = Arc::ptr_eq(&env.halt, &flag);
        let mut context = Context::new();
        let log = Rc::new(RefCell::new(vec![]));
        let _ = context.commands.set(Box::new(Scripted { name: "c".to_string(), log: log.clone(), results: Rc::new(RefCell::new(vec![])) }));
        flag.store(true, Ordering::SeqCst);
        let ok = runner::run_script("c\nc\nc", context, Some(env)).is_ok();
        out.push(json!({"out": with_out, "err": with_err, "same_flag": same, "ok": ok, "started": log.borrow().len()}));
    }
    json!({"ok": true, "cases": out})
}

/// registry histories through the public Commands API
fn mode_registry(case: &Value) -> Value {
    let mut commands = Commands::new();
    let mut results = vec![];
    for op in case["ops"].as_array().cloned().unwrap_or_default() {
        let kind = op[0].as_str().unwrap_or("");
        let x = op[1].as_str().unwrap_or("").to_string();
        match kind {
            "set" => {
                let aliases = op[2].as_array().cloned().unwrap_or_default().iter().map(|a| a.as_str().unwrap().to_string()).collect();
                results.push(json!(commands.set(Box::new(Named { name: x, aliases })).is_ok()));
            }
            "remove" => results.push(json!(commands.remove(&x))),
            _ => results.push(json!(commands.get(&x).map(|c| c.name()))),
        }
    }
    let mut probe = serde_json::Map::new();
    for u in case["universe"].as_array().cloned().unwrap_or_default() {
        let u = u.as_str().unwrap().to_string();
        let got = commands.get(&u).map(|c| c.name());
        let exists = commands.exists(&u);
        let for_use = commands.get_for_use(&u).map(|c| c.name());
        if exists != got.is_some() || for_use != got {
            probe.insert(u, json!("INCONSISTENT"));
        } else {
            probe.insert(u, json!(got));
        }
    }
    let mut alias_table = serde_json::Map::new();
    for (k, v) in &commands.aliases {
        alias_table.insert(k.clone(), json!(v));
    }
    json!({"results": results, "probe": probe, "names": commands.get_all_command_names(), "aliases": alias_table})
}

fn main() {
    let mut input = String::new();
    std::io::stdin().read_to_string(&mut input).unwrap();
    let case: Value = serde_json::from_str(&input).expect("case json");
    let mode = case["mode"].as_str().unwrap_or("parse").to_string();
    if mode == "batch" {
        // many cases in one process; a panic in one case is reported for that case only
        std::panic::set_hook(Box::new(|_| {}));
        let mut out = vec![];
        for c in case["cases"].as_array().cloned().unwrap_or_default() {
            let m = c["mode"].as_str().unwrap_or("parse").to_string();
            let r = std::panic::catch_unwind(|| match m.as_str() {
                "parse" => mode_parse(&c),
                "sdk" => mode_sdk(&c),
                "scripted" => mode_scripted(&c),
                "registry" => mode_registry(&c),
                "scripted_sdk" => mode_scripted_sdk(&c),
                _ => json!({"error": "unknown mode"}),
            });
            out.push(r.unwrap_or(json!({"panic": true})));
        }
        println!("{}", json!({"results": out}));
        return;
    }
    let result = std::panic::catch_unwind(|| match mode.as_str() {
        "parse" => mode_parse(&case),
        "parse_file" => mode_parse_file(&case),
        "sdk" => mode_sdk(&case),
        "scripted" => mode_scripted(&case),
        "registry" => mode_registry(&case),
        "env_wiring" => mode_env_wiring(&case),
        "scripted_sdk" => mode_scripted_sdk(&case),
        _ => json!({"error": "unknown mode"}),
    });
    match result {
        Ok(v) => println!("{}", v),
        Err(_) => {
            println!("{}", json!({"panic": true}));
            std::process::exit(101);
        }
    }
}
