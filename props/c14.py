"""C14 - including files is equivalent to pasting them in place, with provenance kept (file system stubbed)."""
import time, posixpath
import z3
from mirsym import harness as H, solve
from mirsym.values import *
from mirsym.engine import State, Obligation, some, none, ok, err, OPTION, RESULT
from mirsym.harness import process_failed, witness, discharge_known
from mirsym.models import str_push
from .common import *

PID = 'C14'
# include trees: file -> list of entries; an entry is None (a symbolic free line) or a tuple of included paths (as written)
TREES = {
    'middle': {'d/main.ds': [None, ('a.ds',), None], 'd/a.ds': [None, None]},
    'two+nested': {'d/main.ds': [('a.ds', 'b.ds')], 'd/a.ds': [None], 'd/b.ds': [None, ('e/c.ds',)], 'd/e/c.ds': [None]},
    'twice': {'d/main.ds': [None, ('a.ds', 'a.ds')], 'd/a.ds': [None]},
    'absolute': {'d/main.ds': [('/abs/x.ds',), None], '/abs/x.ds': [None, None]},
    'missing': {'d/main.ds': [None, ('nope.ds',), None]},
    'missing-nested': {'d/main.ds': [None, ('a.ds',), None], 'd/a.ds': [None, ('e/b.ds',)], 'd/e/b.ds': [('gone.ds',), None]},
    'last+up': {'d/main.ds': [None, ('e/c.ds',)], 'd/e/c.ds': [('../a.ds',), None], 'd/a.ds': [None]},
    'first,subdir-then-sibling': {'d/main.ds': [('e/c.ds', 'a.ds'), None], 'd/e/c.ds': [None], 'd/a.ds': [None]},
    'depth3': {'m.ds': [('x/a.ds',), None], 'x/a.ds': [None, ('y/b.ds',)], 'x/y/b.ds': [('c.ds',)], 'x/y/c.ds': [None]},
}
MAIN = {k: list(v)[0] for k, v in TREES.items()}


def norm(p): return posixpath.normpath(p)


def job_tree(ctx, jr, tree, W, canon):
    files = TREES[tree]; main = MAIN[tree]
    jr.bounds = dict(tree=tree, files={k: ['<line>' if x is None else '!include_files ' + ' '.join(x) for x in v] for k, v in files.items()}, free_line_chars=W,
                     canonicalize='succeeds (lexical normal form)' if canon else 'fails (joined path kept)')
    e = ctx.engine(unwind=max(8, W + 20), max_rec=6)
    t0 = time.time()
    # ---- symbolic file contents
    content = {}; lines_of = {}; cons = []
    for path, entries in files.items():
        ls = []
        for i, en in enumerate(entries):
            if en is None:
                l = H.sym_str(e, '%s:%d' % (path, i), W); cons.append(no_char(l, [LF])); ls.append(l)
            else: ls.append(mk_str('!include_files ' + ' '.join(en)))
        text, tc = text_of_lines(e, ls, len(ls), name=path); cons.append(tc)
        content[norm(path)] = text; lines_of[path] = ls
    e.assume(zand(*cons))

    def h_read(eng, st1, a, callee):
        p = str_concrete(a[0] if isinstance(a[0], S) else eng.deref(st1, a[0]))
        if p is None: raise Abort('read_text_file with a symbolic path')
        t = content.get(norm(p))
        return ok(t) if t is not None else err(Opaque('FsIOError'))

    def h_canon(eng, st1, a, callee):
        p = str_concrete(a[0] if isinstance(a[0], S) else eng.deref(st1, a[0]))
        if p is None: raise Abort('canonicalize with a symbolic path')
        return ok(mk_str(norm(p))) if canon else err(Opaque('io::Error'))
    e.hooks['re:fsio::file::read_text_file::<.*>'] = h_read
    e.hooks['std::path::Path::canonicalize'] = h_canon
    rs, rv = e.run('core', 'parser::parse_file', [mk_str(main)], State(True, {}))
    if rs is None: raise Abort('parse_file never returns')
    # ---- every free line parsed alone (with its file as source) gives the reference instruction / error
    def resolve(frm, written):
        if written.startswith('/'): return written
        joined = posixpath.join(posixpath.dirname(frm), written) if posixpath.dirname(frm) else written
        return norm(joined) if canon else joined
    single = {}
    def parse_alone(path_as_seen, path, i):
        key = (path_as_seen, path, i)
        if key not in single:
            l = lines_of[path][i]
            t = S(l.len + 1, str_push(l, LF).ch, ('lines', 1, [l]))
            rs1, rv1 = e.run('core', 'parser::parse_text_with_source_file', [t, mk_str(path_as_seen)], State(rs.g, {}))
            single[key] = rv1
        return single[key]
    # expected flat sequence: (kind, ...) in paste order
    seq = []; missing = []
    def walk(path_as_seen, path):
        if norm(path) not in {norm(k) for k in files}: missing.append(path_as_seen); seq.append(('missing', path_as_seen)); return False
        key = [k for k in files if norm(k) == norm(path)][0]
        for i, en in enumerate(files[key]):
            seq.append(('line', path_as_seen, key, i, en))
            if en is not None:
                for w in en:
                    if not walk(resolve(path_as_seen, w), resolve(path_as_seen, w)): return False
        return True
    walk(main, main)
    jr.symex_time = time.time() - t0
    names = ctx.types.enums['types::error::ScriptError']
    okc = zeq(rv.d, 0); iv = res_instrs(rv); errv = res_err(rv)
    checks = []
    prev_ok = True; pos = 0; first_bad_found = False
    for item in seq:
        if item[0] == 'missing':
            k = names.index('ErrorReadingFile')
            c = zimp(prev_ok, zand(znot(okc), zeq(errv.d, k), str_eq(errv.p[k][0], mk_str(item[1])) if errv is not None and k in errv.p else False))
            checks.append(('a missing file fails the whole parse with its path (%s)' % item[1], c)); prev_ok = False; break
        _, seen, key, i, en = item
        lineno = i + 1
        if en is not None:
            # the directive itself is an instruction of its file
            if pos < len(iv.it):
                ins = iv.it[pos]
                checks.append(('directive instruction of %s line %d keeps its provenance' % (key, lineno), zimp(zand(prev_ok, okc), zand(zeq(instr_type(ins).d, 1), zeq(instr_line(ins).p[1][0], lineno),
                               zeq(instr_source(ins).d, 1), str_eq(instr_source(ins).p[1][0], mk_str(seen))))))
            pos += 1; continue
        r1 = parse_alone(seen, key, i)
        ok1 = zeq(r1.d, 0)
        if pos < len(iv.it) and 0 in r1.p and r1.p[0][0].it:
            ins = iv.it[pos]; ref = r1.p[0][0].it[0]
            checks.append(('instruction %d is %s line %d as parsed alone, with its file and line' % (pos, key, lineno),
                           zimp(zand(prev_ok, okc, ok1), zand(deep_eq(instr_type(ins), instr_type(ref)), zeq(instr_line(ins).d, 1), zeq(instr_line(ins).p[1][0], lineno),
                                                             zeq(instr_source(ins).d, 1), str_eq(instr_source(ins).p[1][0], mk_str(seen))))))
        # first malformed line: error kind, that file's line and source
        e1 = res_err(r1)
        if e1 is not None and errv is not None:
            bad = zand(prev_ok, znot(ok1))
            conds = [znot(okc), zeq(errv.d, e1.d)]
            for k, payload in errv.p.items():
                if names[k] in ('ErrorReadingFile', 'Initialization', 'Runtime'): continue
                meta = payload[0]
                conds.append(zimp(zeq(errv.d, k), zand(zeq(meta.f[0].p[1][0], lineno), zeq(meta.f[1].d, 1), str_eq(meta.f[1].p[1][0], mk_str(seen)))))
            checks.append(('a malformed line in %s fails the parse with its kind, line %d and file' % (key, lineno), zimp(bad, zand(*conds))))
        prev_ok = zand(prev_ok, ok1); pos += 1
    if prev_ok is not False and 'missing' not in [s[0] for s in seq]:
        checks.append(('the parse succeeds iff every line of every included file parses', zeq(okc, prev_ok)))
        checks.append(('the instruction list is exactly the pasted sequence', zimp(okc, zeq(iv.len, pos))))
    for msg, c in checks: e.obligations.append(Obligation(rs.g, c, 'C14 %s: %s' % (tree, msg), 'assert', 'oracle'))

    def extract(m, o=None):
        fs = {p: solve.model_str(m, content[norm(p)]) for p in files}
        return dict(kind='c14', tree=tree, files=fs, entry=main, canon=canon)
    res = discharge_known(e, jr, PID, {}, extract)
    witness(jr, e, 'all lines well formed', zand(rs.g, okc), extract, optional=('missing' in tree))
    H.finish_job(jr, e, res)


# ---------------------------------------------------------------------- native replay: real files vs pasted reference
def replayer(v):
    if v.get('kind') in ('lemma', 'c01_struct'):
        # confirmation of a failed lemma: a panel of include trees with concrete lines, natively parsed and compared with the paste reference
        last = None
        for tree, files in TREES.items():
            if tree == 'absolute': continue
            fc = {}
            for path, entries in files.items():
                fc[path] = '\n'.join(('c%d x "y z"' % i) if en is None else '!include_files ' + ' '.join(en) for i, en in enumerate(entries)) + '\n'
            got = replayer(dict(kind='c14', tree=tree, files=fc, entry=MAIN[tree]))
            if got[0]: v['native_tree'] = tree; return (True, 'include tree %s: %s' % (tree, got[1]))
            if got[0] is False: last = got
        return (False, 'the panel of include trees is parsed as the pasted text natively') if last else (None, 'panel not replayable')
    files = {k.lstrip('/'): c for k, c in v['files'].items()}
    entry = v['entry'].lstrip('/')
    out = H.replay(dict(mode='parse_file', files=files, entry=entry)); v['native'] = out
    if out.get('panic'): return (True, 'native panic')
    if v['tree'] == 'absolute': return (None, 'absolute include paths cannot be replayed inside a scratch directory')
    # reference: paste
    from .c08 import native_lines
    ref = []; err_ref = [None]
    def walk(path):
        if path not in files: err_ref[0] = ('ErrorReadingFile', path); return False
        for i, l in enumerate(native_lines(files[path])):
            if l.strip().startswith('!include_files '):
                # the directive line itself (parsing it natively would execute the include): reference built by hand
                args = l.strip().split()[1:]
                ref.append(dict(line=i + 1, source=path, type='preprocess', command='include_files', arguments=args))
                for w in args:
                    if not walk(w.lstrip('/') if w.startswith('/') else posixpath.normpath(posixpath.join(posixpath.dirname(path), w))): return False
                continue
            single = H.replay(dict(mode='parse', text=l + '\n', source=path))
            if not single.get('ok'): err_ref[0] = (single['error']['kind'], i + 1, path); return False
            ins = single['instructions'][0]; ins['line'] = i + 1; ins['source'] = path; ref.append(ins)
            if ins['type'] == 'preprocess' and ins.get('command') == 'include_files':
                for w in ins.get('arguments') or []:
                    if not walk(posixpath.normpath(posixpath.join(posixpath.dirname(path), w))): return False
        return True
    walk(entry)
    if err_ref[0]:
        if out.get('ok'): return (True, 'native accepted, reference fails with %r' % (err_ref[0],))
        er = out['error']
        if err_ref[0][0] == 'ErrorReadingFile':
            named = posixpath.normpath(er.get('message') or '')
            return (er['kind'] != 'ErrorReadingFile' or named != posixpath.normpath(err_ref[0][1]), 'native %r, reference: unreadable file %r' % (er, err_ref[0][1]))
        return (er['kind'] != err_ref[0][0] or er['line'] != err_ref[0][1] or posixpath.normpath(er['source'] or '') != err_ref[0][2], 'native error %r, reference %r' % (er, err_ref[0]))
    if not out.get('ok'): return (True, 'native failed %r, reference parses' % (out.get('error'),))
    got = out['instructions']
    for g in got: g['source'] = posixpath.normpath(g['source']) if g.get('source') else g.get('source')
    return (got != ref, 'native %d instructions, pasted reference %d' % (len(got), len(ref)))


def main(tier, seed):
    chk = H.Check(PID, tier, seed, crates=('core',))
    chk.replayer = replayer
    W = 4 if tier == 'quick' else 5      # 7 made the 'succeeds iff every line parses' query time out (solver unknown) on every tree
    for t in TREES:
        for canon in (True, False):
            if tier == 'quick' and not canon and t in ('depth3', 'twice', 'absolute'): continue
            chk.job(job_tree, '%s/%s' % (t, 'canon' if canon else 'nocanon'), tree=t, W=W, canon=canon)
    chk.job(job_include_lemmas, 'lemma/include functions')
    from .line_lemmas import job_parse_lines
    chk.job(job_parse_lines, 'lemma/parse_lines', NL=3 if tier == 'quick' else 5, K=3 if tier == 'quick' else 5, part='C14')
    chk.bounds = dict(lemmas='include loop (25 includer/written-path pairs, arbitrary collected list and parse_file result), directive dispatch, parse_file, parse_text_with_source_file, parse_lines (DESIGN.md 8.10)', include_trees=list(TREES), free_line_chars=W, canonicalize='both outcomes')
    chk.assumptions = ['file system stub: fsio::file::read_text_file = look-up in an immutable file table (Err for absent paths); Path::canonicalize = Err or the lexically normalised path; '
                       'PathBuf::from/parent/push/to_string_lossy lexical', 'include trees are case-split (8 shapes: middle, several files, nested dirs, same file twice, absolute, missing, '
                       'last line + parent dir, subdir-then-sibling, depth 3); every non-directive line is symbolic (arbitrary, possibly malformed)',
                       '"behaves like the pasted script" follows from C03 (the runner only sees the instruction list): composition argument, not re-proved here',
                       'outside: real file systems, symlinks, include cycles, non-UTF-8 files']
    results = chk.run()
    return chk.finish(results, 'every obligation is a solver query over all contents of the non-directive lines of an include tree')


# ---------------------------------------------------------------------- lemmas: include trees of any shape, size and depth
def job_include_lemmas(ctx, jr):
    """include = paste, as lemmas about the four functions an include goes through, each with its callees replaced by arbitrary
    results: the argument loop of the include directive (one iteration from an arbitrary list collected so far), the directive
    dispatch, parse_file and parse_text_with_source_file. The line loop itself is the parse_lines lemma (props/line_lemmas.py)."""
    from mirsym import induct
    from .line_lemmas import job_parse_lines
    jr.bounds = dict(includer_source=['none', 'm.ds', 'd/main.ds', '/abs/x.ds', 'd/e/c.ds'], written_path=['a.ds', 'e/c.ds', '../a.ds', '/abs/x.ds', '\\x.ds'],
                     collected_so_far='0..2 arbitrary instructions', included_file='arbitrary result of parse_file (0..2 instructions or an error)', canonicalize='arbitrary result',
                     claim='per-function lemmas; composition over an include tree is an induction on its depth (DESIGN.md 8.10)')
    names = ctx.types.enums['types::error::ScriptError']
    INS = 'types::instruction::Instruction'; IT = 'types::instruction::InstructionType'
    def arb_instrs(e, tag, n=2): return V(e.fresh_int(tag + '.n', 0, n), [T([meta_new(e.fresh_int('%s%d.line' % (tag, i), 1, 99), mk_str('s%d' % i)), E(IT, 0, {0: []})], INS) for i in range(n)])
    ek = names.index('MissingEndQuotes')
    t_all = time.time()
    # ---- 1. the argument loop of !include_files
    for src in (None, 'm.ds', 'd/main.ds', '/abs/x.ds', 'd/e/c.ds'):
        for written in ('a.ds', 'e/c.ds', '../a.ds', '/abs/x.ds', '\\x.ds'):
            e = ctx.engine(unwind=3); t0 = time.time()
            other = e.fresh_int('other_args', 0, 1)          # position of the examined argument among 1..2 arguments
            argv = V(2, [mk_str(written), mk_str(written)])
            meta = meta_new(e.fresh_int('meta.line', 1, 99), mk_str(src) if src is not None else None)
            canon_ok = e.fresh_bool('canonicalize.ok'); canon_to = mk_str('/real/p.ds')
            pk = e.fresh_int('parse_file.kind', 0, 1); got = arb_instrs(e, 'included'); eline = e.fresh_int('err.line', 1, 99)
            # the error of the included file: a parse error at some line, or an unreadable file further down (any path)
            kerr = names.index('ErrorReadingFile'); ekind = e.fresh_bool('err.is_reading'); epath = H.sym_str(e, 'err.path', 4)
            errv = E('types::error::ScriptError', zite(ekind, kerr, ek), {ek: [meta_new(eline)], kerr: [epath, some(Opaque('FsIOError'))]})
            calls = {'canon': [], 'parse': []}

            def h_canon(eng, st1, a, callee):
                calls['canon'].append((st1.g, a[0] if isinstance(a[0], S) else eng.deref(st1, a[0])))
                return E(RESULT, zite(canon_ok, 0, 1), {0: [canon_to], 1: [Opaque('io::Error')]})

            def h_parse(eng, st1, a, callee):
                calls['parse'].append((st1.g, a[0] if isinstance(a[0], S) else eng.deref(st1, a[0])))
                return E(RESULT, zite(pk == 1, 1, 0), {0: [got], 1: [errv]})
            e.hooks['std::path::Path::canonicalize'] = h_canon; e.hooks['parser::parse_file'] = h_parse
            st = State(True, {(0, 'meta'): meta, (0, 'args'): some(argv)})
            fr = induct.capture(e, 'core', 'preprocessor::include_files_preprocessor::run', [P(0, 'args'), P(0, 'meta')], st)
            fr.require(['instructions', 'iter'])
            it0 = fr.get(fr.st, 'iter')
            obs = [(fr.st.g, zand(zeq(fr.get(fr.st, 'instructions').len, 0), zeq(it0.f[1], 0)), 'entry: nothing collected, first argument')]
            IV = arb_instrs(e, 'collected')
            k = e.fresh_int('k', 0, 2)
            calls['canon'].clear(); calls['parse'].clear()
            st1 = fr.state(True, instructions=IV, iter=T([it0.f[0], k] + list(it0.f[2:]), it0.ty))
            exits, back = fr.step(st1)
            goes_on = back.g if back is not None else False
            more = k < 2
            # the path the property prescribes
            if written.startswith('/') or written.startswith('\\'): joined = None; want = mk_str(written)
            elif src is None: joined = None; want = mk_str(written)
            else:
                d = posixpath.dirname(src)
                joined = (d + '/' + written) if d not in ('', '/') else (d + written)
                want = merge(canon_ok, canon_to, mk_str(joined))
            obs.append((zand(more, pk == 0), goes_on, 'a readable file: the loop goes on')); obs.append((zor(znot(more), pk == 1), znot(goes_on), 'end of the arguments or an unreadable / malformed file: the loop ends'))
            obs.append((more, zor(*[g_ for g_, _ in calls['parse']]) if calls['parse'] else False, 'every argument is parsed as a file'))
            for g_, pth in calls['parse']: obs.append((g_, zand(more, str_eq(pth, want)), 'the file is looked up relative to the directory of the including file (absolute paths and text without source: as written); canonical form when available'))
            for g_, pth in calls['canon']: obs.append((g_, str_eq(pth, mk_str(joined)) if joined is not None else False, 'only a joined relative path is canonicalised'))
            if back is not None:
                iv2 = fr.get(back, 'instructions')
                exp = V(IV.len + got.len, [sel_ins(IV, got, i) for i in range(4)])
                obs.append((back.g, zand(zeq(iv2.len, IV.len + got.len), *[zimp(i < iv2.len, deep_eq(iv2.it[i], exp.it[i])) for i in range(min(4, len(iv2.it)))], zeq(fr.get(back, 'iter').f[1], k + 1)),
                            'the instructions of the included file are appended, in order and unchanged, to what was collected'))
            for rs, rv in fr.returns(exits):
                obs.append((zand(rs.g, znot(more)), zand(zeq(rv.d, 0), deep_eq(rv.p[0][0], IV)) if 0 in rv.p else False, 'end: exactly the collected instructions'))
                obs.append((zand(rs.g, more, pk == 1), zand(zeq(rv.d, 1), deep_eq(rv.p[1][0], errv)) if 1 in rv.p else False,
                            'an error of the included file (a parse error with its line, or an unreadable file with its path) is passed on unchanged'))
            for g, cnd, msg in obs: e.obligations.append(Obligation(g, cnd, 'C14 include-loop lemma (%s includes %s): %s' % (src, written, msg), 'assert', 'oracle'))
            jr.symex_time += time.time() - t0

            def extract(m, o=None, src=src, written=written): return dict(kind='lemma', fn='include_files', source=src, written=written)
            res = discharge_known(e, jr, PID, {}, extract)
            H.finish_job(jr, e, res)
    # ---- 2. directive dispatch, parse_file, parse_text_with_source_file (straight-line)
    e = ctx.engine(unwind=3); t0 = time.time()
    ck = e.fresh_int('command', 0, 3)       # include_files | print | other | none
    cmd_o = E(OPTION, zite(ck == 3, 0, 1), {0: [], 1: [merge(ck == 0, mk_str('include_files'), merge(ck == 1, mk_str('print'), mk_str('includefiles')))]})
    args_o = some(V(1, [mk_str('a.ds')]))
    line = e.fresh_int('meta.line', 1, 99); meta = meta_new(line, mk_str('d/main.ds'))
    kind = e.fresh_int('kind', 0, 2)
    ins = T([meta, E(IT, kind, {0: [], 1: [T([cmd_o, args_o], 'types::instruction::PreProcessInstruction')], 2: [T([none(), none(), some(mk_str('c')), none()], 'types::instruction::ScriptInstruction')]})], INS)
    rk = e.fresh_bool('include.err'); got = arb_instrs(e, 'included'); errv = E('types::error::ScriptError', ek, {ek: [meta_new(7)]})
    calls = []
    def h_inc(eng, st1, a, callee):
        calls.append((st1.g, eng.deref(st1, a[0]), eng.deref(st1, a[1]))); return E(RESULT, zite(rk, 1, 0), {0: [got], 1: [errv]})
    e.hooks['preprocessor::include_files_preprocessor::run'] = h_inc
    e.hooks['preprocessor::print_preprocessor::run'] = lambda eng, st1, a, callee: UNIT
    st = State(True, {(0, 'ins'): ins})
    rs, rv = e.run('core', 'preprocessor::run', [P(0, 'ins')], st)
    isp = zeq(kind, 1)
    obs = [(zand(rs.g, znot(isp)), zand(zeq(rv.d, 0), zeq(rv.p[0][0].len, 0)) if 0 in rv.p else False, 'only directives add instructions'),
           (zand(rs.g, isp, ck == 1), zand(zeq(rv.d, 0), zeq(rv.p[0][0].len, 0)) if 0 in rv.p else False, 'print adds nothing'),
           (zand(rs.g, isp, ck == 0), deep_eq(rv, E(RESULT, zite(rk, 1, 0), {0: [got], 1: [errv]})), 'include_files: the result of the include is passed on unchanged'),
           (zand(isp, ck == 0), zor(*[g_ for g_, _, _ in calls]) if calls else False, 'include_files runs the include')]
    for g_, a0, m0 in calls: obs.append((g_, zand(isp, ck == 0, deep_eq(a0, args_o), deep_eq(m0, meta)), 'the include gets the arguments and the position (source!) of the directive'))
    for kk, nm in ((2, 'UnknownPreProcessorCommand'), (3, 'PreProcessNoCommandFound')):
        ki = names.index(nm)
        obs.append((zand(rs.g, isp, ck == kk), zand(zeq(rv.d, 1), zeq(rv.p[1][0].d, ki), zeq(rv.p[1][0].p[ki][0].f[0].p[1][0], line)) if 1 in rv.p and ki in rv.p[1][0].p else False, '%s carries the line of the directive' % nm))
    for g, cnd, msg in obs: e.obligations.append(Obligation(g, cnd, 'C14 directive-dispatch lemma: %s' % msg, 'assert', 'oracle'))
    res = discharge_known(e, jr, PID, {}, lambda m, o=None: dict(kind='lemma', fn='preprocessor::run'))
    jr.symex_time += time.time() - t0; H.finish_job(jr, e, res)
    # parse_file / parse_text_with_source_file
    e = ctx.engine(unwind=3); t0 = time.time()
    path = H.sym_str(e, 'path', 6); text = H.sym_str(e, 'text', 4)
    rd = e.fresh_bool('read.err'); pr = e.fresh_bool('parse.err'); got = arb_instrs(e, 'parsed'); errv = E('types::error::ScriptError', ek, {ek: [meta_new(7)]})
    calls = {'read': [], 'parse': [], 'lines': []}
    def h_read(eng, st1, a, callee):
        calls['read'].append((st1.g, a[0] if isinstance(a[0], S) else eng.deref(st1, a[0]))); return E(RESULT, zite(rd, 1, 0), {0: [text], 1: [Opaque('FsIOError')]})
    def h_pt(eng, st1, a, callee):
        calls['parse'].append((st1.g, a[0] if isinstance(a[0], S) else eng.deref(st1, a[0]), a[1] if isinstance(a[1], S) else eng.deref(st1, a[1])))
        return E(RESULT, zite(pr, 1, 0), {0: [got], 1: [errv]})
    e.hooks['re:fsio::file::read_text_file::<.*>'] = h_read; e.hooks['parser::parse_text_with_source_file'] = h_pt
    rs, rv = e.run('core', 'parser::parse_file', [path], State(True, {}))
    kerr = names.index('ErrorReadingFile')
    obs = [(True, len(calls['read']) == 1, 'the file is read once')]
    for g_, p_ in calls['read']: obs.append((g_, str_eq(p_, path), 'the file read is the one asked for'))
    for g_, t_, p_ in calls['parse']: obs.append((g_, zand(znot(rd), str_eq(t_, text), str_eq(p_, path)), 'its text is parsed with its own path as source'))
    obs.append((znot(rd), zor(*[g_ for g_, _, _ in calls['parse']]) if calls['parse'] else False, 'a readable file is parsed'))
    obs.append((zand(rs.g, rd), zand(zeq(rv.d, 1), zeq(rv.p[1][0].d, kerr), str_eq(rv.p[1][0].p[kerr][0], path)) if 1 in rv.p and kerr in rv.p[1][0].p else False, 'an unreadable file fails the parse with its path'))
    obs.append((zand(rs.g, znot(rd)), deep_eq(rv, E(RESULT, zite(pr, 1, 0), {0: [got], 1: [errv]})), 'the result of parsing the text is passed on unchanged'))
    for g, cnd, msg in obs: e.obligations.append(Obligation(g, cnd, 'C14 parse_file lemma: %s' % msg, 'assert', 'oracle'))
    res = discharge_known(e, jr, PID, {}, lambda m, o=None: dict(kind='lemma', fn='parse_file'))
    jr.symex_time += time.time() - t0; H.finish_job(jr, e, res)
    e = ctx.engine(unwind=3); t0 = time.time()
    path = H.sym_str(e, 'path', 6); text = H.sym_str(e, 'text', 4)
    pr = e.fresh_bool('parse.err'); got = arb_instrs(e, 'parsed'); errv = E('types::error::ScriptError', ek, {ek: [meta_new(7)]})
    calls = []
    def h_lines(eng, st1, a, callee):
        calls.append((st1.g, a[0] if isinstance(a[0], S) else eng.deref(st1, a[0]), a[1])); return E(RESULT, zite(pr, 1, 0), {0: [got], 1: [errv]})
    e.hooks['parser::parse_lines'] = h_lines
    rs, rv = e.run('core', 'parser::parse_text_with_source_file', [text, path], State(True, {}))
    obs = [(True, len(calls) == 1, 'the lines are parsed once')]
    for g_, t_, m_ in calls: obs.append((g_, zand(str_eq(t_, text), zeq(m_.f[0].d, 0), zeq(m_.f[1].d, 1), str_eq(m_.f[1].p[1][0], path) if 1 in m_.f[1].p else False), 'every line of the text gets the file as its source (line numbers start afresh)'))
    obs.append((rs.g, deep_eq(rv, E(RESULT, zite(pr, 1, 0), {0: [got], 1: [errv]})), 'the result is passed on unchanged'))
    for g, cnd, msg in obs: e.obligations.append(Obligation(g, cnd, 'C14 parse_text_with_source_file lemma: %s' % msg, 'assert', 'oracle'))
    res = discharge_known(e, jr, PID, {}, lambda m, o=None: dict(kind='lemma', fn='parse_text_with_source_file'))
    jr.symex_time += time.time() - t0; H.finish_job(jr, e, res)


def sel_ins(a, b, i):
    """item i (concrete) of the concatenation a ++ b (symbolic lengths)"""
    r = b.it[-1] if b.it else a.it[-1]
    for j in range(len(b.it) - 2, -1, -1): r = merge(zeq(i - a.len, j), b.it[j], r)
    if i < len(a.it): r = merge(i < a.len, a.it[i], r)
    return r
