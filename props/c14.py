"""C14 - including files is equivalent to pasting them in place, with provenance kept (file system stubbed)."""
import time, posixpath
import z3
from mirsym import harness as H, solve
from mirsym.values import *
from mirsym.engine import State, Obligation, some, none, ok, err, OPTION, RESULT
from mirsym.harness import process_failed, witness, discharge_known
from mirsym.models import str_push
from .common import *

PID = 'C14'
# include trees: file -> list of entries; an entry is None (a symbolic free line) or a tuple of included paths (as written)
TREES = {
    'middle': {'d/main.ds': [None, ('a.ds',), None], 'd/a.ds': [None, None]},
    'two+nested': {'d/main.ds': [('a.ds', 'b.ds')], 'd/a.ds': [None], 'd/b.ds': [None, ('e/c.ds',)], 'd/e/c.ds': [None]},
    'twice': {'d/main.ds': [None, ('a.ds', 'a.ds')], 'd/a.ds': [None]},
    'absolute': {'d/main.ds': [('/abs/x.ds',), None], '/abs/x.ds': [None, None]},
    'missing': {'d/main.ds': [None, ('nope.ds',), None]},
    'last+up': {'d/main.ds': [None, ('e/c.ds',)], 'd/e/c.ds': [('../a.ds',), None], 'd/a.ds': [None]},
    'first,subdir-then-sibling': {'d/main.ds': [('e/c.ds', 'a.ds'), None], 'd/e/c.ds': [None], 'd/a.ds': [None]},
    'depth3': {'m.ds': [('x/a.ds',), None], 'x/a.ds': [None, ('y/b.ds',)], 'x/y/b.ds': [('c.ds',)], 'x/y/c.ds': [None]},
}
MAIN = {k: list(v)[0] for k, v in TREES.items()}


def norm(p): return posixpath.normpath(p)


def job_tree(ctx, jr, tree, W, canon):
    files = TREES[tree]; main = MAIN[tree]
    jr.bounds = dict(tree=tree, files={k: ['<line>' if x is None else '!include_files ' + ' '.join(x) for x in v] for k, v in files.items()}, free_line_chars=W,
                     canonicalize='succeeds (lexical normal form)' if canon else 'fails (joined path kept)')
    e = ctx.engine(unwind=max(8, W + 20), max_rec=6)
    t0 = time.time()
    # ---- symbolic file contents
    content = {}; lines_of = {}; cons = []
    for path, entries in files.items():
        ls = []
        for i, en in enumerate(entries):
            if en is None:
                l = H.sym_str(e, '%s:%d' % (path, i), W); cons.append(no_char(l, [LF])); ls.append(l)
            else: ls.append(mk_str('!include_files ' + ' '.join(en)))
        text, tc = text_of_lines(e, ls, len(ls), name=path); cons.append(tc)
        content[norm(path)] = text; lines_of[path] = ls
    e.assume(zand(*cons))

    def h_read(eng, st1, a, callee):
        p = str_concrete(a[0] if isinstance(a[0], S) else eng.deref(st1, a[0]))
        if p is None: raise Abort('read_text_file with a symbolic path')
        t = content.get(norm(p))
        return ok(t) if t is not None else err(Opaque('FsIOError'))

    def h_canon(eng, st1, a, callee):
        p = str_concrete(a[0] if isinstance(a[0], S) else eng.deref(st1, a[0]))
        if p is None: raise Abort('canonicalize with a symbolic path')
        return ok(mk_str(norm(p))) if canon else err(Opaque('io::Error'))
    e.hooks['re:fsio::file::read_text_file::<.*>'] = h_read
    e.hooks['std::path::Path::canonicalize'] = h_canon
    rs, rv = e.run('core', 'parser::parse_file', [mk_str(main)], State(True, {}))
    if rs is None: raise Abort('parse_file never returns')
    # ---- every free line parsed alone (with its file as source) gives the reference instruction / error
    def resolve(frm, written):
        if written.startswith('/'): return written
        joined = posixpath.join(posixpath.dirname(frm), written) if posixpath.dirname(frm) else written
        return norm(joined) if canon else joined
    single = {}
    def parse_alone(path_as_seen, path, i):
        key = (path_as_seen, path, i)
        if key not in single:
            l = lines_of[path][i]
            t = S(l.len + 1, str_push(l, LF).ch, ('lines', 1, [l]))
            rs1, rv1 = e.run('core', 'parser::parse_text_with_source_file', [t, mk_str(path_as_seen)], State(rs.g, {}))
            single[key] = rv1
        return single[key]
    # expected flat sequence: (kind, ...) in paste order
    seq = []; missing = []
    def walk(path_as_seen, path):
        if norm(path) not in {norm(k) for k in files}: missing.append(path_as_seen); seq.append(('missing', path_as_seen)); return False
        key = [k for k in files if norm(k) == norm(path)][0]
        for i, en in enumerate(files[key]):
            seq.append(('line', path_as_seen, key, i, en))
            if en is not None:
                for w in en:
                    if not walk(resolve(path_as_seen, w), resolve(path_as_seen, w)): return False
        return True
    walk(main, main)
    jr.symex_time = time.time() - t0
    names = ctx.types.enums['types::error::ScriptError']
    okc = zeq(rv.d, 0); iv = res_instrs(rv); errv = res_err(rv)
    checks = []
    prev_ok = True; pos = 0; first_bad_found = False
    for item in seq:
        if item[0] == 'missing':
            k = names.index('ErrorReadingFile')
            c = zimp(prev_ok, zand(znot(okc), zeq(errv.d, k), str_eq(errv.p[k][0], mk_str(item[1])) if errv is not None and k in errv.p else False))
            checks.append(('a missing file fails the whole parse with its path (%s)' % item[1], c)); prev_ok = False; break
        _, seen, key, i, en = item
        lineno = i + 1
        if en is not None:
            # the directive itself is an instruction of its file
            if pos < len(iv.it):
                ins = iv.it[pos]
                checks.append(('directive instruction of %s line %d keeps its provenance' % (key, lineno), zimp(zand(prev_ok, okc), zand(zeq(instr_type(ins).d, 1), zeq(instr_line(ins).p[1][0], lineno),
                               zeq(instr_source(ins).d, 1), str_eq(instr_source(ins).p[1][0], mk_str(seen))))))
            pos += 1; continue
        r1 = parse_alone(seen, key, i)
        ok1 = zeq(r1.d, 0)
        if pos < len(iv.it) and 0 in r1.p and r1.p[0][0].it:
            ins = iv.it[pos]; ref = r1.p[0][0].it[0]
            checks.append(('instruction %d is %s line %d as parsed alone, with its file and line' % (pos, key, lineno),
                           zimp(zand(prev_ok, okc, ok1), zand(deep_eq(instr_type(ins), instr_type(ref)), zeq(instr_line(ins).d, 1), zeq(instr_line(ins).p[1][0], lineno),
                                                             zeq(instr_source(ins).d, 1), str_eq(instr_source(ins).p[1][0], mk_str(seen))))))
        # first malformed line: error kind, that file's line and source
        e1 = res_err(r1)
        if e1 is not None and errv is not None:
            bad = zand(prev_ok, znot(ok1))
            conds = [znot(okc), zeq(errv.d, e1.d)]
            for k, payload in errv.p.items():
                if names[k] in ('ErrorReadingFile', 'Initialization', 'Runtime'): continue
                meta = payload[0]
                conds.append(zimp(zeq(errv.d, k), zand(zeq(meta.f[0].p[1][0], lineno), zeq(meta.f[1].d, 1), str_eq(meta.f[1].p[1][0], mk_str(seen)))))
            checks.append(('a malformed line in %s fails the parse with its kind, line %d and file' % (key, lineno), zimp(bad, zand(*conds))))
        prev_ok = zand(prev_ok, ok1); pos += 1
    if prev_ok is not False and 'missing' not in [s[0] for s in seq]:
        checks.append(('the parse succeeds iff every line of every included file parses', zeq(okc, prev_ok)))
        checks.append(('the instruction list is exactly the pasted sequence', zimp(okc, zeq(iv.len, pos))))
    for msg, c in checks: e.obligations.append(Obligation(rs.g, c, 'C14 %s: %s' % (tree, msg), 'assert', 'oracle'))

    def extract(m, o=None):
        fs = {p: solve.model_str(m, content[norm(p)]) for p in files}
        return dict(kind='c14', tree=tree, files=fs, entry=main, canon=canon)
    res = discharge_known(e, jr, PID, {}, extract)
    witness(jr, e, 'all lines well formed', zand(rs.g, okc), extract, optional=('missing' in tree))
    H.finish_job(jr, e, res)


# ---------------------------------------------------------------------- native replay: real files vs pasted reference
def replayer(v):
    files = {k.lstrip('/'): c for k, c in v['files'].items()}
    entry = v['entry'].lstrip('/')
    out = H.replay(dict(mode='parse_file', files=files, entry=entry)); v['native'] = out
    if out.get('panic'): return (True, 'native panic')
    if v['tree'] == 'absolute': return (None, 'absolute include paths cannot be replayed inside a scratch directory')
    # reference: paste
    from .c08 import native_lines
    ref = []; err_ref = [None]
    def walk(path):
        if path not in files: err_ref[0] = ('ErrorReadingFile', path); return False
        for i, l in enumerate(native_lines(files[path])):
            if l.strip().startswith('!include_files '):
                # the directive line itself (parsing it natively would execute the include): reference built by hand
                args = l.strip().split()[1:]
                ref.append(dict(line=i + 1, source=path, type='preprocess', command='include_files', arguments=args))
                for w in args:
                    if not walk(w.lstrip('/') if w.startswith('/') else posixpath.normpath(posixpath.join(posixpath.dirname(path), w))): return False
                continue
            single = H.replay(dict(mode='parse', text=l + '\n', source=path))
            if not single.get('ok'): err_ref[0] = (single['error']['kind'], i + 1, path); return False
            ins = single['instructions'][0]; ins['line'] = i + 1; ins['source'] = path; ref.append(ins)
            if ins['type'] == 'preprocess' and ins.get('command') == 'include_files':
                for w in ins.get('arguments') or []:
                    if not walk(posixpath.normpath(posixpath.join(posixpath.dirname(path), w))): return False
        return True
    walk(entry)
    if err_ref[0]:
        if out.get('ok'): return (True, 'native accepted, reference fails with %r' % (err_ref[0],))
        er = out['error']
        if err_ref[0][0] == 'ErrorReadingFile': return (er['kind'] != 'ErrorReadingFile', 'native %r' % er)
        return (er['kind'] != err_ref[0][0] or er['line'] != err_ref[0][1] or posixpath.normpath(er['source'] or '') != err_ref[0][2], 'native error %r, reference %r' % (er, err_ref[0]))
    if not out.get('ok'): return (True, 'native failed %r, reference parses' % (out.get('error'),))
    got = out['instructions']
    for g in got: g['source'] = posixpath.normpath(g['source']) if g.get('source') else g.get('source')
    return (got != ref, 'native %d instructions, pasted reference %d' % (len(got), len(ref)))


def main(tier, seed):
    chk = H.Check(PID, tier, seed, crates=('core',))
    chk.replayer = replayer
    W = 4 if tier == 'quick' else 7
    for t in TREES:
        for canon in (True, False):
            if tier == 'quick' and not canon and t in ('depth3', 'twice', 'absolute'): continue
            chk.job(job_tree, '%s/%s' % (t, 'canon' if canon else 'nocanon'), tree=t, W=W, canon=canon)
    chk.bounds = dict(include_trees=list(TREES), free_line_chars=W, canonicalize='both outcomes')
    chk.assumptions = ['file system stub: fsio::file::read_text_file = look-up in an immutable file table (Err for absent paths); Path::canonicalize = Err or the lexically normalised path; '
                       'PathBuf::from/parent/push/to_string_lossy lexical', 'include trees are case-split (8 shapes: middle, several files, nested dirs, same file twice, absolute, missing, '
                       'last line + parent dir, subdir-then-sibling, depth 3); every non-directive line is symbolic (arbitrary, possibly malformed)',
                       '"behaves like the pasted script" follows from C03 (the runner only sees the instruction list): composition argument, not re-proved here',
                       'outside: real file systems, symlinks, include cycles, non-UTF-8 files']
    results = chk.run()
    return chk.finish(results, 'every obligation is a solver query over all contents of the non-directive lines of an include tree')
