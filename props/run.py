import sys, os, json, importlib
from mirsym import harness as H


def main():
    a = H.main_args()
    pid = a.pid.upper()
    mod = importlib.import_module('props.' + pid.lower())
    if a.replay:
        v = json.load(open(a.replay))
        H.load_mir(('core',))
        rep = mod.replayer(v)
        print(json.dumps({'reproduced': rep[0], 'detail': rep[1], 'native': v.get('native')}, indent=1, default=str))
        sys.exit(1 if rep[0] else 0)
    sys.exit(mod.main(a.tier, a.seed))


if __name__ == '__main__':
    main()
