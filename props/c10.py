"""C10 - command errors are reported, positioned and survivable (or fatal when asked)."""
import time, itertools, random
import z3
from mirsym import harness as H, solve
from mirsym.values import *
from mirsym.engine import State, Obligation, some, none, OPTION
from mirsym.harness import process_failed, witness, discharge_known
from mirsym.models import map_lookup
from .common import *
from .c03 import choose, opt_choose
from .c06 import truthy

PID = 'C10'
OUTS = ['o1', 'o2']
MSGS = ['m1', 'boom', '']
FLAGS = ['true', 'false', '0', 'yes', 'No', '']
REAL = {'on_error': 'sdk::std::on_error::on_error::CommandImpl', 'exit_on_error': 'sdk::std::on_error::exit_on_error::CommandImpl',
        'get_last_error': 'sdk::std::on_error::get_last_error::CommandImpl', 'get_last_error_line': 'sdk::std::on_error::get_last_error_line::CommandImpl',
        'get_last_error_source': 'sdk::std::on_error::get_last_error_source::CommandImpl', 'trigger_error': 'sdk::std::on_error::trigger_error::CommandImpl'}
OPS = {'F': 'fail', 'T': 'trigger_error', 'X': 'exit_on_error', 'E': 'get_last_error', 'L': 'get_last_error_line', 'S': 'get_last_error_source', 'N': 'ok'}
CR = 'types::command::CommandResult'


def job_history(ctx, jr, seqs, from_arbitrary=False):
    """from_arbitrary: ONE operation from an arbitrary error-protocol state (last error present or not with arbitrary message / line /
    source, exit_on_error arbitrary), the state afterwards compared field by field (step lemma, DESIGN.md 8.9)"""
    jr.bounds = dict(sequences=[''.join(s) for s in seqs][:40], steps=len(seqs[0]), messages=MSGS, exit_on_error_values=FLAGS, source_lines='1..9 symbolic per instruction',
                     source_file='none or f.ds per instruction')
    for seq in seqs:
        e = ctx.engine(unwind=16); e.int_digits = 2
        e.hooks['std::sync::atomic::Atomic::<bool>::load'] = lambda eng, st1, a, c: False
        t0 = time.time()
        st = State(True, {})
        msgs = {}
        def h_fail(eng, st1, a):
            line = a[1].f[6]
            # the message is chosen per instruction index (concrete in this harness)
            return E(CR, 2, {2: [msgs[line]]})
        e.dyn_impls[('harness::Fail', 'run')] = h_fail
        e.dyn_impls[('harness::Ok', 'run')] = lambda eng, st1, a: E(CR, 0, {0: [some(mk_str('v'))]})
        for ty in ('harness::Fail', 'harness::Ok'): e.dyn_impls[(ty, 'clone_and_box')] = lambda eng, st1, a: eng.alloc(st1, a[0])
        ents = [(True, mk_str('fail'), e.alloc(st, T([], 'harness::Fail'))), (True, mk_str('ok'), e.alloc(st, T([], 'harness::Ok')))]
        for name, ty in REAL.items(): ents.append((True, mk_str(name), e.alloc(st, T([mk_str('std')], ty))))
        commands = T([M(ents), M([])], 'types::command::Commands')
        instrs = []; desc = []; srcs = []
        # spec state
        flag = False; last = dict(d=False, msg=S(0, []), line=S(0, []), src=S(0, []))
        state0 = M([])
        SVT = 'types::runtime::StateValue'; SV = ctx.types.enums[SVT]; SV_B, SV_S, SV_SUB = SV.index('Boolean'), SV.index('String'), SV.index('SubState')
        if from_arbitrary:
            sub_p = e.fresh_bool('substate.present'); last_p = e.fresh_bool('last.present'); flag_p = e.fresh_bool('flag.present'); flag0 = e.fresh_bool('flag.value')
            m0 = H.sym_str(e, 'last.msg', 3); l0 = e.fresh_int('last.line', 0, 99); s0 = H.sym_str(e, 'last.src', 3)
            from mirsym.models import int_to_str
            l0s = int_to_str(e, st, l0)
            e.assume(z3.Implies(z3.Not(sub_p), z3.And(z3.Not(last_p), z3.Not(flag_p))))
            sub0 = M([(last_p, mk_str('error'), E(SVT, SV_S, {SV_S: [m0]})), (last_p, mk_str('line'), E(SVT, SV_S, {SV_S: [l0s]})), (last_p, mk_str('source'), E(SVT, SV_S, {SV_S: [s0]})),
                      (flag_p, mk_str('exit_on_error'), E(SVT, SV_B, {SV_B: [flag0]}))])
            state0 = M([(sub_p, mk_str('duckscriptsdk::command::on_error'), E(SVT, SV_SUB, {SV_SUB: [sub0]}))])
            flag = zand(flag_p, flag0); last = dict(d=last_p, msg=m0, line=l0s, src=s0)
        vars_d = [False] * len(OUTS); vars_v = [S(0, [])] * len(OUTS)
        alive = True; fail_msg = S(0, []); fail_line = 0; fail_src = 0
        for k, op in enumerate(seq):
            cmd = OPS[op]
            oi = e.fresh_int('i%d.out' % k, 0, len(OUTS)); ln = e.fresh_int('i%d.line' % k, 1, 9); sx = e.fresh_int('i%d.src' % k, 0, 2); hs = sx > 0
            srcs.append(sx)
            if k > 0: e.assume(z3.Implies(srcs[0] > 0, sx > 0))        # a run from a file gives every instruction a source
            mi = e.fresh_int('i%d.msg' % k, 0, len(MSGS) - 1); fi = e.fresh_int('i%d.flag' % k, 0, len(FLAGS) - 1)
            args = []
            if op == 'T': args = [choose(mi, MSGS)]
            if op == 'X': args = [choose(fi, FLAGS)]
            if op == 'F': msgs[k] = choose(mi, MSGS)
            desc.append((op, oi, ln, sx, mi, fi))
            srcname = merge(sx == 1, mk_str('f.ds'), mk_str('g.ds'))
            meta = T([some(ln), E(OPTION, zite(hs, 1, 0), {0: [], 1: [srcname]})], 'types::instruction::InstructionMetaInfo')
            si_ = T([none(), opt_choose(oi, OUTS), some(mk_str(cmd)), some(V(len(args), args)) if args else none()], 'types::instruction::ScriptInstruction')
            instrs.append(T([meta, E('types::instruction::InstructionType', 2, {2: [si_]})], 'types::instruction::Instruction'))
            # ---- spec
            outp, outv = False, S(0, [])
            is_err = op in 'FT'
            if is_err:
                m = choose(mi, MSGS)
                fatal = zand(alive, flag)
                fail_msg = merge(fatal, m, fail_msg); fail_line = zite(fatal, ln, fail_line); fail_src = zite(fatal, sx, fail_src)
                surv = zand(alive, znot(flag))
                last = dict(d=zor(last['d'], surv), msg=merge(surv, m, last['msg']), line=merge(surv, S(1, [ln + 48]), last['line']),
                            src=merge(surv, merge(hs, srcname, S(0, [])), last['src']))
                outp, outv = True, mk_str('false')
                step_alive = alive
                alive = zand(alive, znot(flag))
            else:
                step_alive = alive
                if op == 'X':
                    v = choose(fi, FLAGS); newf = truthy(v)
                    flag = zite(alive, newf, flag); outp, outv = True, merge(newf, mk_str('true'), mk_str('false'))
                elif op == 'E': outp, outv = last['d'], last['msg']
                elif op == 'L': outp, outv = last['d'], last['line']
                elif op == 'S': outp, outv = last['d'], last['src']
                elif op == 'N': outp, outv = True, mk_str('v')
            for q in range(len(OUTS)):
                c = zand(step_alive, zeq(oi, q + 1))
                vars_d[q] = simp(zite(c, outp, vars_d[q])); vars_v[q] = merge(zand(c, outp), outv, vars_v[q])
        context = T([M([]), state0, commands], 'types::runtime::Context')
        env = some(T([Opaque('out'), Opaque('err'), e.alloc(st, False)], 'types::env::Env'))
        rs, rv = e.run('core', 'runner::run', [V(len(instrs), instrs), context, env], st)
        jr.symex_time += time.time() - t0
        if rs is None: raise Abort('run never returns')
        okc = simp(zeq(rv.d, 0))
        checks = [('the run survives iff no error occurs while exit_on_error is on', zeq(okc, alive))]
        if from_arbitrary and 0 in rv.p:
            # the protocol state afterwards, field by field
            sf, ssub, _ = map_lookup(e, rs, rv.p[0][0].f[1], mk_str('duckscriptsdk::command::on_error'))
            subm = ssub.p[SV_SUB][0] if isinstance(ssub, E) and SV_SUB in ssub.p else M([])
            def field(name, variant):
                f_, v_, _ = map_lookup(e, rs, subm, mk_str(name))
                return zand(sf, f_), (v_.p[variant][0] if isinstance(v_, E) and variant in v_.p else None), (zeq(v_.d, variant) if isinstance(v_, E) else False)
            for name, exp in (('error', last['msg']), ('line', last['line']), ('source', last['src'])):
                f_, val, isv = field(name, SV_S)
                checks.append(('state: last %s present iff an error was recorded' % name, zimp(okc, zeq(f_, last['d']))))
                checks.append(('state: last %s value' % name, zimp(zand(okc, f_), zand(isv, str_eq(val, exp)) if val is not None else False)))
            f_, val, isv = field('exit_on_error', SV_B)
            checks.append(('state: exit_on_error flag', zimp(okc, zeq(zand(f_, isv, val if val is not None else False), flag))))
        if 0 in rv.p:
            fin = rv.p[0][0].f[0]
            for q, name in enumerate(OUTS):
                found, val, _ = map_lookup(e, rs, fin, mk_str(name))
                checks.append(('output variable %s defined as the protocol says' % name, zimp(okc, zeq(found, vars_d[q]))))
                if found is not False: checks.append(('output variable %s value (false / last error message, line, source)' % name, zimp(zand(okc, found), str_eq(val, vars_v[q]))))
        if 1 in rv.p:
            errv = rv.p[1][0]; RUNTIME = ctx.types.enums['types::error::ScriptError'].index('Runtime')
            checks.append(('the failure is a Runtime error', zimp(znot(okc), zeq(errv.d, RUNTIME))))
            if RUNTIME in errv.p:
                msg_, meta_o = errv.p[RUNTIME]
                checks.append(('the failure carries the error message', zimp(znot(okc), str_eq(msg_, fail_msg))))
                if 1 in meta_o.p:
                    meta = meta_o.p[1][0]
                    checks.append(('the failure carries the failing line and source', zimp(znot(okc), zand(zeq(meta_o.d, 1), zeq(meta.f[0].d, 1), zeq(meta.f[0].p[1][0], fail_line), zeq(zeq(meta.f[1].d, 1), fail_src > 0), zimp(fail_src > 0, str_eq(meta.f[1].p[1][0], merge(zeq(fail_src, 1), mk_str('f.ds'), mk_str('g.ds'))))))))
        for msg, c in checks: e.obligations.append(Obligation(rs.g, c, 'C10 %s: %s' % (''.join(seq), msg), 'assert', 'oracle'))

        def extract(m, o=None):
            lines = []
            for (op, oi, ln, hs, mi, fi) in desc:
                lines.append(dict(op=OPS[op], out=OUTS[solve.model_int(m, oi) - 1] if solve.model_int(m, oi) else None, line=solve.model_int(m, ln), src=solve.model_int(m, hs),
                                  msg=MSGS[solve.model_int(m, mi)], flag=FLAGS[solve.model_int(m, fi)]))
            d_ = dict(kind='c10', ops=lines)
            if from_arbitrary:
                # rebuild the arbitrary protocol state natively: an earlier failing instruction and an exit_on_error line
                pre = []
                sx_ = lines[0]['src']
                if solve.model_bool(m, last_p): pre.append(dict(op='fail', out=None, line=solve.model_int(m, l0), src=sx_, msg=solve.model_str(m, m0), flag=''))
                if solve.model_bool(m, flag_p): pre.append(dict(op='exit_on_error', out=None, line=1, src=sx_, msg='', flag='true' if solve.model_bool(m, flag0) else 'false'))
                # ... and make the state after the operation observable: query the last error, then fail once more (fatal iff the flag is on)
                post = [dict(op='get_last_error', out='o1', line=7, src=sx_, msg='', flag=''), dict(op='get_last_error_line', out='o2', line=8, src=sx_, msg='', flag=''),
                        dict(op='fail', out=None, line=9, src=sx_, msg='m1', flag=''), dict(op='get_last_error', out='o1', line=9, src=sx_, msg='', flag='')]
                d_['ops'] = pre + lines + post; d_['kind'] = 'lemma'
            return d_
        res = discharge_known(e, jr, PID, {}, extract)
        witness(jr, e, 'sequence %s' % ''.join(seq), rs.g, extract)
        H.finish_job(jr, e, res)


def layout(ops):
    """files for a native run: the main script is the text (first instruction without source) or the file named like
    the first instruction's source; consecutive instructions of another source go into one included file"""
    names = {1: 'f.ds', 2: 'g.ds'}
    main_src = ops[0].get('src', 0)
    main = []; files = {}; pos = []; cur = None; cur_src = None
    main_name = names.get(main_src, '')
    for k, op in enumerate(ops):
        sx = op.get('src', 0)
        if sx == main_src:
            cur = None; main.append(k); pos.append((len(main), main_name))
        else:
            if sx == 0: return None       # an instruction without source inside a file run: not realisable
            if cur is None or cur_src != sx:
                cur = 'inc%d_%s' % (len(files), names[sx]); cur_src = sx; files[cur] = []; main.append('!include_files @DIR@/%s' % cur)
            files[cur].append(k); pos.append((len(files[cur]), cur))
    return main, files, pos, main_name


def py_model(ops, pos):
    flag = False; last = None; vars_ = {}; ok = True; err = None
    for k, op in enumerate(ops):
        c = op['op']; out = op['out']; res = None
        if c in ('fail', 'trigger_error'):
            if out: vars_[out] = 'false'
            if flag: ok = False; err = (op['msg'], pos[k][0], pos[k][1] or None); break
            last = (op['msg'], str(pos[k][0]), pos[k][1]); continue
        if c == 'exit_on_error':
            flag = op['flag'].lower() not in ('', '0', 'false', 'no'); res = 'true' if flag else 'false'
        elif c == 'get_last_error': res = last[0] if last else None
        elif c == 'get_last_error_line': res = last[1] if last else None
        elif c == 'get_last_error_source': res = last[2] if last else None
        elif c == 'ok': res = 'v'
        if out:
            if res is None: vars_.pop(out, None)
            else: vars_[out] = res
    return ok, err, vars_


def replayer(v):
    if v.get('kind') == 'c08_directive':
        from .c08 import replayer as c08_replayer
        return c08_replayer(v)
    if v.get('kind') == 'lemma' and v.get('level') == 'body':
        # confirmation: library commands written in duckscript whose body fails (with and without an inner output variable); the error
        # must be reported (output false, last error set with the line of the calling instruction) and be fatal under exit_on_error
        for call in ('r = sha256sum /nonexistent/file/x', 'r = sha512sum /nonexistent/file/x', 'r = array_join nohandle ,', 'r = set_from_array nohandle'):
            out = H.replay(dict(mode='sdk', script='noop\n%s\ne = get_last_error\nl = get_last_error_line' % call))
            if out.get('panic'): return (True, 'native panic')
            vs = out.get('vars', {})
            if not out.get('ok') or vs.get('r') != 'false' or not vs.get('e') or vs.get('l') != '2':
                v['native'] = out; return (True, '%s: error inside the script-implemented command not reported: %r' % (call, vs or out.get('error')))
            out2 = H.replay(dict(mode='sdk', script='exit_on_error true\n%s\nz = set 1' % call))
            if out2.get('ok') or out2['error'].get('line') != 2:
                v['native'] = out2; return (True, '%s under exit_on_error: %r' % (call, out2.get('error') or 'survived'))
        return (False, 'errors inside script-implemented commands are reported natively')
    if v.get('kind') == 'lemma' and 'ops' not in v:
        # a runner-level lemma: first the error-protocol panel (failing instruction in the main text, in the main file, in an
        # included file, after instructions of another file; exit_on_error on), then the panel of scripted runs of C03
        def op(name, src, line=1, out=None, msg='', flag=''): return dict(op=name, out=out, line=line, src=src, msg=msg, flag=flag)
        for s1, s2 in ((0, 0), (1, 1), (1, 2), (2, 1), (0, 1)):
            for fatal in (False, True):
                ops = [op('ok', s1)] + ([op('exit_on_error', s1, flag='true')] if fatal else []) + [op('ok', s2), op('fail', s2, msg='boom', out='o2'),
                       op('get_last_error_source', s2, out='o1'), op('get_last_error_line', s2, out='o2')]
                got = replayer(dict(kind='c10', ops=ops))
                if got[0]: v['native'] = got; v['ops'] = ops; return (True, 'error protocol run %r: %s' % ([(o['op'], o['src']) for o in ops], got[1]))
        from .c03 import replayer as c03_replayer
        return c03_replayer(v)
    ops = v['ops']; queue = []
    def text(op):
        pre = (op['out'] + ' = ') if op['out'] else ''
        if op['op'] == 'fail': return pre + 'fail'
        if op['op'] == 'trigger_error': return pre + 'trigger_error "%s"' % op['msg']
        if op['op'] == 'exit_on_error': return pre + 'exit_on_error "%s"' % op['flag']
        return pre + op['op']
    lay = layout(ops)
    if lay is None: return (None, 'source assignment not realisable by a native run')
    main, files, pos, main_name = lay
    for op in ops:
        if op['op'] == 'fail': queue.append(op['msg'])
    script = '\n'.join(x if isinstance(x, str) else text(ops[x]) for x in main)
    fcont = {name: '\n'.join(text(ops[k]) for k in ks) for name, ks in files.items()}
    case = dict(mode='scripted_sdk', script=script, files=fcont, recorders=['ok'], recorder_output='v', failers=['fail'], fail_messages=queue)
    if main_name:
        fcont[main_name] = script; case['entry'] = main_name      # run from a file: include paths are absolute (@DIR@ is replaced in files too)
    out = H.replay(case); v['native'] = out
    if out.get('panic'): return (True, 'native panic')
    ok, err, vars_ = py_model(ops, pos); v['spec'] = dict(ok=ok, err=err, vars=vars_)
    if bool(out.get('ok')) != ok: return (True, 'native ok=%r, protocol says %r' % (out.get('ok'), ok))
    if ok:
        got = {k: x for k, x in out['vars'].items() if k in OUTS}
        return (got != vars_, 'native vars %r, protocol %r' % (got, vars_))
    er = out['error']
    return (er.get('message') != err[0] or er.get('line') != err[1] or (er.get('source') or None) != err[2], 'native error %r, protocol %r' % (er, err))


def main(tier, seed):
    chk = H.Check(PID, tier, seed)
    chk.replayer = replayer
    rnd = random.Random(seed)
    base = [('F', 'E', 'L', 'S'), ('T', 'E', 'L', 'S'), ('X', 'F', 'N'), ('X', 'X', 'T', 'E'), ('F', 'T', 'E', 'L'), ('F', 'X', 'T'), ('E', 'L', 'S'), ('N', 'F', 'N', 'E'), ('X', 'N', 'X', 'F'), ('T', 'X', 'F', 'S')]
    k = 4 if tier == 'quick' else 5
    nrand = 30 if tier == 'quick' else 160
    seqs = list(base)
    while len(seqs) < len(base) + nrand:
        s = tuple(rnd.choice('FTXELSN') for _ in range(k))
        if s not in seqs and any(c in s for c in 'FT'): seqs.append(s)
    groups = [seqs[i::12] for i in range(12)]
    for gi, g in enumerate(groups):
        if g: chk.job(job_history, 'programs/%d' % gi, seqs=g)
    chk.job(job_history, 'step/all operations', seqs=[(o,) for o in 'FTXELSN'], from_arbitrary=True)
    from .c03 import job_runner_step, job_on_error_lemma
    chk.job(job_runner_step, 'step/runner reports errors', n=5, pid=PID, only=('error handler', 'Runtime error carrying', 'failing error handler', 'output variable set'))
    chk.job(job_on_error_lemma, 'step/runner invokes on_error', pid=PID)
    chk.job(job_eval_instructions_lemma, 'step/body loop of script-implemented commands', n=4 if tier == 'quick' else 8)
    # the position reported for an error is the line the parser gave the instruction: every instruction of a text carries the number of
    # its own line, also behind a directive that added instructions (the job is shared with C08)
    from .c08 import job_after_directive
    chk.job(job_after_directive, 'positions/lines behind a directive', W=2 if tier == 'quick' else 4)
    chk.bounds = dict(step_lemmas='each operation once from an arbitrary protocol state (last error absent or arbitrary message <= 3 chars / line 0..99 / source <= 3 chars, exit_on_error absent / true / false); state afterwards compared field by field', program_length='<= %d' % k, op_kind_sequences=len(seqs), messages=MSGS, flags=FLAGS)
    chk.assumptions = ['failing library command = harness command returning Error(message) (plus the real trigger_error); on_error, exit_on_error, get_last_error* are the real run functions',
                       'whole programs are top-level only; errors inside script-implemented library commands are covered by the body-loop lemma (utils::eval::eval_instructions) + C19 (the wrapper returns the body result) + the runner step lemma; errors inside function bodies / loops run through the same runner loop (step lemma); included files: C14',
                       'assert_error and set_error not covered', 'op kinds case-split (fixed + seeded random sequences); outputs, lines, sources, messages and flag spellings symbolic']
    results = chk.run()
    return chk.finish(results, 'every obligation is a solver query over all output variables, source positions, messages and exit_on_error spellings of a program shape')


# ---------------------------------------------------------------------- errors inside script-implemented library commands
def job_eval_instructions_lemma(ctx, jr, n):
    """The body loop of script-implemented commands and of condition-position calls (utils::eval::eval_instructions): one iteration
    from an arbitrary position with run_instruction as an arbitrary result. An inner Error / Crash / Exit ends the body at once and
    is the result handed back (AliasCommand::run returns it unchanged - C19 - and the runner then reports it - runner step lemma)."""
    from mirsym import induct
    from .c03 import Program, CR as CR3, GV, CONT, GOTO, ERROR, CRASH, EXIT, opt_choose, choose, OUTS as OUTS3, VALUES
    from .c12 import map_eq
    jr.bounds = dict(body_lines='0..%d (symbolic)' % n, position='any', inner_result='arbitrary', variables='x, y arbitrary',
                     claim='one-iteration lemma; with C19 (wrapper returns the body result) and the runner step lemma: errors inside script-implemented commands are reported like any other')
    e = ctx.engine(unwind=3); t0 = time.time()
    prog = Program(e, n); nlen = e.fresh_int('body.len', 0, n)
    instrs = V(nlen, prog.value().it)
    st = State(True, {})
    V0 = M([(e.fresh_bool('before.%s.present' % k), mk_str(k), H.sym_str(e, 'before.%s' % k, 2)) for k in OUTS3])
    VA = M([(e.fresh_bool('after.%s.present' % k), mk_str(k), H.sym_str(e, 'after.%s' % k, 2)) for k in OUTS3])
    L = e.fresh_int('L', 0, n + 2)
    rk = e.fresh_int('r.kind', 0, 4); rmsg = H.sym_str(e, 'r.msg', 3); rout = e.fresh_int('r.out', 0, len(VALUES))
    bylabel = e.fresh_bool('r.bylabel'); gline = e.fresh_int('r.line', 0, n + 3)
    out_o = opt_choose(rout, VALUES)
    result = E(CR3, rk, {CONT: [out_o], GOTO: [out_o, E(GV, zite(bylabel, 0, 1), {0: [mk_str(':a')], 1: [gline]})], ERROR: [rmsg], CRASH: [rmsg], EXIT: [out_o]})
    calls = []

    def h_cmd(eng, st1, a, callee):
        calls.append((st1.g, a[4], a[5])); eng.store(st1, a[1], VA)
        return T([result, none()])
    e.hooks['runner::run_instruction'] = h_cmd; e.hooks['duckscript::runner::run_instruction'] = h_cmd
    st.m[(0, 'commands')] = T([M([]), M([])], 'types::command::Commands'); st.m[(0, 'state')] = M([]); st.m[(0, 'vars')] = V0
    st.m[(0, 'env')] = T([Opaque('out'), Opaque('err'), e.alloc(st, False)], 'types::env::Env')
    fr = induct.capture(e, 'sdk', 'utils::eval::eval_instructions', [PV(instrs), P(0, 'commands'), P(0, 'state'), P(0, 'vars'), P(0, 'env'), L], st)
    fr.require(['line', 'flow_output', 'flow_result'], also=('*variables',))      # *variables: arbitrary before (V0) and after the command (VA)
    FO = E(OPTION, zite(e.fresh_bool('flow_output.present'), 1, 0), {0: [], 1: [H.sym_str(e, 'flow_output', 2)]})
    st1 = fr.state(True, flow_output=FO)
    exits, back = fr.step(st1)
    goes_on = back.g if back is not None else False
    kind = sel(prog.kind, L, 0); is_script = zand(L < nlen, zeq(kind, 1))
    stop = zand(is_script, zor(zeq(rk, ERROR), zeq(rk, CRASH), zeq(rk, EXIT)))
    obs = [(stop, znot(goes_on), 'an inner error / crash / exit ends the body at once')]
    for g_, ins, ln in calls: obs.append((g_, zand(is_script, zeq(ln, L)), 'only script instructions of the body are run, with their index'))
    obs.append((is_script, zor(*[g_ for g_, _, _ in calls]) if calls else False, 'every script instruction of the body is run'))
    for rs, rv in fr.returns(exits):
        fres, fout = rv.f
        obs.append((zand(rs.g, stop), zand(zeq(fres.d, 1), deep_eq(fres.p[1][0], result)) if 1 in fres.p else False, 'the inner error / crash / exit is the result of the body, unchanged'))
        obs.append((zand(rs.g, stop), map_eq(e, rs, e.read(rs, ('mem', 0, 'vars', [])), VA), 'nothing is stored for the failed instruction'))
        obs.append((zand(rs.g, L >= nlen), zand(zeq(fres.d, 0), deep_eq(fout, FO)), 'past the last line: the body ends without a result of its own, with the last output'))
    for g, cnd, msg in obs: e.obligations.append(Obligation(g, cnd, 'C10 body-loop lemma: %s' % msg, 'assert', 'oracle'))

    def extract(m, o=None): return dict(kind='lemma', level='body', L=solve.model_int(m, L), result_kind=solve.model_int(m, rk))
    jr.symex_time += time.time() - t0
    res = discharge_known(e, jr, PID, {}, extract)
    witness(jr, e, 'body-loop lemma: an inner error ends the body', zand(stop, zeq(rk, ERROR)), extract)
    H.finish_job(jr, e, res)
