"""C01 - a line written with the documented syntax parses back to the same instruction."""
import time
import z3
from mirsym import harness as H, solve
from mirsym.values import *
from mirsym.engine import State, Obligation, some, none
from mirsym.models import is_ws
from .common import *

PID = 'C01'


from mirsym.harness import process_failed, witness, discharge_known
from mirsym.models import str_push


# ---------------------------------------------------------------------- harness A: whole line
def job_line(ctx, jr, L, name_cap, nargs, arg_cap, shape=None):
    jr.bounds = dict(line_chars=L, name_chars=name_cap, arguments=nargs, argument_chars=arg_cap, alphabet='all Unicode scalar values')
    e = ctx.engine(unwind=L + 2)
    t0 = time.time()
    has_label, has_out, has_cmd, has_comment = [e.fresh_bool(n) for n in ('has_label', 'has_out', 'has_cmd', 'has_comment')]
    if shape is not None:       # case split on the instruction shape: one job per shape, contents stay symbolic
        has_label, has_out, has_cmd = [bool(x) for x in shape]
        jr.bounds['shape'] = 'label=%s output=%s command=%s' % tuple(shape)
    label = H.sym_str(e, 'label', name_cap); out = H.sym_str(e, 'out', name_cap); cmd = H.sym_str(e, 'cmd', name_cap)
    argc = e.fresh_int('argc', 0, nargs)
    args = [H.sym_str(e, 'arg%d' % i, arg_cap) for i in range(nargs)]
    quoted = [e.fresh_bool('quoted%d' % i) for i in range(nargs)]
    comment = H.sym_str(e, 'comment', 2)
    cons = [zimp(has_label, name_ok(label)), zimp(has_out, name_ok(out, (COLON,))), zimp(has_cmd, name_ok(cmd, (COLON,))),
            zimp(znot(has_cmd), argc == 0), no_char(comment, [LF])]
    # the first token of a line must not start the pre-processor syntax
    cons.append(zimp(zand(znot(has_label), has_out), out.ch[0] != BANG))
    cons.append(zimp(zand(znot(has_label), znot(has_out), has_cmd), cmd.ch[0] != BANG))
    buf = Buf(L)
    buf.spaces(e, 'lead', 0, 1)
    buf.push(COLON, has_label); buf.append(label, has_label)
    k = e.fresh_int('sp_label', 1, 2)
    follows = zor(has_out, has_cmd)
    buf.push(SP, zand(has_label, follows)); buf.push(SP, zand(has_label, follows, k > 1))
    buf.append(out, has_out)
    k1 = e.fresh_int('sp_eq_l', 0, 1); k2 = e.fresh_int('sp_eq_r', 0, 1)
    buf.push(SP, zand(has_out, k1 > 0)); buf.push(EQ, has_out); buf.push(SP, zand(has_out, k2 > 0))
    buf.append(cmd, has_cmd)
    for i in range(nargs):
        ex = simp(i < argc)
        ks = e.fresh_int('sp_arg%d' % i, 1, 2)
        buf.push(SP, ex); buf.push(SP, zand(ex, ks > 1))
        cons.append(zimp(ex, render_arg(e, buf, args[i], quoted[i], 'arg%d' % i, ex)))
    # an unquoted first argument starting with '=' would read as "output = command": must be quoted
    cons.append(zimp(zand(has_cmd, znot(has_out), argc >= 1, znot(quoted[0])), args[0].ch[0] != EQ))
    kt = e.fresh_int('sp_trail', 0, 1)
    buf.push(SP, kt > 0)
    buf.push(HASH, has_comment); buf.append(comment, has_comment)
    line = buf.s
    cons += [line.len >= 1, line.len <= L]
    e.assume(zand(*cons))
    text = S(line.len, line.ch, ('lines', 1, [line]))
    st = State(True, {})
    rs, rv = e.run('core', 'parser::parse_text', [text], st)
    jr.symex_time = time.time() - t0
    if rs is None: raise Abort('parse_text never returns')
    # ---- oracle: identity
    okc = res_ok(rv); ins_v = res_instrs(rv)
    ins = ins_v.it[0] if ins_v.it else None
    checks = [('result is Ok', okc)]
    if ins is not None:
        checks.append(('exactly one instruction', zimp(okc, zeq(ins_v.len, 1))))
        ity = instr_type(ins)
        empty_shape = zand(znot(has_label), znot(has_out), znot(has_cmd))
        checks.append(('instruction kind', zimp(okc, zeq(ity.d, zite(empty_shape, 0, 2)))))
        checks.append(('line number 1', zimp(okc, zand(zeq(instr_line(ins).d, 1), zeq(instr_line(ins).p[1][0], 1)))))
        si = script_of(ins)
        if si is not None:
            isscript = zand(okc, zeq(ity.d, 2))
            full_label = str_concat(mk_str(':'), label)
            checks.append(('label', zimp(isscript, opt_eq_str(si.f[0], has_label, full_label))))
            checks.append(('output', zimp(isscript, opt_eq_str(si.f[1], has_out, out))))
            checks.append(('command', zimp(isscript, opt_eq_str(si.f[2], has_cmd, cmd))))
            av = si.f[3]
            checks.append(('arguments None iff zero', zimp(isscript, zeq(av.d, zite(argc == 0, 0, 1)))))
            if 1 in av.p:
                lst = av.p[1][0]
                checks.append(('argument count', zimp(zand(isscript, argc >= 1), zeq(lst.len, argc))))
                for i in range(nargs):
                    if i < len(lst.it):
                        checks.append(('argument %d text' % i, zimp(zand(isscript, argc > i), str_eq(lst.it[i], args[i]))))
                    else:
                        checks.append(('argument %d text' % i, zimp(isscript, znot(argc > i))))
    for msg, c in checks:
        e.obligations.append(Obligation(rs.g, c, 'C01 line: ' + msg, 'assert', 'oracle'))

    def extract(m, o=None):
        nargs_m = solve.model_int(m, argc)
        return dict(kind='c01_line', text=solve.model_str(m, line),
                    expected=dict(label=(':' + solve.model_str(m, label)) if solve.model_bool(m, has_label) else None,
                                  output=solve.model_str(m, out) if solve.model_bool(m, has_out) else None,
                                  command=solve.model_str(m, cmd) if solve.model_bool(m, has_cmd) else None,
                                  arguments=[solve.model_str(m, args[i]) for i in range(nargs_m)] or None))
    res = solve.discharge(e)
    process_failed(jr, e, res, extract)
    witness(jr, e, 'a line of the shape with a comment', zand(rs.g, has_comment, line.len >= 3), extract)
    if has_cmd is not False and nargs:
        witness(jr, e, 'quoted argument with escape', zand(rs.g, has_cmd, argc >= 1, quoted[0], args[0].len >= 1, args[0].ch[0] == DQ), extract, optional=True)
    H.finish_job(jr, e, res)


# ---------------------------------------------------------------------- harness B: one token, deep
def job_token(ctx, jr, A, buf_cap):
    """parse_next_value in the argument configuration on: prefix, spaces, a rendered argument of <= A chars, suffix"""
    jr.bounds = dict(argument_chars=A, buffer_chars=buf_cap, alphabet='all Unicode scalar values')
    e = ctx.engine(unwind=buf_cap + 2)
    t0 = time.time()
    arg = H.sym_str(e, 'arg', A); quoted = e.fresh_bool('quoted')
    start = e.fresh_int('start', 0, 2)
    prefix = H.sym_str(e, 'prefix', 2)
    buf = Buf(buf_cap)
    e.assume(prefix.len == start)
    buf.append(prefix)
    buf.spaces(e, 'lead', 0, 2)
    tok_start = buf.s.len
    allowed = render_arg(e, buf, arg, quoted, 'arg')
    tok_end = buf.s.len
    # suffix: end of buffer | space + up to 2 arbitrary | (unquoted) '#' + up to 2 arbitrary | (quoted) any char
    kind = e.fresh_int('suffix', 0, 3)
    tail = H.sym_str(e, 'tail', 2)
    buf.push(SP, kind == 1); buf.push(HASH, kind == 2)
    buf.append(tail, kind >= 1)
    line = buf.s
    cons = [allowed, line.len <= buf_cap, zimp(kind == 3, zand(quoted, tail.len >= 1))]
    e.assume(zand(*cons))
    lv = V(line.len, line.ch)
    st = State(True, {(0, 'meta'): meta_new(1)})
    rs, rv = e.run('core', 'parser::parse_next_value', [P(0, 'meta'), lv, start, True, True, False, False], st)
    jr.symex_time = time.time() - t0
    okc = res_ok(rv); tup = rv.p[0][0]; idx = tup.f[0]; val = tup.f[1]
    checks = [('result is Ok', okc),
              ('token text', zimp(okc, opt_eq_str(val, True, arg))),
              ('next index', zimp(okc, zeq(idx, zite(zand(znot(quoted), kind == 2), line.len, tok_end))))]
    for msg, c in checks:
        e.obligations.append(Obligation(rs.g, c, 'C01 token: ' + msg, 'assert', 'oracle'))

    def extract(m, o=None):
        return dict(kind='c01_token', buffer=solve.model_str(m, line), start=solve.model_int(m, start), expected=solve.model_str(m, arg),
                    quoted=solve.model_bool(m, quoted))
    res = solve.discharge(e)
    process_failed(jr, e, res, extract)
    witness(jr, e, 'quoted with every escape kind', zand(rs.g, quoted, arg.len >= 3, arg.ch[0] == BS, arg.ch[1] == LF, arg.ch[2] == DQ), extract)
    witness(jr, e, 'unquoted followed by comment', zand(rs.g, znot(quoted), kind == 2, arg.len >= 2), extract)
    H.finish_job(jr, e, res)


# ---------------------------------------------------------------------- harness C: scripts of n rendered lines
def job_script(ctx, jr, n, name_cap, arg_cap):
    """n lines, each `[out =] cmd [arg]` or blank/comment, LF and CRLF: n instructions in order, i-th has line i"""
    jr.bounds = dict(lines=n, name_chars=name_cap, argument_chars=arg_cap)
    e = ctx.engine(unwind=max(8, 2 * name_cap + arg_cap + 8))
    t0 = time.time()
    count = e.fresh_int('count', 1, n)
    lines = []; exp = []; cons = []
    for i in range(n):
        has_out = e.fresh_bool('l%d.has_out' % i); has_cmd = e.fresh_bool('l%d.has_cmd' % i); has_arg = e.fresh_bool('l%d.has_arg' % i)
        out = H.sym_str(e, 'l%d.out' % i, name_cap); cmd = H.sym_str(e, 'l%d.cmd' % i, name_cap); arg = H.sym_str(e, 'l%d.arg' % i, arg_cap)
        q = e.fresh_bool('l%d.q' % i)
        b = Buf(2 * name_cap + 2 * arg_cap + 8)
        b.append(out, has_out); b.push(SP, has_out); b.push(EQ, has_out); b.push(SP, has_out)
        b.append(cmd, has_cmd); b.push(SP, zand(has_cmd, has_arg))
        cons.append(zimp(zand(has_cmd, has_arg), render_arg(e, b, arg, q, 'l%d.arg' % i, zand(has_cmd, has_arg))))
        cons += [zimp(has_out, name_ok(out, (COLON, BANG))), zimp(has_cmd, name_ok(cmd, (COLON, BANG))), zimp(has_out, has_cmd),
                 zimp(zand(has_cmd, has_arg, znot(has_out), znot(q)), arg.ch[0] != EQ)]
        lines.append(b.s); exp.append((has_out, out, has_cmd, cmd, has_arg, arg))
    text, tcons = text_of_lines(e, lines, count)
    e.assume(zand(tcons, *cons))
    rs, rv = e.run('core', 'parser::parse_text', [text], State(True, {}))
    jr.symex_time = time.time() - t0
    okc = res_ok(rv); iv = res_instrs(rv)
    checks = [('result is Ok', okc), ('one instruction per line', zimp(okc, zeq(iv.len, count)))]
    for i in range(n):
        if i >= len(iv.it): checks.append(('instruction %d exists' % i, znot(count > i))); continue
        ins = iv.it[i]; ex = zand(okc, count > i)
        has_out, out, has_cmd, cmd, has_arg, arg = exp[i]
        ln = instr_line(ins)
        checks.append(('line number of instruction %d' % i, zimp(ex, zand(zeq(ln.d, 1), zeq(ln.p[1][0], i + 1)))))
        ity = instr_type(ins)
        checks.append(('kind of instruction %d' % i, zimp(ex, zeq(ity.d, zite(has_cmd, 2, 0)))))
        si = script_of(ins)
        if si is not None:
            sc = zand(ex, zeq(ity.d, 2))
            checks.append(('output %d' % i, zimp(sc, opt_eq_str(si.f[1], has_out, out))))
            checks.append(('command %d' % i, zimp(sc, opt_eq_str(si.f[2], has_cmd, cmd))))
            av = si.f[3]
            checks.append(('arguments %d' % i, zimp(sc, zeq(av.d, zite(has_arg, 1, 0)))))
            if 1 in av.p and av.p[1][0].it:
                checks.append(('argument text %d' % i, zimp(zand(sc, has_arg), zand(zeq(av.p[1][0].len, 1), str_eq(av.p[1][0].it[0], arg)))))
    for msg, c in checks:
        e.obligations.append(Obligation(rs.g, c, 'C01 script: ' + msg, 'assert', 'oracle'))

    def extract(m, o=None):
        k = solve.model_int(m, count)
        expd = []
        for i in range(k):
            has_out, out, has_cmd, cmd, has_arg, arg = exp[i]
            hc = solve.model_bool(m, has_cmd)
            expd.append(dict(line=i + 1, output=solve.model_str(m, out) if solve.model_bool(m, has_out) else None,
                             command=solve.model_str(m, cmd) if hc else None,
                             arguments=[solve.model_str(m, arg)] if hc and solve.model_bool(m, has_arg) else None))
        return dict(kind='c01_script', text=solve.model_str(m, text), expected=expd)
    res = solve.discharge(e)
    process_failed(jr, e, res, extract)
    witness(jr, e, 'n lines with CRLF', zand(rs.g, count == n, text.len >= 2 * n), extract)
    H.finish_job(jr, e, res)


# ---------------------------------------------------------------------- native replay
def replayer(v):
    k = v.get('kind')
    if k in ('c01_line', 'c01_script'):
        out = H.replay(dict(mode='parse', text=v['text']))
        v['native'] = out
        if out.get('panic'): return (True, 'native panic')
        if not out.get('ok'): return (True, 'native parse error %s' % out.get('error'))
        ins = [i for i in out['instructions']]
        if k == 'c01_line':
            exp = v['expected']
            if len(ins) != 1: return (True, 'native instruction count %d' % len(ins))
            i0 = ins[0]
            if i0['type'] == 'empty':
                same = all(exp[x] is None for x in ('label', 'output', 'command'))
            else:
                same = all(i0.get(x) == exp[x] for x in ('label', 'output', 'command', 'arguments'))
            return (not same or i0.get('line') != 1, 'native: %r' % i0)
        exp = v['expected']
        if len(ins) != len(exp): return (True, 'native instruction count %d' % len(ins))
        for a, b in zip(ins, exp):
            if a.get('line') != b['line']: return (True, 'line number')
            if b['command'] is None:
                if a['type'] != 'empty': return (True, 'kind')
            elif any(a.get(x) != b[x] for x in ('output', 'command', 'arguments')): return (True, 'fields: %r' % a)
        return (False, 'native agrees with the oracle')
    if k == 'c01_token':
        # the token scanner is private: replay through a whole line `c <buffer from start>`
        text = 'c ' + v['buffer'][v['start']:]
        out = H.replay(dict(mode='parse', text=text)); v['native'] = out
        if out.get('panic'): return (True, 'native panic')
        if not out.get('ok'): return (True, 'native parse error')
        a = out['instructions'][0].get('arguments') or []
        return ((not a) or a[0] != v['expected'], 'native first argument %r' % (a[:1],))
    if k == 'c01_struct':
        # a lemma about how the pieces of a line are put together has no single input: confirmation = a panel of lines and
        # scripts read natively and by the reference reader (the verdict came from the solver)
        panel = ['c', ':l', ':l c', 'o = c', 'o=c a', ':l o = c a b', 'c  a  b', 'o =', 'o = ', ': c', 'c # x', '#', ':l # c', 'o = # c', 'a = b = c', 'o = "c"',
                 ':"l"', 'c\\', ':l\\ c', 'o\\ = c', ':l  o  =  c  "a b"  d', '!', '"c" a', 'c "a', 'o = c\\', ':l :m c', 'o = = c', 'c =', 'c = d', ':l = c']
        if v.get('text'): panel.insert(0, v['text'])
        for text in panel:
            differs, why, out = native_vs_ref_line(text)
            if differs: v['native'] = out; v['line'] = text; return (True, 'line %r: %s' % (text, why))
        for lines in (['a', 'b', 'c'], ['a', '', '# x', 'b'], ['a', 'b "', 'c'], ['a', 'b', 'c\\x'], ['', '', 'o = c 1'], [' a ', ':l', 'x = y z']):
            for sep in ('\n', '\r\n'):
                text = sep.join(lines) + (sep if len(lines) % 2 else '')
                out = H.replay(dict(mode='parse', text=text))
                exp = [ref_line(l) for l in lines]
                bad = [i for i, x in enumerate(exp) if isinstance(x, str)]
                if out.get('panic'): return (True, 'native panic on %r' % text)
                if bad:
                    if out.get('ok') or out['error']['kind'] != exp[bad[0]] or out['error']['line'] != bad[0] + 1:
                        v['native'] = out; return (True, 'script %r: documented error %s at line %d; native %r' % (text, exp[bad[0]], bad[0] + 1, out.get('error') or 'ok'))
                    continue
                if not out.get('ok'): v['native'] = out; return (True, 'script %r: native error %r' % (text, out['error']))
                ins = out['instructions']
                if len(ins) != len(lines) or any(i.get('line') != n + 1 for n, i in enumerate(ins)) or any((x['type'] == 'empty') != (i['type'] == 'empty') or (x['type'] != 'empty' and any(i.get(f) != x[f] for f in ('label', 'output', 'command', 'arguments'))) for x, i in zip(exp, ins)):
                    v['native'] = out; return (True, 'script %r: native %r; documented %r' % (text, ins, exp))
        return (False, 'the panel of lines and scripts is read as documented natively')
    if k == 'c01_arglist':
        # a lemma about the list loop has no single input; confirmation = the native parse of a few lines with 0..4 arguments
        # against the reference tokenizer (the verdict came from the solver)
        if v.get('control_as_char'):
            from .c02 import replayer as c02_replayer
            for val in ('a', 'a b', 'a b c d', ' a  b ', 'a\\b c'):
                case = dict(kind='c02_spread', written='%{b}', env={'b': val}, pos=0, neighbours=0, expected_words=[w for w in val.split(' ') if w])
                got = c02_replayer(case)
                if got[0]: v['native'] = case.get('native'); return (True, 'spread value %r: %s' % (val, got[1]))
            return (False, 'spread values are split as documented natively')
        for rest in ('', 'a', 'a b', 'a b c d', '"a b"  c', 'a # b', 'a "b', 'a \\n b', '"" a'):
            out = H.replay(dict(mode='parse', text='o = c ' + rest if rest else 'o = c')); exp = ref_tokens(rest)
            if out.get('panic'): return (True, 'native panic on %r' % rest)
            if isinstance(exp, str):
                if out.get('ok') or out['error']['kind'] != exp: v['native'] = out; return (True, 'line %r: documented error %s, native %r' % (rest, exp, out.get('error') or 'ok'))
                continue
            if not out.get('ok'): v['native'] = out; return (True, 'line %r: native error %s' % (rest, out['error']['kind']))
            got = out['instructions'][0].get('arguments') or []
            if got != exp: v['native'] = out; return (True, 'line %r: native arguments %r, documented %r' % (rest, got, exp))
        return (False, 'argument lists of 0..4 tokens parse as documented natively')
    if k == 'c01_lemma':
        # rebuild a real line that brings the scanner into the loop-head state of the counterexample, then compare the native
        # parse with the documented syntax (ref_tokens)
        A = v['A']; lead = ''
        if v.get('part') == 'C02r':
            # the re-split configuration is reached through a spread argument whose value is the accumulated text + the rest of the buffer
            from .c02 import replayer as c02_replayer
            if v['phase'] != 'PRE' and not all('a' <= ch <= 'z' for ch in A): return (None, 'loop-head state with non-plain accumulated text: not rebuilt')
            tail = v['buffer'][v['p']:]
            last = None
            for val in [A + tail] + [A + tail[:1] + t for t in ('z', ' z', '  z', '')]:
                if '"' in val or '#' in val: continue
                case = dict(kind='c02_spread', written='%{b}', env={'b': val}, pos=0, neighbours=0, expected_words=[w for w in val.split(' ') if w])
                got = c02_replayer(case); last = (val, got)
                if got[0]:
                    v['native'] = case.get('native'); v['value'] = val
                    return (True, 'spread value %r: %s' % (val, got[1]))
            return (False, 'spread values through this state are split as documented natively: %r' % (last,)) if last else (None, 'no value free of quote and hash')
        if v['phase'] in ('MID', 'CTL', 'VAR'):
            if not all('a' <= ch <= 'z' for ch in A): return (None, 'loop-head state with non-plain accumulated text: not rebuilt as a line')
            lead = ('"' if v['quoted'] else '') + A + {'CTL': '\\', 'VAR': '\\$'}.get(v['phase'], '')
        tail = v['buffer'][v['p']:]
        # the lemma is about one character; what follows it decides whether the difference shows in a whole parse, so a few
        # continuations are tried (confirmation only - the verdict came from the solver)
        tails = [tail] + [tail[:1] + t for t in ('z', '', '{', '{z', '"', '"z', ' z', 'n', 'nz"', 'z"', '=c', ' = c', ' =c z')]
        part = v.get('part', 'C01')
        heads = {'C01n': ['o = ', ':'], 'C08n': ['o = ', ':'], 'C01e': ['', ':l '], 'C08e': ['', ':l ']}.get(part, ['o = c '])
        last = None
        for hd in heads:
            for tl in tails:
                text = hd + lead + tl
                differs, why, out = native_vs_ref_line(text)
                if differs is None: continue
                last = (text, out, why)
                if differs:
                    v['native'] = out; v['line'] = text
                    return (True, 'line %r: %s' % (text, why))
        if last is None: return (None, 'no line through this state lies inside the reference reader')
        v['native'] = last[1]; v['line'] = last[0]
        return (False, last[2])
    return (None, 'no replayer for %r' % k)


def ref_tokens(s):
    """the documented argument syntax, as a plain reference tokenizer (used only to judge native replays)"""
    i = 0; out = []
    while True:
        while i < len(s) and s[i] == ' ': i += 1
        if i >= len(s) or s[i] == '#': return out
        quoted = s[i] == '"'; A = ''
        if quoted: i += 1
        while True:
            if i >= len(s):
                if quoted: return 'MissingEndQuotes'
                out.append(A); return out
            c = s[i]
            if c == '\\':
                if i + 1 >= len(s): return 'ControlWithoutValidValue'
                d = s[i + 1]
                if d in '\\"': A += d
                elif d in 'nrt': A += {'n': '\n', 'r': '\r', 't': '\t'}[d]
                elif d == '$':
                    if i + 2 < len(s) and s[i + 2] == '{': A += '\\${'; i += 3; continue
                    return 'ControlWithoutValidValue'
                else: return 'ControlWithoutValidValue'
                i += 2; continue
            if quoted and c == '"': i += 1; out.append(A); break
            if not quoted and c == ' ': out.append(A); break
            if not quoted and c == '#': out.append(A); return out
            A += c; i += 1


def lemma_jobs(chk, part, N, C):
    """the line-level lemma jobs of DESIGN.md 8.6 for one property"""
    from . import line_lemmas as LL
    chk.job(job_token_inductive, 'D:name scanner lemmas', N=N, C=C, part=part + 'n')
    chk.job(job_token_inductive, 'D:first-token scanner lemmas', N=N, C=C, part=part + 'e')
    chk.job(LL.job_find_label, 'D:find_label lemma', N=N, part=part)
    chk.job(LL.job_find_output_and_command, 'D:find_output_and_command lemma', N=N, part=part)
    chk.job(LL.job_command_line, 'D:parse_command_line lemma', part=part)
    chk.job(LL.job_parse_line, 'D:parse_line lemma', L=8 if N <= 24 else 12, part=part)
    if part == 'C08':
        chk.job(LL.job_parse_lines, 'D:parse_lines lemma', NL=3 if N <= 24 else 5, K=3 if N <= 24 else 5, part=part)


def main(tier, seed):
    chk = H.Check(PID, tier, seed, crates=('core',))
    chk.replayer = replayer
    shapes = [(a, b, c) for a in (0, 1) for b in (0, 1) for c in (0, 1)]
    if tier == 'quick':
        for sh in shapes: chk.job(job_line, 'A:line<=8 shape=%d%d%d' % sh, L=8, name_cap=2, nargs=2, arg_cap=3, shape=sh)
        chk.job(job_token, 'B:token<=5', A=5, buf_cap=12)
        chk.job(job_token_inductive, "B':scanner lemmas", N=24, C=12)
        chk.job(job_arglist_inductive, "B'':argument-list lemma", K=3, control_as_char=False)
        lemma_jobs(chk, 'C01', 24, 12)
        chk.job(job_script, 'C:script<=3', n=3, name_cap=1, arg_cap=1)
        chk.bounds = dict(A='rendered line <= 8 chars, names <= 2, <= 2 args x <= 3 chars, one job per instruction shape',
                          B='argument <= 5 chars in a buffer <= 12', C='<= 3 lines of [out =] cmd [arg], names 1 char, arg <= 1 char')
    else:
        for sh in shapes: chk.job(job_line, 'A:line<=10 shape=%d%d%d' % sh, L=10, name_cap=2, nargs=2, arg_cap=3, shape=sh)
        chk.job(job_line, 'A:line<=9,3args', L=9, name_cap=1, nargs=3, arg_cap=2, shape=(0, 0, 1))
        chk.job(job_token, 'B:token<=6', A=6, buf_cap=14)
        chk.job(job_token_inductive, "B':scanner lemmas", N=64, C=32)
        chk.job(job_arglist_inductive, "B'':argument-list lemma", K=6, control_as_char=False)
        lemma_jobs(chk, 'C01', 64, 32)
        chk.job(job_script, 'C:script<=4', n=4, name_cap=1, arg_cap=2)
        chk.bounds = dict(A='rendered line <= 10 chars (names <= 2, <= 2 args x <= 3), per shape; <= 9 chars with 3 args x <= 2',
                          B='argument <= 6 chars in a buffer <= 14', C='<= 4 lines, names 1 char, arg <= 2 chars')
    chk.assumptions = ['std models (mirsym/models.py) for String/Vec/str::lines/trim/chars; str::lines is applied to a text built line by line',
                       'unquoted rendering only for non-empty arguments without white space or #; first unquoted argument not starting with = when no output',
                       'names: no white space, quote, backslash, #, =; not starting with : (or ! as first token)']
    results = chk.run()
    return chk.finish(results, 'every obligation is a solver query over all inputs within the bounds; samples are solver-produced witnesses')


# ---------------------------------------------------------------------- harness B': the token scanner, one loop iteration at a time
class _Captured(Exception): pass


def job_token_inductive(ctx, jr, N, C, part='C01'):
    """Inductive step lemmas for the character loop of parse_next_value (argument configuration): from an arbitrary loop-head
    state of each phase (before the token, inside it, after a backslash) one iteration on an arbitrary character leads to the
    phase and accumulated text that the documented syntax prescribes, or to the documented return value. Together with the
    definition of the rendering they give the token round trip for arguments of any length up to the modelling capacity."""
    jr.bounds = dict(buffer_chars=N, accumulated_argument_chars=C, position='any index of the buffer', alphabet='all Unicode scalar values',
                     claim='per-iteration lemmas; composition over the cells of a rendering is an induction argued in DESIGN.md 8.6')
    fname = 'parser::parse_next_value'
    pid = part[:3]
    if part == 'C09': part = 'C01'          # C09 claims the same transitions: the text its re-serialiser builds is read back by this scanner
    jr.bounds['part'] = {'C01': 'transitions used by the documented rendering (blanks, quotes, plain characters, the five escapes, terminators, comment)',
                         'C08': 'error returns (unterminated quote, backslash followed by anything but the documented letters, at any position)',
                         'C02': 'backslash-dollar-brace is kept as the three characters \\${ (assumption of the C02 harness)',
                         'C01n': 'name configuration (label, command after =): no quoting, no escapes; characters of the documented name class',
                         'C01e': 'first-token configuration (output variable or command): as the name configuration, and an = ends the token without being consumed',
                         'C08n': 'name configuration: a leading quote and any backslash are rejected with the matching error kind and the line of the caller',
                         'C08e': 'first-token configuration: a leading quote and any backslash are rejected with the matching error kind and the line of the caller',
                         'C02r': 're-split configuration (backslash is an ordinary character): blanks separate words; characters other than " and #'}[part]
    names = ctx.types.enums['types::error::ScriptError']
    total_res = None

    def fresh_engine():
        e = ctx.engine(unwind=3)
        buf = H.sym_str(e, 'buffer', N); bufv = V(buf.len, buf.ch)
        start = e.fresh_int('start', 0, N)
        e.assume(start < buf.len)
        line_no = e.fresh_int('meta.line', 1, 100000)
        st = State(True, {(0, 'meta'): meta_new(line_no)})
        cap = {}

        def cb(eng, fn, info, L, st1, fid): cap.update(fn=fn, info=info, L=L, st=st1.copy(), fid=fid); raise _Captured()
        e.loop_entry_hooks[fname] = cb
        flags = {'C02r': [True, False, False, True], 'C01n': [False, False, False, False], 'C08n': [False, False, False, False],
                 'C01e': [False, False, True, False], 'C08e': [False, False, True, False]}.get(part, [True, True, False, False])
        try: e.run('core', fname, [P(0, 'meta'), bufv, start] + flags, st)
        except _Captured: pass
        if not cap: raise NotRecognised('the character loop of parse_next_value was not reached')
        for n_ in ('index', 'argument', 'in_argument', 'using_quotes', 'in_control', 'found_end', 'found_variable_prefix', 'end_index'):
            if n_ not in cap['fn'].debug: raise NotRecognised('local %r not found in the debug table of parse_next_value' % n_)
        e.stack.clear(); e.loop_entry_hooks.clear()
        from mirsym import induct
        induct.LoopFrame(e, cap['fn'], cap['info'], cap['L'], cap['st'], cap['fid']).require(['index', 'argument', 'in_argument', 'using_quotes', 'in_control', 'found_variable_prefix'] + (['iter'] if 'iter' in cap['fn'].debug else []))
        cap['line'] = line_no
        return e, buf, bufv, start, cap

    def header_state(e, cap, buf, phase, quoted, A, p):
        fn, fid = cap['fn'], cap['fid']; d = fn.debug
        st = cap['st'].copy()
        st.m[(fid, d['index'])] = p
        if 'iter' in d:       # `for _i in index..end_index`; a `while index < end_index` loop has no iterator local
            it0 = st.m[(fid, d['iter'])]
            st.m[(fid, d['iter'])] = T([p, buf.len], it0.ty)
        st.m[(fid, d['argument'])] = A
        st.m[(fid, d['in_argument'])] = phase != 'PRE'
        st.m[(fid, d['using_quotes'])] = quoted if phase != 'PRE' else False
        st.m[(fid, d['in_control'])] = phase in ('CTL', 'VAR')
        st.m[(fid, d['found_end'])] = False
        st.m[(fid, d['found_variable_prefix'])] = phase == 'VAR'
        return st

    def read_state(cap, st):
        fn, fid = cap['fn'], cap['fid']; d = fn.debug
        g = lambda n: st.m.get((fid, d[n]))
        return dict(index=g('index'), iter=g('iter') if 'iter' in d else None, argument=g('argument'), in_argument=g('in_argument'), using_quotes=g('using_quotes'),
                    in_control=g('in_control'), found_end=g('found_end'), fvp=g('found_variable_prefix'))

    def is_phase(s_, phase, quoted, A2, p2):
        cs = [zeq(s_['index'], p2), zeq(s_['iter'].f[0], p2) if s_['iter'] is not None else True, zeq(s_['in_argument'], phase != 'PRE'), zeq(s_['in_control'], phase in ('CTL', 'VAR')),
              zeq(s_['found_end'], False), zeq(s_['fvp'], phase == 'VAR'), str_eq(s_['argument'], A2)]
        if phase != 'PRE': cs.append(zeq(s_['using_quotes'], quoted))
        return zand(*cs)

    lemmas = 0
    for phase in {'C01': ('BASE', 'PRE', 'MID', 'CTL'), 'C08': ('MID', 'CTL', 'VAR'), 'C02': ('CTL', 'VAR'), 'C02r': ('BASE', 'PRE', 'MID'),
                  'C01n': ('BASE', 'PRE', 'MID'), 'C01e': ('BASE', 'PRE', 'MID'), 'C08n': ('PRE', 'MID'), 'C08e': ('PRE', 'MID')}[part]:
        e, buf, bufv, start, cap = fresh_engine()
        t0 = time.time()
        fn, info, L, fid = cap['fn'], cap['info'], cap['L'], cap['fid']
        obs = []
        if phase == 'BASE':
            s0 = read_state(cap, cap['st'])
            obs.append((cap['st'].g, is_phase(s0, 'PRE', False, S(0, []), start), 'entry establishes the before-token phase at the start index'))
            obs.append((cap['st'].g, zeq(cap['st'].m[(fid, fn.debug['end_index'])], buf.len), 'end index is the buffer length'))
        else:
            quoted = e.fresh_bool('quoted')
            A = H.sym_str(e, 'A', C) if phase != 'PRE' else S(0, [])
            p = e.fresh_int('p', 0, N)
            e.assume(p <= buf.len)
            if phase == 'MID': e.assume(z3.Implies(z3.Not(quoted), A.len >= 1))
            if phase != 'PRE': e.assume(A.len <= C - 3)      # room for the longest push (3 chars)
            st = header_state(e, cap, buf, phase, quoted, A, p)
            st.g = True
            e.stack.append(fn.name)
            try: exits, back = e.run_region(fn, info, L, st, fid)
            finally: e.stack.pop()
            c = sel(buf.ch, p, 0); atend = zeq(p, buf.len); inb = znot(atend)
            # what the documented syntax prescribes for this phase and character
            def push(A_, ch): return str_push(A_, ch)
            from mirsym.models import str_push
            exp_back = []     # (condition, phase', quoted', A', p')
            exp_ret = []      # (condition, kind, payload)
            if phase == 'PRE':
                exp_back += [('C01', zand(inb, zeq(c, SP)), 'PRE', False, S(0, []), p + 1), ('C01', zand(inb, zeq(c, DQ)), 'MID', True, S(0, []), p + 1),
                             ('C01', zand(inb, zeq(c, BS)), 'CTL', False, S(0, []), p + 1),
                             ('C01', zand(inb, c != SP, c != DQ, c != BS, c != HASH), 'MID', False, S(1, [c]), p + 1)]
                exp_ret += [('C01', zand(inb, zeq(c, HASH)), 'none', buf.len), ('C01', atend, 'none', p)]
            elif phase == 'MID':
                plain = zand(inb, c != BS, zimp(quoted, c != DQ), zimp(znot(quoted), zand(c != SP, c != HASH)))
                exp_back += [('C01', zand(inb, zeq(c, BS)), 'CTL', quoted, A, p + 1), ('C01', plain, 'MID', quoted, push(A, c), p + 1)]
                exp_ret += [('C01', zand(inb, quoted, zeq(c, DQ)), 'some', p + 1),
                            ('C01', zand(inb, znot(quoted), zeq(c, SP)), 'some', (p, p + 1)),     # the blank itself may or may not be consumed: the next scan skips blanks
                            ('C01', zand(inb, znot(quoted), zeq(c, HASH)), 'some', buf.len),
                            ('C01', zand(atend, znot(quoted)), 'some', p), ('C08', zand(atend, quoted), 'err', 'MissingEndQuotes')]
            elif phase == 'CTL':
                esc = zor(zeq(c, BS), zeq(c, DQ), zeq(c, 110), zeq(c, 114), zeq(c, 116))
                dec = zite(zeq(c, 110), LF, zite(zeq(c, 114), CR, zite(zeq(c, 116), TAB, c)))
                exp_back += [('C01', zand(inb, esc), 'MID', quoted, push(A, dec), p + 1), ('C02', zand(inb, zeq(c, DOLLAR)), 'VAR', quoted, A, p + 1)]
                exp_ret += [('C08', zand(inb, znot(esc), c != DOLLAR), 'err', 'ControlWithoutValidValue'), ('C08', atend, 'err', 'ControlWithoutValidValue')]
            else:
                exp_back += [('C02', zand(inb, zeq(c, LBRACE)), 'MID', quoted, push(push(push(A, BS), DOLLAR), LBRACE), p + 1)]
                exp_ret += [('C08', zand(inb, c != LBRACE), 'err', 'ControlWithoutValidValue'), ('C08', atend, 'err', 'ControlWithoutValidValue')]
            if part in ('C01n', 'C01e', 'C08n', 'C08e'):
                # name configurations (label, output variable, command): no quoting, no escapes; the second one also stops at '='
                e.assume(z3.Not(quoted))
                stop_eq = part.endswith('e'); P1, P8 = ('C01e', 'C08e') if stop_eq else ('C01n', 'C08n')
                if phase == 'PRE':
                    exp_back = [(P1, zand(inb, zeq(c, SP)), 'PRE', False, S(0, []), p + 1),
                                (P1, zand(inb, c != SP, c != HASH, c != DQ, c != BS, c != EQ), 'MID', False, S(1, [c]), p + 1)]
                    exp_ret = [(P1, zand(inb, zeq(c, HASH)), 'none', buf.len), (P1, atend, 'none', p),
                               (P8, zand(inb, zeq(c, DQ)), 'err', 'InvalidQuotesLocation'), (P8, zand(inb, zeq(c, BS)), 'err', 'InvalidControlLocation')]
                else:
                    exp_back = [(P1, zand(inb, c != SP, c != HASH, c != DQ, c != BS, c != EQ), 'MID', False, push(A, c), p + 1)]
                    exp_ret = [(P1, zand(inb, zeq(c, SP)), 'some', (p, p + 1)), (P1, zand(inb, zeq(c, HASH)), 'some', buf.len), (P1, atend, 'some', p),
                               (P8, zand(inb, zeq(c, BS)), 'err', 'InvalidControlLocation')]
                    if stop_eq: exp_ret.append((P1, zand(inb, zeq(c, EQ)), 'some', p))      # the caller must still see the '='
            if part == 'C02r':
                e.assume(zand(c != DQ, c != HASH)); e.assume(z3.Not(quoted))
                if phase == 'PRE':
                    exp_back = [('C02r', zand(inb, zeq(c, SP)), 'PRE', False, S(0, []), p + 1), ('C02r', zand(inb, c != SP), 'MID', False, S(1, [c]), p + 1)]
                    exp_ret = [('C02r', atend, 'none', p)]
                else:
                    exp_back = [('C02r', zand(inb, c != SP), 'MID', False, push(A, c), p + 1)]
                    exp_ret = [('C02r', zand(inb, zeq(c, SP)), 'some', (p, p + 1)), ('C02r', atend, 'some', p)]
            exp_back = [x[1:] for x in exp_back if x[0] == part]; exp_ret = [x[1:] for x in exp_ret if x[0] == part]
            # every path of the iteration continues, returns or panics (panic-freedom is an obligation of its own), so
            # "continues in the prescribed cases" + "does not continue in the return cases" pins down which of the two happens
            goes_on = back.g if back is not None else False
            for cnd, ph2, q2, A2, p2 in exp_back:
                obs.append((cnd, goes_on, '%s + char -> %s: the scanner keeps going' % (phase, ph2)))
                if back is not None:
                    s1 = read_state(cap, back)
                    obs.append((zand(back.g, cnd), is_phase(s1, ph2, q2, A2, p2), '%s + char -> %s with the prescribed accumulated text' % (phase, ph2)))
            for cnd, kind, payload in exp_ret:
                obs.append((cnd, znot(goes_on), '%s: the scan of this token ends here' % phase))
            # returns
            for tgt, est in exits.items():
                if not exp_ret: break
                rs, rv = (est, est.m.get((fid, 0))) if tgt == 'RET' else e.finish_from(fn, fid, tgt, est)
                if rs is None: continue
                for cnd, kind, payload in exp_ret:
                    if kind == 'err':
                        k = names.index(payload)
                        er = rv.p[1][0] if 1 in rv.p else None
                        mt = er.p[k][0] if er is not None and k in er.p else None
                        obs.append((zand(rs.g, cnd), False if mt is None else zand(zeq(rv.d, 1), zeq(er.d, k), zeq(mt.f[0].d, 1), zeq(mt.f[0].p[1][0], cap['line'])),
                                    '%s: %s is reported with the line number of the caller' % (phase, payload)))
                    else:
                        tup = rv.p[0][0] if 0 in rv.p else None
                        want_some = kind == 'some'
                        cond = False if tup is None else zand(zeq(rv.d, 0), zor(*[zeq(tup.f[0], x) for x in payload]) if isinstance(payload, tuple) else zeq(tup.f[0], payload), zeq(tup.f[1].d, 1 if want_some else 0),
                                                              str_eq(tup.f[1].p[1][0], A) if want_some and 1 in tup.f[1].p else (not want_some))
                        obs.append((zand(rs.g, cnd), cond, '%s: the token ends with the prescribed index and text' % phase))
        if part not in ('C01', 'C02r', 'C01n', 'C01e'): e.obligations = [o for o in e.obligations if False]      # panic / unwinding obligations of the iteration are claimed once, in C01
        for g, cnd, msg in obs: e.obligations.append(Obligation(g, cnd, '%s scanner lemma (%s): %s' % (part, phase, msg), 'assert', 'oracle'))
        lemmas += len(obs)
        jr.symex_time += time.time() - t0

        def extract(m, o=None, phase=phase):
            d = dict(kind='c01_lemma', part=part, phase=phase, buffer=solve.model_str(m, buf))
            if phase == 'BASE': d.update(p=solve.model_int(m, start), quoted=False, A='')
            else: d.update(p=solve.model_int(m, p), quoted=solve.model_bool(m, quoted), A=solve.model_str(m, A))
            return d
        plain = True
        if phase in ('MID', 'CTL', 'VAR'):      # counterexamples whose accumulated text is plain letters can be rebuilt as a real line
            plain = zand(*[zimp(A.len > i, zand(A.ch[i] >= 97, A.ch[i] <= 122)) for i in range(C)])
        if phase != 'BASE':      # ... and whose buffer goes on with one plain letter, so that the examined character is not at the (trimmed) end of the line
            plain = zand(plain, zimp(inb, zand(zeq(buf.len, p + 2), zeq(sel(buf.ch, p + 1, 0), 122))))
        res = discharge_known(e, jr, pid, {}, extract, prefer=plain)
        if phase != 'BASE' and back is not None:
            witness(jr, e, 'scanner lemma %s: the iteration continues' % phase, back.g, extract)
        H.finish_job(jr, e, res)
    jr.samples.append({'lemmas': lemmas})


def job_arglist_inductive(ctx, jr, K, control_as_char, pid='C01'):
    """The argument-list loop (parse_arguments_with_options): one iteration from an arbitrary list collected so far, with the
    token scanner replaced by an arbitrary result; and the forwarding function parse_next_argument."""
    from mirsym import induct
    from mirsym.models import vec_push
    jr.bounds = dict(arguments_collected_so_far=K, argument_chars=3, scanner='arbitrary result (any index, token or error)', control_as_char=control_as_char,
                     claim='per-iteration lemma; with the scanner lemmas it gives the argument list of a line of any length (DESIGN.md 8.6)')
    names = ctx.types.enums['types::error::ScriptError']
    RES = 'std::result::Result'; OPT = 'std::option::Option'
    # --- the forwarding function
    e = ctx.engine(unwind=3); t0 = time.time()
    buf = H.sym_str(e, 'buffer', 8); bufv = V(buf.len, buf.ch)
    idx = e.fresh_int('index', 0, 100)
    seen = []
    rk = e.fresh_int('scan.kind', 0, 2); rni = e.fresh_int('scan.next', 0, 100); rt = H.sym_str(e, 'scan.token', 3)
    ek = names.index('MissingEndQuotes')

    def scan_result(ty_tuple='(usize, std::option::Option<std::string::String>)'):
        tok = E(OPT, zite(rk == 0, 1, 0), {0: [], 1: [rt]})
        return E(RES, zite(rk == 2, 1, 0), {0: [T([rni, tok])], 1: [E('types::error::ScriptError', ek, {ek: [meta_new(1)]})]})

    def h_scan(eng, st1, a, callee):
        seen.append((st1.g, list(a))); return scan_result()
    e.hooks['parser::parse_next_value'] = h_scan
    st = State(True, {(0, 'meta'): meta_new(1)})
    rs, rv = e.run('core', 'parser::parse_next_argument', [P(0, 'meta'), bufv, idx, control_as_char], st)
    obs = [(True, len(seen) == 1, 'the scanner is called exactly once')]
    if len(seen) == 1:
        g_, a = seen[0]
        lt = e.deref(st, a[1]) if isinstance(a[1], (P, PV)) else a[1]
        obs.append((g_, zand(zeq(a[2], idx), zeq(a[3], True), True if control_as_char else zeq(a[4], True), zeq(a[5], False),      # allow_control is not consulted when backslashes are kept as characters
                          zeq(a[6], control_as_char), zeq(lt.len, buf.len)),
                    'the scanner gets the same buffer and index, quotes allowed, escapes %s' % ('kept as characters' if control_as_char else 'decoded')))
    obs.append((rs.g, deep_eq(rv, scan_result()), 'the scanner result is passed on unchanged'))
    for g, cnd, msg in obs: e.obligations.append(Obligation(g, cnd, '%s argument-list lemma (forward): %s' % (pid, msg), 'assert', 'oracle'))

    def extract0(m, o=None): return dict(kind='c01_arglist', part='forward', control_as_char=control_as_char)
    res = discharge_known(e, jr, pid, {}, extract0)
    jr.symex_time += time.time() - t0
    H.finish_job(jr, e, res)
    # --- the loop
    e = ctx.engine(unwind=3); t0 = time.time()
    buf = H.sym_str(e, 'buffer', 8); bufv = V(buf.len, buf.ch)
    start = e.fresh_int('start', 0, 100)
    seen = []
    rk = e.fresh_int('scan.kind', 0, 2); rni = e.fresh_int('scan.next', 0, 100); rt = H.sym_str(e, 'scan.token', 3)
    e.hooks['parser::parse_next_argument'] = h_scan
    st = State(True, {(0, 'meta'): meta_new(1)})
    fr = induct.capture(e, 'core', 'parser::parse_arguments_with_options', [P(0, 'meta'), bufv, start, control_as_char], st)
    fr.require(['arguments', 'index'])
    obs = [(fr.st.g, zand(zeq(fr.get(fr.st, 'arguments').len, 0), zeq(fr.get(fr.st, 'index'), start)), 'entry: nothing collected, index = start index')]
    AV = V(e.fresh_int('collected', 0, K), [H.sym_str(e, 'arg%d' % i, 3) for i in range(K)])
    i0 = e.fresh_int('i', 0, 100)
    st1 = fr.state(True, arguments=AV, index=i0)
    exits, back = fr.step(st1)
    goes_on = back.g if back is not None else False
    obs.append((True, len(seen) == 1, 'the scanner is called exactly once per iteration'))
    if len(seen) == 1:
        g_, a = seen[0]
        obs.append((g_, zand(zeq(a[2], i0), zeq(a[3], control_as_char)), 'the scan starts at the index where the previous token ended'))
    obs.append((zeq(rk, 0), goes_on, 'a token: the loop continues'))
    obs.append((rk != 0, znot(goes_on), 'no token or an error: the loop ends'))
    if back is not None:
        av2 = fr.get(back, 'arguments')
        exp = V(AV.len + 1, [merge(zeq(AV.len, i), rt, AV.it[i] if i < K else rt) for i in range(K + 1)])
        obs.append((zand(back.g, rk == 0), zand(deep_eq(av2, exp), zeq(fr.get(back, 'index'), rni)), 'the token is appended and the index moves to where the scanner stopped'))
    for rs, rv in fr.returns(exits):
        okv = rv.p[0][0] if 0 in rv.p else None
        obs.append((zand(rs.g, rk == 1), False if okv is None else zand(zeq(rv.d, 0), zite(zeq(AV.len, 0), zeq(okv.d, 0), zand(zeq(okv.d, 1), deep_eq(okv.p[1][0], AV) if 1 in okv.p else False))),
                    'end of the arguments: exactly the collected list is returned (none when empty)'))
        obs.append((zand(rs.g, rk == 2), zand(zeq(rv.d, 1), zeq(rv.p[1][0].d, ek)) if 1 in rv.p else False, 'a scanner error is passed on'))
    for g, cnd, msg in obs: e.obligations.append(Obligation(g, cnd, '%s argument-list lemma (loop): %s' % (pid, msg), 'assert', 'oracle'))

    def extract(m, o=None): return dict(kind='c01_arglist', part='loop', control_as_char=control_as_char, collected=solve.model_int(m, AV.len), scan_kind=solve.model_int(m, rk))
    res = discharge_known(e, jr, pid, {}, extract)
    witness(jr, e, 'argument-list lemma: the loop continues with two collected', zand(goes_on, zeq(AV.len, 2)), extract)
    jr.symex_time += time.time() - t0
    H.finish_job(jr, e, res)


# ---------------------------------------------------------------------- reference reading of one line (used only to judge native replays)
def ref_name(s, i, stop_eq):
    """a name token (label, output variable, command) from position i: (next index, text or None) or an error kind"""
    while i < len(s) and s[i] == ' ': i += 1
    if i >= len(s): return (i, None)
    if s[i] == '#': return (len(s), None)
    if s[i] == '"': return 'InvalidQuotesLocation'
    if s[i] == '\\': return 'InvalidControlLocation'
    A = s[i]; i += 1          # the first character of a token is taken as it is (an = there does not end the token)
    while i < len(s):
        c = s[i]
        if c == '\\': return 'InvalidControlLocation'
        if c == ' ': return (i, A)
        if c == '#': return (len(s), A)
        if stop_eq and c == '=': return (i, A)
        A += c; i += 1
    return (i, A)


def ref_line(text):
    """documented reading of one line without pre-processor directive: dict(type, label, output, command, arguments) | error kind | None (not covered)"""
    s = text.strip(' \t')
    if s != text.strip(): return None
    if not s or s[0] == '#': return dict(type='empty')
    if s[0] == '!' or '\n' in s or '\r' in s: return None
    i = 0; label = output = command = None
    if s[0] == ':':
        r = ref_name(s, 1, False)
        if isinstance(r, str): return r
        i, v = r
        if v is None: return 'EmptyLabel' if False else None      # ':' followed by nothing: outside the documented forms
        label = ':' + v
    r = ref_name(s, i, True)
    if isinstance(r, str): return r
    i, v = r
    if v is not None:
        j = i
        while j < len(s) and s[j] == ' ': j += 1
        if j < len(s) and s[j] == '=':
            output = v
            r = ref_name(s, j + 1, False)
            if isinstance(r, str): return r
            i2, c2 = r
            if c2 is None: i = j + 1
            else: command = c2; i = i2
        else: command = v
    args = ref_tokens(s[i:])
    if isinstance(args, str): return args
    if label is None and output is None and command is None: return dict(type='empty')
    return dict(type='script', label=label, output=output, command=command, arguments=args or None)


def native_vs_ref_line(text):
    """(differs, explanation, native outcome) for one line"""
    exp = ref_line(text)
    if exp is None: return (None, 'line outside the reference reader', None)
    out = H.replay(dict(mode='parse', text=text))
    if out.get('panic'): return (True, 'native panic', out)
    if isinstance(exp, str):
        return (bool(out.get('ok')) or out['error']['kind'] != exp or out['error']['line'] != 1, 'documented: error %s at line 1; native: %r' % (exp, out.get('error') or 'ok'), out)
    if not out.get('ok'): return (True, 'native parse error %s; documented: %r' % (out['error']['kind'], exp), out)
    i0 = out['instructions'][0]
    if exp['type'] == 'empty': return (i0['type'] != 'empty', 'native %r; documented: empty' % (i0,), out)
    same = i0['type'] == 'script' and all(i0.get(x) == exp[x] for x in ('label', 'output', 'command', 'arguments'))
    return (not same, 'native %r; documented %r' % (i0, exp), out)
