"""C01 - a line written with the documented syntax parses back to the same instruction."""
import time
import z3
from mirsym import harness as H, solve
from mirsym.values import *
from mirsym.engine import State, Obligation, some, none
from mirsym.models import is_ws
from .common import *

PID = 'C01'


from mirsym.harness import process_failed, witness, discharge_known


# ---------------------------------------------------------------------- harness A: whole line
def job_line(ctx, jr, L, name_cap, nargs, arg_cap, shape=None):
    jr.bounds = dict(line_chars=L, name_chars=name_cap, arguments=nargs, argument_chars=arg_cap, alphabet='all Unicode scalar values')
    e = ctx.engine(unwind=L + 2)
    t0 = time.time()
    has_label, has_out, has_cmd, has_comment = [e.fresh_bool(n) for n in ('has_label', 'has_out', 'has_cmd', 'has_comment')]
    if shape is not None:       # case split on the instruction shape: one job per shape, contents stay symbolic
        has_label, has_out, has_cmd = [bool(x) for x in shape]
        jr.bounds['shape'] = 'label=%s output=%s command=%s' % tuple(shape)
    label = H.sym_str(e, 'label', name_cap); out = H.sym_str(e, 'out', name_cap); cmd = H.sym_str(e, 'cmd', name_cap)
    argc = e.fresh_int('argc', 0, nargs)
    args = [H.sym_str(e, 'arg%d' % i, arg_cap) for i in range(nargs)]
    quoted = [e.fresh_bool('quoted%d' % i) for i in range(nargs)]
    comment = H.sym_str(e, 'comment', 2)
    cons = [zimp(has_label, name_ok(label)), zimp(has_out, name_ok(out, (COLON,))), zimp(has_cmd, name_ok(cmd, (COLON,))),
            zimp(znot(has_cmd), argc == 0), no_char(comment, [LF])]
    # the first token of a line must not start the pre-processor syntax
    cons.append(zimp(zand(znot(has_label), has_out), out.ch[0] != BANG))
    cons.append(zimp(zand(znot(has_label), znot(has_out), has_cmd), cmd.ch[0] != BANG))
    buf = Buf(L)
    buf.spaces(e, 'lead', 0, 1)
    buf.push(COLON, has_label); buf.append(label, has_label)
    k = e.fresh_int('sp_label', 1, 2)
    follows = zor(has_out, has_cmd)
    buf.push(SP, zand(has_label, follows)); buf.push(SP, zand(has_label, follows, k > 1))
    buf.append(out, has_out)
    k1 = e.fresh_int('sp_eq_l', 0, 1); k2 = e.fresh_int('sp_eq_r', 0, 1)
    buf.push(SP, zand(has_out, k1 > 0)); buf.push(EQ, has_out); buf.push(SP, zand(has_out, k2 > 0))
    buf.append(cmd, has_cmd)
    for i in range(nargs):
        ex = simp(i < argc)
        ks = e.fresh_int('sp_arg%d' % i, 1, 2)
        buf.push(SP, ex); buf.push(SP, zand(ex, ks > 1))
        cons.append(zimp(ex, render_arg(e, buf, args[i], quoted[i], 'arg%d' % i, ex)))
    # an unquoted first argument starting with '=' would read as "output = command": must be quoted
    cons.append(zimp(zand(has_cmd, znot(has_out), argc >= 1, znot(quoted[0])), args[0].ch[0] != EQ))
    kt = e.fresh_int('sp_trail', 0, 1)
    buf.push(SP, kt > 0)
    buf.push(HASH, has_comment); buf.append(comment, has_comment)
    line = buf.s
    cons += [line.len >= 1, line.len <= L]
    e.assume(zand(*cons))
    text = S(line.len, line.ch, ('lines', 1, [line]))
    st = State(True, {})
    rs, rv = e.run('core', 'parser::parse_text', [text], st)
    jr.symex_time = time.time() - t0
    if rs is None: raise Abort('parse_text never returns')
    # ---- oracle: identity
    okc = res_ok(rv); ins_v = res_instrs(rv)
    ins = ins_v.it[0] if ins_v.it else None
    checks = [('result is Ok', okc)]
    if ins is not None:
        checks.append(('exactly one instruction', zimp(okc, zeq(ins_v.len, 1))))
        ity = instr_type(ins)
        empty_shape = zand(znot(has_label), znot(has_out), znot(has_cmd))
        checks.append(('instruction kind', zimp(okc, zeq(ity.d, zite(empty_shape, 0, 2)))))
        checks.append(('line number 1', zimp(okc, zand(zeq(instr_line(ins).d, 1), zeq(instr_line(ins).p[1][0], 1)))))
        si = script_of(ins)
        if si is not None:
            isscript = zand(okc, zeq(ity.d, 2))
            full_label = str_concat(mk_str(':'), label)
            checks.append(('label', zimp(isscript, opt_eq_str(si.f[0], has_label, full_label))))
            checks.append(('output', zimp(isscript, opt_eq_str(si.f[1], has_out, out))))
            checks.append(('command', zimp(isscript, opt_eq_str(si.f[2], has_cmd, cmd))))
            av = si.f[3]
            checks.append(('arguments None iff zero', zimp(isscript, zeq(av.d, zite(argc == 0, 0, 1)))))
            if 1 in av.p:
                lst = av.p[1][0]
                checks.append(('argument count', zimp(zand(isscript, argc >= 1), zeq(lst.len, argc))))
                for i in range(nargs):
                    if i < len(lst.it):
                        checks.append(('argument %d text' % i, zimp(zand(isscript, argc > i), str_eq(lst.it[i], args[i]))))
                    else:
                        checks.append(('argument %d text' % i, zimp(isscript, znot(argc > i))))
    for msg, c in checks:
        e.obligations.append(Obligation(rs.g, c, 'C01 line: ' + msg, 'assert', 'oracle'))

    def extract(m, o=None):
        nargs_m = solve.model_int(m, argc)
        return dict(kind='c01_line', text=solve.model_str(m, line),
                    expected=dict(label=(':' + solve.model_str(m, label)) if solve.model_bool(m, has_label) else None,
                                  output=solve.model_str(m, out) if solve.model_bool(m, has_out) else None,
                                  command=solve.model_str(m, cmd) if solve.model_bool(m, has_cmd) else None,
                                  arguments=[solve.model_str(m, args[i]) for i in range(nargs_m)] or None))
    res = solve.discharge(e)
    process_failed(jr, e, res, extract)
    witness(jr, e, 'a line of the shape with a comment', zand(rs.g, has_comment, line.len >= 3), extract)
    if has_cmd is not False and nargs:
        witness(jr, e, 'quoted argument with escape', zand(rs.g, has_cmd, argc >= 1, quoted[0], args[0].len >= 1, args[0].ch[0] == DQ), extract, optional=True)
    H.finish_job(jr, e, res)


# ---------------------------------------------------------------------- harness B: one token, deep
def job_token(ctx, jr, A, buf_cap):
    """parse_next_value in the argument configuration on: prefix, spaces, a rendered argument of <= A chars, suffix"""
    jr.bounds = dict(argument_chars=A, buffer_chars=buf_cap, alphabet='all Unicode scalar values')
    e = ctx.engine(unwind=buf_cap + 2)
    t0 = time.time()
    arg = H.sym_str(e, 'arg', A); quoted = e.fresh_bool('quoted')
    start = e.fresh_int('start', 0, 2)
    prefix = H.sym_str(e, 'prefix', 2)
    buf = Buf(buf_cap)
    e.assume(prefix.len == start)
    buf.append(prefix)
    buf.spaces(e, 'lead', 0, 2)
    tok_start = buf.s.len
    allowed = render_arg(e, buf, arg, quoted, 'arg')
    tok_end = buf.s.len
    # suffix: end of buffer | space + up to 2 arbitrary | (unquoted) '#' + up to 2 arbitrary | (quoted) any char
    kind = e.fresh_int('suffix', 0, 3)
    tail = H.sym_str(e, 'tail', 2)
    buf.push(SP, kind == 1); buf.push(HASH, kind == 2)
    buf.append(tail, kind >= 1)
    line = buf.s
    cons = [allowed, line.len <= buf_cap, zimp(kind == 3, zand(quoted, tail.len >= 1))]
    e.assume(zand(*cons))
    lv = V(line.len, line.ch)
    st = State(True, {(0, 'meta'): meta_new(1)})
    rs, rv = e.run('core', 'parser::parse_next_value', [P(0, 'meta'), lv, start, True, True, False, False], st)
    jr.symex_time = time.time() - t0
    okc = res_ok(rv); tup = rv.p[0][0]; idx = tup.f[0]; val = tup.f[1]
    checks = [('result is Ok', okc),
              ('token text', zimp(okc, opt_eq_str(val, True, arg))),
              ('next index', zimp(okc, zeq(idx, zite(zand(znot(quoted), kind == 2), line.len, tok_end))))]
    for msg, c in checks:
        e.obligations.append(Obligation(rs.g, c, 'C01 token: ' + msg, 'assert', 'oracle'))

    def extract(m, o=None):
        return dict(kind='c01_token', buffer=solve.model_str(m, line), start=solve.model_int(m, start), expected=solve.model_str(m, arg),
                    quoted=solve.model_bool(m, quoted))
    res = solve.discharge(e)
    process_failed(jr, e, res, extract)
    witness(jr, e, 'quoted with every escape kind', zand(rs.g, quoted, arg.len >= 3, arg.ch[0] == BS, arg.ch[1] == LF, arg.ch[2] == DQ), extract)
    witness(jr, e, 'unquoted followed by comment', zand(rs.g, znot(quoted), kind == 2, arg.len >= 2), extract)
    H.finish_job(jr, e, res)


# ---------------------------------------------------------------------- harness C: scripts of n rendered lines
def job_script(ctx, jr, n, name_cap, arg_cap):
    """n lines, each `[out =] cmd [arg]` or blank/comment, LF and CRLF: n instructions in order, i-th has line i"""
    jr.bounds = dict(lines=n, name_chars=name_cap, argument_chars=arg_cap)
    e = ctx.engine(unwind=max(8, 2 * name_cap + arg_cap + 8))
    t0 = time.time()
    count = e.fresh_int('count', 1, n)
    lines = []; exp = []; cons = []
    for i in range(n):
        has_out = e.fresh_bool('l%d.has_out' % i); has_cmd = e.fresh_bool('l%d.has_cmd' % i); has_arg = e.fresh_bool('l%d.has_arg' % i)
        out = H.sym_str(e, 'l%d.out' % i, name_cap); cmd = H.sym_str(e, 'l%d.cmd' % i, name_cap); arg = H.sym_str(e, 'l%d.arg' % i, arg_cap)
        q = e.fresh_bool('l%d.q' % i)
        b = Buf(2 * name_cap + 2 * arg_cap + 8)
        b.append(out, has_out); b.push(SP, has_out); b.push(EQ, has_out); b.push(SP, has_out)
        b.append(cmd, has_cmd); b.push(SP, zand(has_cmd, has_arg))
        cons.append(zimp(zand(has_cmd, has_arg), render_arg(e, b, arg, q, 'l%d.arg' % i, zand(has_cmd, has_arg))))
        cons += [zimp(has_out, name_ok(out, (COLON, BANG))), zimp(has_cmd, name_ok(cmd, (COLON, BANG))), zimp(has_out, has_cmd),
                 zimp(zand(has_cmd, has_arg, znot(has_out), znot(q)), arg.ch[0] != EQ)]
        lines.append(b.s); exp.append((has_out, out, has_cmd, cmd, has_arg, arg))
    text, tcons = text_of_lines(e, lines, count)
    e.assume(zand(tcons, *cons))
    rs, rv = e.run('core', 'parser::parse_text', [text], State(True, {}))
    jr.symex_time = time.time() - t0
    okc = res_ok(rv); iv = res_instrs(rv)
    checks = [('result is Ok', okc), ('one instruction per line', zimp(okc, zeq(iv.len, count)))]
    for i in range(n):
        if i >= len(iv.it): checks.append(('instruction %d exists' % i, znot(count > i))); continue
        ins = iv.it[i]; ex = zand(okc, count > i)
        has_out, out, has_cmd, cmd, has_arg, arg = exp[i]
        ln = instr_line(ins)
        checks.append(('line number of instruction %d' % i, zimp(ex, zand(zeq(ln.d, 1), zeq(ln.p[1][0], i + 1)))))
        ity = instr_type(ins)
        checks.append(('kind of instruction %d' % i, zimp(ex, zeq(ity.d, zite(has_cmd, 2, 0)))))
        si = script_of(ins)
        if si is not None:
            sc = zand(ex, zeq(ity.d, 2))
            checks.append(('output %d' % i, zimp(sc, opt_eq_str(si.f[1], has_out, out))))
            checks.append(('command %d' % i, zimp(sc, opt_eq_str(si.f[2], has_cmd, cmd))))
            av = si.f[3]
            checks.append(('arguments %d' % i, zimp(sc, zeq(av.d, zite(has_arg, 1, 0)))))
            if 1 in av.p and av.p[1][0].it:
                checks.append(('argument text %d' % i, zimp(zand(sc, has_arg), zand(zeq(av.p[1][0].len, 1), str_eq(av.p[1][0].it[0], arg)))))
    for msg, c in checks:
        e.obligations.append(Obligation(rs.g, c, 'C01 script: ' + msg, 'assert', 'oracle'))

    def extract(m, o=None):
        k = solve.model_int(m, count)
        expd = []
        for i in range(k):
            has_out, out, has_cmd, cmd, has_arg, arg = exp[i]
            hc = solve.model_bool(m, has_cmd)
            expd.append(dict(line=i + 1, output=solve.model_str(m, out) if solve.model_bool(m, has_out) else None,
                             command=solve.model_str(m, cmd) if hc else None,
                             arguments=[solve.model_str(m, arg)] if hc and solve.model_bool(m, has_arg) else None))
        return dict(kind='c01_script', text=solve.model_str(m, text), expected=expd)
    res = solve.discharge(e)
    process_failed(jr, e, res, extract)
    witness(jr, e, 'n lines with CRLF', zand(rs.g, count == n, text.len >= 2 * n), extract)
    H.finish_job(jr, e, res)


# ---------------------------------------------------------------------- native replay
def replayer(v):
    k = v.get('kind')
    if k in ('c01_line', 'c01_script'):
        out = H.replay(dict(mode='parse', text=v['text']))
        v['native'] = out
        if out.get('panic'): return (True, 'native panic')
        if not out.get('ok'): return (True, 'native parse error %s' % out.get('error'))
        ins = [i for i in out['instructions']]
        if k == 'c01_line':
            exp = v['expected']
            if len(ins) != 1: return (True, 'native instruction count %d' % len(ins))
            i0 = ins[0]
            if i0['type'] == 'empty':
                same = all(exp[x] is None for x in ('label', 'output', 'command'))
            else:
                same = all(i0.get(x) == exp[x] for x in ('label', 'output', 'command', 'arguments'))
            return (not same or i0.get('line') != 1, 'native: %r' % i0)
        exp = v['expected']
        if len(ins) != len(exp): return (True, 'native instruction count %d' % len(ins))
        for a, b in zip(ins, exp):
            if a.get('line') != b['line']: return (True, 'line number')
            if b['command'] is None:
                if a['type'] != 'empty': return (True, 'kind')
            elif any(a.get(x) != b[x] for x in ('output', 'command', 'arguments')): return (True, 'fields: %r' % a)
        return (False, 'native agrees with the oracle')
    if k == 'c01_token':
        # the token scanner is private: replay through a whole line `c <buffer from start>`
        text = 'c ' + v['buffer'][v['start']:]
        out = H.replay(dict(mode='parse', text=text)); v['native'] = out
        if out.get('panic'): return (True, 'native panic')
        if not out.get('ok'): return (True, 'native parse error')
        a = out['instructions'][0].get('arguments') or []
        return ((not a) or a[0] != v['expected'], 'native first argument %r' % (a[:1],))
    return (None, 'no replayer for %r' % k)


def main(tier, seed):
    chk = H.Check(PID, tier, seed, crates=('core',))
    chk.replayer = replayer
    shapes = [(a, b, c) for a in (0, 1) for b in (0, 1) for c in (0, 1)]
    if tier == 'quick':
        for sh in shapes: chk.job(job_line, 'A:line<=8 shape=%d%d%d' % sh, L=8, name_cap=2, nargs=2, arg_cap=3, shape=sh)
        chk.job(job_token, 'B:token<=5', A=5, buf_cap=12)
        chk.job(job_script, 'C:script<=3', n=3, name_cap=1, arg_cap=1)
        chk.bounds = dict(A='rendered line <= 8 chars, names <= 2, <= 2 args x <= 3 chars, one job per instruction shape',
                          B='argument <= 5 chars in a buffer <= 12', C='<= 3 lines of [out =] cmd [arg], names 1 char, arg <= 1 char')
    else:
        for sh in shapes: chk.job(job_line, 'A:line<=10 shape=%d%d%d' % sh, L=10, name_cap=2, nargs=2, arg_cap=3, shape=sh)
        chk.job(job_line, 'A:line<=9,3args', L=9, name_cap=1, nargs=3, arg_cap=2, shape=(0, 0, 1))
        chk.job(job_token, 'B:token<=6', A=6, buf_cap=14)
        chk.job(job_script, 'C:script<=4', n=4, name_cap=1, arg_cap=2)
        chk.bounds = dict(A='rendered line <= 10 chars (names <= 2, <= 2 args x <= 3), per shape; <= 9 chars with 3 args x <= 2',
                          B='argument <= 6 chars in a buffer <= 14', C='<= 4 lines, names 1 char, arg <= 2 chars')
    chk.assumptions = ['std models (mirsym/models.py) for String/Vec/str::lines/trim/chars; str::lines is applied to a text built line by line',
                       'unquoted rendering only for non-empty arguments without white space or #; first unquoted argument not starting with = when no output',
                       'names: no white space, quote, backslash, #, =; not starting with : (or ! as first token)']
    results = chk.run()
    return chk.finish(results, 'every obligation is a solver query over all inputs within the bounds; samples are solver-produced witnesses')
