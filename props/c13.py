"""C13 - setting the halt flag stops the run at the next instruction boundary.

Same harness as C03 with Atomic<bool>::load returning b_j at the j-th load, b a symbolic monotone sequence: every
instant at which a command or another thread can have raised the flag is a flip position of b (under SeqCst the
only point where the other thread's store can influence the runner is the value returned by a load)."""
from . import c03

PID = 'C13'
def replayer(v):
    if v.get('kind') == 'lemma' and v.get('level') == 'env':
        from mirsym import harness as H
        out = H.replay(dict(mode='env_wiring')); v['native'] = out
        if out.get('panic'): return (True, 'native panic')
        bad = [c for c in out.get('cases', []) if not c['same_flag'] or c['started'] != 0]
        return (bool(bad), 'the flag passed to Env::new is not the one the runner polls for %r' % bad if bad else 'natively the runner polls the flag passed to Env::new for every combination of writers')
    return c03.replayer(v)


def main(tier, seed):
    return c03.main(tier, seed, pid=PID, halting=True, extra_jobs=[(job_env_wiring, 'step:environment wiring', {})], replayer_fn=replayer)


# ---------------------------------------------------------------------- the flag the runner polls is the flag the embedder holds
def job_env_wiring(ctx, jr):
    """Env::new and create_runtime / Runtime::new (straight-line): whatever combination of output writers is passed, the halt flag
    of the environment the runner ends up with is the very Arc the embedder passed in (pointer identity on the engine heap)."""
    import time as _t
    from mirsym import harness as H, solve
    from mirsym.values import T, E, P, PV, Opaque, M, V, zeq, zand, zite, deep_eq, mk_str
    from mirsym.engine import State, Obligation, some, none, OPTION
    from mirsym.harness import discharge_known, witness
    jr.bounds = dict(out='given or not', err='given or not', halt='given', claim='straight-line lemmas; the step lemma of run_instructions then polls runtime.env.halt')
    e = ctx.engine(unwind=3); t0 = _t.time()
    st = State(True, {})
    flag = e.alloc(st, False)                    # the embedder's Arc<AtomicBool>
    ho = e.fresh_bool('out.given'); he = e.fresh_bool('err.given')
    out_o = E(OPTION, zite(ho, 1, 0), {0: [], 1: [Opaque('writer:out')]}); err_o = E(OPTION, zite(he, 1, 0), {0: [], 1: [Opaque('writer:err')]})
    for pat in ('std::io::stdout', 'std::io::stderr'): e.hooks[pat] = lambda eng, st1, a, c: Opaque('std stream')
    rs, env = e.run('core', 'types::env::Env::new', [out_o, err_o, some(flag)], st)
    from mirsym.values import U, zor
    def ptr_same(x):
        if isinstance(x, P): return (x.fid, x.loc, tuple(x.proj)) == (flag.fid, flag.loc, tuple(flag.proj))
        if isinstance(x, U): return zor(*[zand(c, ptr_same(y)) for c, y in x.alts])
        return False
    obs = [(rs.g, ptr_same(env.f[2]), 'Env::new keeps the halt flag of the caller for every combination of writers')]
    # Runtime::new / create_runtime keep the environment of the caller
    ctxv = T([M([]), M([]), T([M([]), M([])], 'types::command::Commands')], 'types::runtime::Context')
    rs2, rt = e.run('core', 'runner::create_runtime', [V(0, []), ctxv, some(env)], rs)
    h2 = rt.f[3].f[2]
    obs.append((rs2.g, ptr_same(h2), 'the runtime polls the environment of the caller (same halt flag)'))
    for g, cnd, msg in obs: e.obligations.append(Obligation(g, cnd, 'C13 environment wiring: %s' % msg, 'assert', 'oracle'))
    jr.symex_time += _t.time() - t0
    res = discharge_known(e, jr, PID, {}, lambda m, o=None: dict(kind='lemma', level='env', out_given=solve.model_bool(m, ho), err_given=solve.model_bool(m, he)))
    witness(jr, e, 'environment wiring: no writer given', zand(rs.g, zeq(ho, False), zeq(he, False)), lambda m, o=None: dict(kind='lemma', level='env'))
    H.finish_job(jr, e, res)
