"""C13 - setting the halt flag stops the run at the next instruction boundary.

Same harness as C03 with Atomic<bool>::load returning b_j at the j-th load, b a symbolic monotone sequence: every
instant at which a command or another thread can have raised the flag is a flip position of b (under SeqCst the
only point where the other thread's store can influence the runner is the value returned by a load)."""
from . import c03

PID = 'C13'
replayer = c03.replayer


def main(tier, seed):
    return c03.main(tier, seed, pid=PID, halting=True)
