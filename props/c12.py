"""C12 - arrays, maps and sets behind handles behave like their plain counterparts (reduced scope: Rust-implemented commands)."""
import time, os
import z3
from mirsym import harness as H, solve
from mirsym.values import *
from mirsym.engine import State, Obligation, some, none, OPTION
from mirsym.harness import process_failed, witness, discharge_known
from mirsym.models import map_lookup, str_concat, int_to_str, str_parse_int, vec_push
from .common import *
from .c06 import invocation_context, run_command
from .c03 import choose
from .c11 import hook_put_handle

PID = 'C12'
SV = 'types::runtime::StateValue'
HANDLES = ['handle:A', 'handle:B', 'handle:C']
ARGH = HANDLES + ['handle:Z', 'x']          # + an unknown handle and a non-handle string
CONT, ERR = 0, 2
CMD = {
    'array_push': 'collections::array_push', 'array_pop': 'collections::array_pop', 'array_get': 'collections::array_get', 'array_set': 'collections::array_set',
    'array_remove': 'collections::array_remove', 'array_clear': 'collections::array_clear', 'array_length': 'collections::array_length',
    'map_put': 'collections::map_put', 'map_get': 'collections::map_get', 'map_remove': 'collections::map_remove', 'map_size': 'collections::map_size', 'map_clear': 'collections::map_clear',
    'set_put': 'collections::set_put', 'set_remove': 'collections::set_remove', 'set_contains': 'collections::set_contains', 'set_size': 'collections::set_size', 'set_clear': 'collections::set_clear',
    'is_array': 'collections::is_array', 'is_map': 'collections::is_map', 'is_set': 'collections::is_set', 'release': 'release', 'release -r': 'release',
}
KIND_OF = {'array': 'List', 'map': 'SubState', 'set': 'Set'}


def variants(ctx): return ctx.types.enums[SV]


def sv_string(ctx, s): k = variants(ctx).index('String'); return E(SV, k, {k: [s]})


def sym_handle_value(ctx, e, name, vcap):
    """a StateValue of symbolic kind (all 13 variants) with a small symbolic payload"""
    vs = variants(ctx)
    d = e.fresh_int(name + '.kind', 0, len(vs) - 1)
    def val(tag):
        """a stored value: an arbitrary short string, or a string that is the key of one of the handles"""
        looks = e.fresh_bool('%s.%s.looks_like_handle' % (name, tag)); hx = e.fresh_int('%s.%s.h' % (name, tag), 0, len(HANDLES) - 1)
        return merge(looks, choose(hx, HANDLES), H.sym_str(e, '%s.%s' % (name, tag), vcap))
    # list items: strings (array, array_push, array_set ...) or the numbers that `range` stores (Number64Bit); the numbers of one list are
    # increasing (range makes a run of consecutive numbers; later commands can only remove or overwrite them)
    STRK, N64 = vs.index('String'), vs.index('Number64Bit')
    isnum = [e.fresh_bool('%s.item%d.is_number' % (name, i)) for i in range(2)]; nums = [e.fresh_int('%s.item%d.n' % (name, i), 0, 9) for i in range(2)]
    e.assume(z3.Implies(z3.And(isnum[0], isnum[1]), nums[0] < nums[1]))
    items = [E(SV, zite(isnum[i], N64, STRK), {STRK: [val('item%d' % i)], N64: [nums[i]]}) for i in range(2)]
    lst = V(e.fresh_int(name + '.len', 0, 2), items)
    sk = [val('sk%d' % i) for i in range(2)]
    sp = [e.fresh_bool('%s.sp%d' % (name, i)) for i in range(2)]
    e.assume(z3.Implies(z3.And(sp[0], sp[1]), z3.Not(str_eq(sk[0], sk[1]))))
    setv = M([(sp[i], sk[i], UNIT) for i in range(2)])
    mk = [H.sym_str(e, '%s.mk%d' % (name, i), vcap) for i in range(2)]
    mp = [e.fresh_bool('%s.mp%d' % (name, i)) for i in range(2)]
    e.assume(z3.Implies(z3.And(mp[0], mp[1]), z3.Not(str_eq(mk[0], mk[1]))))
    mapv = M([(mp[i], mk[i], sv_string(ctx, val('mv%d' % i))) for i in range(2)])
    p = {}
    for i, v in enumerate(vs):
        if v == 'Boolean': p[i] = [e.fresh_bool(name + '.b')]
        elif v in ('Number', 'UnsignedNumber', 'Number32Bit', 'UnsignedNumber32Bit', 'Number64Bit', 'UnsignedNumber64Bit'): p[i] = [e.fresh_int(name + '.n', 0, 9)]
        elif v == 'String': p[i] = [H.sym_str(e, name + '.s', vcap)]
        elif v == 'ByteArray': p[i] = [V(0, [])]
        elif v == 'List': p[i] = [lst]
        elif v == 'Set': p[i] = [setv]
        elif v == 'SubState': p[i] = [mapv]
        elif v == 'Any': p[i] = [PV(M([]))]
    return E(SV, d, p), dict(list=lst, set=setv, map=mapv, d=d)


def item_str(ctx, it):
    """the string a stored item stands for (a number stored by `range` reads as its decimal form; 0..9 here)"""
    vs = variants(ctx); STRK, N64 = vs.index('String'), vs.index('Number64Bit')
    if N64 in it.p and is_sym(it.d): return merge(zeq(it.d, N64), S(1, [48 + it.p[N64][0]]), it.p[STRK][0])
    if N64 in it.p and it.d == N64: return S(1, [48 + it.p[N64][0]])
    return it.p[STRK][0]


def conc_item(ctx, m, it):
    """a stored item of a model: its string, or {'num': n} for a number stored by range"""
    vs = variants(ctx); N64 = vs.index('Number64Bit')
    if N64 in it.p and solve.model_int(m, it.d) == N64: return {'num': solve.model_int(m, it.p[N64][0])}
    return solve.model_str(m, it.p[vs.index('String')][0])


def map_eq(e, st, A, B):
    """two M values hold the same key -> value association"""
    cs = []
    for (p, k, v) in A.ents:
        f, bv, _ = map_lookup(e, st, B, k)
        cs.append(zimp(p, zand(f, sv_eq(e, st, v, bv) if bv is not POISON else False)))
    for (p, k, v) in B.ents:
        f, av, _ = map_lookup(e, st, A, k)
        cs.append(zimp(p, f))
    return zand(*cs)


def sv_eq(e, st, a, b):
    """StateValue / payload equality (maps and sets compared as associations)"""
    if a is b: return True
    if isinstance(a, M) and isinstance(b, M): return map_eq(e, st, a, b)
    if isinstance(a, T) and not a.f and isinstance(b, T) and not b.f: return True
    if isinstance(a, E) and isinstance(b, E):
        cs = [zeq(a.d, b.d)]
        for k in set(a.p) & set(b.p):
            cs.append(zimp(zeq(a.d, k), zand(*[sv_eq(e, st, x, y) for x, y in zip(a.p[k], b.p[k])])))
        for k in set(a.p) ^ set(b.p):
            cs.append(znot(zeq(a.d if k in a.p else b.d, k)) if (a.p.get(k) or b.p.get(k)) else True)
        return zand(*cs)
    if isinstance(a, V) and isinstance(b, V):
        cs = [zeq(a.len, b.len)]
        for i in range(min(len(a.it), len(b.it))): cs.append(zimp(i < a.len, sv_eq(e, st, a.it[i], b.it[i])))
        return zand(*cs)
    if isinstance(a, (PV, P)) or isinstance(b, (PV, P)): return True
    if isinstance(a, U): return zor(*[zand(c, sv_eq(e, st, x, b)) for c, x in a.alts])
    if isinstance(b, U): return zor(*[zand(c, sv_eq(e, st, a, x)) for c, x in b.alts])
    return deep_eq(a, b)


def job_command(ctx, jr, cmd, vcap):
    """one step of one collection command from a symbolic handle table with three handles of symbolic kinds"""
    jr.bounds = dict(command=cmd, live_handles='0..3 of symbolic kind (all 13 StateValue variants)', collection_sizes='<= 2', value_chars=vcap,
                     handle_argument='live / unknown / not a handle', index='<= 2 chars over digits and junk')
    vs = variants(ctx)
    e = ctx.engine(unwind=10, max_rec=5); e.int_digits = 2
    e.hooks['utils::state::put_handle'] = hook_put_handle
    t0 = time.time()
    present = [e.fresh_bool('h%d.present' % i) for i in range(3)]
    vals, parts = zip(*[sym_handle_value(ctx, e, 'h%d' % i, vcap) for i in range(3)])
    table = M([(present[i], mk_str(HANDLES[i]), vals[i]) for i in range(3)])
    SUB = vs.index('SubState')
    has_sub = e.fresh_bool('handles_substate_exists')
    state = M([(has_sub, mk_str('handles'), E(SV, SUB, {SUB: [table]}))])
    e.assume(z3.Implies(z3.Not(has_sub), z3.And(*[z3.Not(p) for p in present])))
    hi = e.fresh_int('arg.handle', 0, len(ARGH) - 1)
    harg = choose(hi, ARGH)
    v1 = H.sym_str(e, 'arg.v1', vcap); v2 = H.sym_str(e, 'arg.v2', vcap)
    idx = H.sym_str(e, 'arg.index', 2); e.assume(all_chars(idx, lambda c: zor(zand(c >= 48, c <= 57), zeq(c, 120), zeq(c, 45))))
    args = {'array_push': [harg, v1, v2], 'array_pop': [harg], 'array_get': [harg, idx], 'array_set': [harg, idx, v1], 'array_remove': [harg, idx], 'array_clear': [harg],
            'array_length': [harg], 'map_put': [harg, v1, v2], 'map_get': [harg, v1], 'map_remove': [harg, v1], 'map_size': [harg], 'map_clear': [harg],
            'set_put': [harg, v1, v2], 'set_remove': [harg, v1], 'set_contains': [harg, v1], 'set_size': [harg], 'set_clear': [harg],
            'is_array': [harg], 'is_map': [harg], 'is_set': [harg], 'release': [harg], 'release -r': [mk_str('-r'), harg]}[cmd]
    ctxv, st = invocation_context(e, V(len(args), args))
    st.m[(0, 'state')] = state
    rs, rv = run_command(e, 'sdk::std::%s::CommandImpl' % CMD[cmd], ctxv, st)
    jr.symex_time = time.time() - t0
    if cmd == 'release -r':
        # every recursive step removes a handle first, so with <= 3 live handles a recursion deeper than 4 means it does not terminate on a cyclic handle graph
        for o in e.obligations:
            if o.kind == 'unwind' and 'recursion bound' in o.msg: o.kind = 'panic'; o.msg = 'recursive release revisits a handle: unbounded recursion (stack overflow) on a cyclic handle graph'
    if rs is None: raise Abort('%s never returns' % cmd)
    # ---- post table
    post_state = e.read(rs, ('mem', 0, 'state', []))
    pf, psub, _ = map_lookup(e, rs, post_state, mk_str('handles'))
    post_table = psub.p[SUB][0] if isinstance(psub, E) and SUB in psub.p else M([])
    fam = cmd.split('_')[0] if cmd.split('_')[0] in KIND_OF else None
    if cmd == 'release -r': tgt_arg = 1
    want = vs.index(KIND_OF[fam]) if fam else None
    # which live slot does the handle argument name?
    tgt = [zand(present[i], zeq(hi, i)) for i in range(3)]
    live = zor(*tgt)
    tkind = 0
    for i in range(3): tkind = zite(tgt[i], parts[i]['d'], tkind)
    match = zand(live, zeq(tkind, want)) if fam else live
    checks = []
    for i in range(3):
        f, pv, _ = map_lookup(e, rs, post_table, mk_str(HANDLES[i]))
        same = zand(zeq(f, present[i]), zimp(present[i], sv_eq(e, rs, pv, vals[i]) if pv is not POISON else False))
        untouched = znot(zand(tgt[i], match)) if cmd not in ('is_array', 'is_map', 'is_set', 'array_length', 'map_size', 'set_size', 'array_get', 'map_get', 'set_contains') else True
        checks.append(('handle %s is unchanged unless it is the matching target' % HANDLES[i], zimp(untouched, same)))
    if fam and cmd not in ('is_array', 'is_map', 'is_set'):
        checks.append(('released / unknown / wrong-kind handle gives the error result', zimp(znot(match), zeq(rv.d, ERR))))
    if cmd.startswith('is_'):
        fam2 = {'is_array': 'List', 'is_map': 'SubState', 'is_set': 'Set'}[cmd]
        exp = zand(live, zeq(tkind, vs.index(fam2)))
        checks.append(('is_* answers the kind question', zand(zeq(rv.d, CONT), str_eq(rv.p[CONT][0].p[1][0], merge(exp, mk_str('true'), mk_str('false'))))))
    out = rv.p[CONT][0] if CONT in rv.p else None
    def outv(): return out.p[1][0] if out is not None and 1 in out.p else S(0, [])
    def pick(field):
        r = parts[2][field]
        for i in (1, 0): r = merge(tgt[i], parts[i][field], r)
        return r
    def post_of():
        r = POISON
        for i in range(3):
            f, pv, _ = map_lookup(e, rs, post_table, mk_str(HANDLES[i]))
            r = pv if r is POISON else merge(tgt[i], pv, r)
        return r
    pidx = str_parse_int(e, rs, idx, 'usize'); iok = zeq(pidx.d, 0); ival = pidx.p[0][0]
    def item_str(it): return globals()['item_str'](ctx, it)
    if fam == 'array':
        L = pick('list'); post = post_of()
        LIST = vs.index('List')
        plist = post.p[LIST][0] if isinstance(post, E) and LIST in post.p else V(0, [])
        if cmd == 'array_push':
            exp = vec_push(vec_push(L, sv_string(ctx, v1)), sv_string(ctx, v2))
            checks.append(('array_push appends the values verbatim', zimp(match, zand(zeq(rv.d, CONT), sv_eq(e, rs, plist, exp)))))
        elif cmd == 'array_pop':
            checks.append(('array_pop returns the last element', zimp(match, zand(zeq(rv.d, CONT), zeq(out.d, zite(L.len > 0, 1, 0)), zimp(L.len > 0, str_eq(outv(), item_str(sel(L.it, L.len - 1, L.it[0]))))))))
            checks.append(('array_pop removes exactly the last element', zimp(match, sv_eq(e, rs, plist, V(zite(L.len > 0, L.len - 1, 0), L.it)))))
        elif cmd == 'array_get':
            inr = zand(iok, ival < L.len)
            checks.append(('array_get returns the element or nothing', zimp(zand(match, iok), zand(zeq(rv.d, CONT), zeq(out.d, zite(inr, 1, 0)), zimp(inr, str_eq(outv(), item_str(sel(L.it, ival, L.it[0]))))))))
            checks.append(('array_get with a non numeric index is an error', zimp(znot(iok), zeq(rv.d, ERR))))
        elif cmd == 'array_set':
            inr = zand(iok, ival < L.len)
            checks.append(('array_set outside the array is an error and changes nothing', zimp(zand(match, znot(inr)), zand(zeq(rv.d, ERR), sv_eq(e, rs, plist, L)))))
            exp = V(L.len, [merge(zeq(ival, k), sv_string(ctx, v1), L.it[k]) for k in range(len(L.it))])
            checks.append(('array_set replaces exactly that element', zimp(zand(match, inr), zand(zeq(rv.d, CONT), sv_eq(e, rs, plist, exp)))))
        elif cmd == 'array_remove':
            inr = zand(iok, ival < L.len)
            checks.append(('array_remove outside the array is an error and changes nothing', zimp(zand(match, znot(inr)), zand(zeq(rv.d, ERR), sv_eq(e, rs, plist, L)))))
            exp = V(L.len - 1, [merge(ival <= k, L.it[k + 1] if k + 1 < len(L.it) else L.it[k], L.it[k]) for k in range(len(L.it))])
            checks.append(('array_remove removes exactly that element', zimp(zand(match, inr), sv_eq(e, rs, plist, exp))))
        elif cmd == 'array_length':
            checks.append(('array_length', zimp(match, zand(zeq(rv.d, CONT), str_eq(outv(), int_to_str(e, rs, L.len))))))
        elif cmd == 'array_clear':
            checks.append(('array_clear empties the array', zimp(match, zand(zeq(rv.d, CONT), zeq(plist.len, 0)))))
    if fam in ('map', 'set'):
        C = pick(fam); post = post_of(); K = vs.index(KIND_OF[fam])
        pc = post.p[K][0] if isinstance(post, E) and K in post.p else M([])
        kf, kv, _ = map_lookup(e, rs, C, v1)
        size = 0
        for p, k_, v_ in C.ents: size = size + zite(p, 1, 0)
        if cmd in ('map_size', 'set_size'): checks.append((cmd, zimp(match, zand(zeq(rv.d, CONT), str_eq(outv(), int_to_str(e, rs, size))))))
        if cmd == 'map_get': checks.append(('map_get returns the stored value verbatim or nothing', zimp(match, zand(zeq(rv.d, CONT), zeq(out.d, zite(kf, 1, 0)), zimp(kf, str_eq(outv(), item_str(kv)) if kv is not POISON else False)))))
        if cmd == 'set_contains': checks.append(('set_contains', zimp(match, zand(zeq(rv.d, CONT), str_eq(outv(), merge(kf, mk_str('true'), mk_str('false')))))))
        if cmd in ('map_clear', 'set_clear'): checks.append((cmd + ' empties it', zimp(match, zand(zeq(rv.d, CONT), znot(zor(*[p for p, _, _ in pc.ents]))))))
        if cmd in ('map_remove', 'set_remove'):
            f2, _, _ = map_lookup(e, rs, pc, v1)
            checks.append((cmd + ' removes exactly that key', zimp(match, zand(zeq(rv.d, CONT), znot(f2)))))
            for p, k_, v_ in C.ents:
                f3, v3, _ = map_lookup(e, rs, pc, k_)
                checks.append((cmd + ' keeps the other entries', zimp(zand(match, p, znot(str_eq(k_, v1))), zand(f3, sv_eq(e, rs, v3, v_) if v3 is not POISON else False))))
        if cmd == 'map_put':
            f2, nv, _ = map_lookup(e, rs, pc, v1)
            checks.append(('map_put stores the value verbatim under the key', zimp(match, zand(zeq(rv.d, CONT), f2, str_eq(item_str(nv), v2) if nv is not POISON else False))))
            for p, k_, v_ in C.ents:
                f3, v3, _ = map_lookup(e, rs, pc, k_)
                checks.append(('map_put keeps the other entries', zimp(zand(match, p, znot(str_eq(k_, v1))), zand(f3, sv_eq(e, rs, v3, v_) if v3 is not POISON else False))))
        if cmd == 'set_put':
            for x in (v1, v2):
                f2, _, _ = map_lookup(e, rs, pc, x); checks.append(('set_put adds the value', zimp(match, zand(zeq(rv.d, CONT), f2))))
            for p, k_, v_ in C.ents:
                f3, _, _ = map_lookup(e, rs, pc, k_); checks.append(('set_put keeps the members', zimp(zand(match, p), f3)))
    if cmd == 'release -r':
        checks = [('release -r answers whether the handle was live', zand(zeq(rv.d, CONT), str_eq(outv(), merge(live, mk_str('true'), mk_str('false')))))]
        for i in range(3):
            f, _, _ = map_lookup(e, rs, post_table, mk_str(HANDLES[i]))
            checks.append(('release -r removes the named handle', zimp(tgt[i], znot(f))))
    if cmd == 'release':
        checks.append(('release answers whether the handle was live', zand(zeq(rv.d, CONT), str_eq(outv(), merge(live, mk_str('true'), mk_str('false'))))))
        for i in range(3):
            f, _, _ = map_lookup(e, rs, post_table, mk_str(HANDLES[i]))
            checks.append(('release removes exactly the named handle', zimp(tgt[i], znot(f))))
    for msg, c in checks: e.obligations.append(Obligation(rs.g, c, 'C12 %s: %s' % (cmd, msg), 'assert', 'oracle'))

    def extract(m, o=None):
        def conc_sv(v):
            k = solve.model_int(m, v.d); name = vs[k]
            if name == 'List':
                l = v.p[k][0]; return ['array', [conc_item(ctx, m, x) for x in l.it[:solve.model_int(m, l.len)]]]
            if name == 'Set': return ['set', [solve.model_str(m, kk) for p, kk, _ in v.p[k][0].ents if solve.model_bool(m, p)]]
            if name == 'SubState': return ['map', {solve.model_str(m, kk): solve.model_str(m, item_str(vv)) for p, kk, vv in v.p[k][0].ents if solve.model_bool(m, p)}]
            return ['other', name]
        tab = {HANDLES[i]: conc_sv(vals[i]) for i in range(3) if solve.model_bool(m, present[i])}
        return dict(kind='c12', cmd=cmd, table=tab, args=[solve.model_str(m, a) if isinstance(a, S) else a for a in args])
    # phase 1: tables whose live handles are all collections (counterexamples there can be rebuilt natively with real commands)
    coll = zand(*[zimp(present[i], zor(*[zeq(parts[i]['d'], vs.index(k)) for k in ('List', 'Set', 'SubState')])) for i in range(3)])
    obs1 = [Obligation(zand(o.guard, coll), o.cond, o.msg, o.kind, o.where) for o in e.obligations]
    res = discharge_known(e, jr, PID, {}, extract, obligations=obs1)
    if not jr.violations:
        # phase 2: every kind of stored value (all 13 variants)
        res2 = discharge_known(e, jr, PID, {}, extract)
        res.total += res2.total; res.discharged += res2.discharged; res.queries += res2.queries; res.solver_time += res2.solver_time
    witness(jr, e, '%s on a matching live handle' % cmd, zand(rs.g, match), extract)
    if fam: witness(jr, e, '%s on a live handle of another kind' % cmd, zand(rs.g, live, znot(match)), extract)
    H.finish_job(jr, e, res)


CREATORS = {'array': 'collections::array', 'map': 'collections::map', 'set_new': 'collections::set', 'map_keys': 'collections::map_keys', 'set_to_array': 'collections::set_to_array'}


def job_creator(ctx, jr, cmd, vcap):
    """the commands that create a collection (array, map, set_new, map_keys, set_to_array) from a symbolic handle table: the result is a
    handle that was not live before, every earlier handle is unchanged, and the new collection holds exactly what the model says"""
    jr.bounds = dict(command=cmd, live_handles='0..3 of symbolic kind', collection_sizes='<= 2', value_chars=vcap, arguments='0..2 values' if cmd in ('array', 'set_new') else 'handle argument live / unknown / not a handle')
    vs = variants(ctx); STRK, LIST, SETK, SUB = vs.index('String'), vs.index('List'), vs.index('Set'), vs.index('SubState')
    e = ctx.engine(unwind=10, max_rec=5); e.int_digits = 2
    e.hooks['utils::state::put_handle'] = hook_put_handle
    t0 = time.time()
    present = [e.fresh_bool('h%d.present' % i) for i in range(3)]
    vals, parts = zip(*[sym_handle_value(ctx, e, 'h%d' % i, vcap) for i in range(3)])
    table = M([(present[i], mk_str(HANDLES[i]), vals[i]) for i in range(3)])
    has_sub = e.fresh_bool('handles_substate_exists')
    state = M([(has_sub, mk_str('handles'), E(SV, SUB, {SUB: [table]}))])
    e.assume(z3.Implies(z3.Not(has_sub), z3.And(*[z3.Not(p) for p in present])))
    hi = e.fresh_int('arg.handle', 0, len(ARGH) - 1); harg = choose(hi, ARGH)
    v1 = H.sym_str(e, 'arg.v1', vcap); v2 = H.sym_str(e, 'arg.v2', vcap); na = e.fresh_int('nargs', 0, 2)
    args = V(na, [v1, v2]) if cmd in ('array', 'set_new') else V(0, []) if cmd == 'map' else V(1, [harg])
    ctxv, st = invocation_context(e, args)
    st.m[(0, 'state')] = state
    rs, rv = run_command(e, 'sdk::std::%s::CommandImpl' % CREATORS[cmd], ctxv, st)
    jr.symex_time = time.time() - t0
    if rs is None: raise Abort('%s never returns' % cmd)
    post_state = e.read(rs, ('mem', 0, 'state', []))
    pf, psub, _ = map_lookup(e, rs, post_state, mk_str('handles'))
    post_table = psub.p[SUB][0] if isinstance(psub, E) and SUB in psub.p else M([])
    tgt = [zand(present[i], zeq(hi, i)) for i in range(3)]
    live = zor(*tgt); tkind = 0
    for i in range(3): tkind = zite(tgt[i], parts[i]['d'], tkind)
    need = {'map_keys': SUB, 'set_to_array': SETK}.get(cmd)
    okc = True if need is None else zand(live, zeq(tkind, need))
    checks = []
    out = rv.p[CONT][0] if CONT in rv.p else None
    key = out.p[1][0] if out is not None and 1 in out.p else S(0, [])
    for i in range(3):
        f, pv, _ = map_lookup(e, rs, post_table, mk_str(HANDLES[i]))
        checks.append(('live handle %s is unchanged' % HANDLES[i], zimp(present[i], zand(f, sv_eq(e, rs, pv, vals[i]) if pv is not POISON else False))))
        checks.append(('a key that was not live stays free unless it is the new handle', zimp(zand(znot(present[i]), f), zand(zeq(rv.d, CONT), str_eq(key, mk_str(HANDLES[i]))))))
    checks.append(('a released / unknown / wrong-kind handle gives the error result and creates nothing', zimp(znot(okc), zeq(rv.d, ERR))))
    nf, nv, _ = map_lookup(e, rs, post_table, key)
    checks.append(('the result is a live handle', zimp(okc, zand(zeq(rv.d, CONT), zeq(out.d, 1) if out is not None else False, nf))))
    checks.append(('the new handle is distinct from every earlier live handle', zimp(okc, zand(*[zimp(present[i], znot(str_eq(key, mk_str(HANDLES[i])))) for i in range(3)]))))
    cnt = 0
    for p_, k_, v_ in post_table.ents: cnt = cnt + zite(p_, 1, 0)
    exp_cnt = zite(okc if okc is not True else True, 1, 0)
    for i in range(3): exp_cnt = exp_cnt + zite(present[i], 1, 0)
    checks.append(('exactly one handle is added (none on error)', zeq(cnt, exp_cnt)))
    if nv is not POISON and isinstance(nv, (E, U)):
        def item_str(it): return globals()['item_str'](ctx, it)
        def with_new(fn_):
            return umap(nv, fn_) if not isinstance(nv, U) else zor(*[zand(c_, fn_(x_)) for c_, x_ in nv.alts])
        if cmd == 'array':
            checks.append(('array holds its arguments verbatim, in order', zimp(nf, with_new(lambda x: zand(zeq(x.d, LIST), sv_eq(e, rs, x.p[LIST][0], V(na, [sv_string(ctx, v1), sv_string(ctx, v2)])) if LIST in x.p else False)))))
        elif cmd == 'map':
            checks.append(('map creates an empty map', zimp(nf, with_new(lambda x: zand(zeq(x.d, SUB), znot(zor(*[p_ for p_, _, _ in x.p[SUB][0].ents])) if SUB in x.p and x.p[SUB][0].ents else zeq(x.d, SUB))))))
        elif cmd == 'set_new':
            def chk(x):
                if SETK not in x.p: return False
                sm = x.p[SETK][0]
                f1, _, _ = map_lookup(e, rs, sm, v1); f2, _, _ = map_lookup(e, rs, sm, v2)
                c_ = 0
                for p_, _, _ in sm.ents: c_ = c_ + zite(p_, 1, 0)
                expn = zite(na == 0, 0, zite(na == 1, 1, zite(str_eq(v1, v2), 1, 2)))
                return zand(zeq(x.d, SETK), zimp(na >= 1, f1), zimp(na >= 2, f2), zeq(c_, expn))
            checks.append(('set_new holds exactly its distinct arguments', zimp(nf, with_new(chk))))
        else:
            src_field = 'map' if cmd == 'map_keys' else 'set'
            def src():
                r = parts[2][src_field]
                for i in (1, 0): r = merge(tgt[i], parts[i][src_field], r)
                return r
            C = src()
            def chk2(x):
                if LIST not in x.p: return False
                lst = x.p[LIST][0]
                n_ = 0
                for p_, _, _ in C.ents: n_ = n_ + zite(p_, 1, 0)
                cs = [zeq(x.d, LIST), zeq(lst.len, n_)]
                for p_, k_, _ in C.ents:
                    cs.append(zimp(p_, zor(*[zand(j < lst.len, str_eq(item_str(lst.it[j]), k_)) for j in range(len(lst.it))]) if lst.it else False))
                return zand(*cs)
            checks.append(('%s lists exactly the %s (any order)' % (cmd, 'keys' if cmd == 'map_keys' else 'members'), zimp(zand(okc, nf), with_new(chk2))))
    for msg, c in checks: e.obligations.append(Obligation(rs.g, c, 'C12 %s: %s' % (cmd, msg), 'assert', 'oracle'))

    def extract(m, o=None):
        def conc_sv(v):
            k = solve.model_int(m, v.d); name = vs[k]
            def item_str(it): return globals()['item_str'](ctx, it)
            if name == 'List':
                l = v.p[k][0]; return ['array', [conc_item(ctx, m, x) for x in l.it[:solve.model_int(m, l.len)]]]
            if name == 'Set': return ['set', [solve.model_str(m, kk) for p, kk, _ in v.p[k][0].ents if solve.model_bool(m, p)]]
            if name == 'SubState': return ['map', {solve.model_str(m, kk): solve.model_str(m, item_str(vv)) for p, kk, vv in v.p[k][0].ents if solve.model_bool(m, p)}]
            return ['other', name]
        tab = {HANDLES[i]: conc_sv(vals[i]) for i in range(3) if solve.model_bool(m, present[i])}
        a_ = [solve.model_str(m, x) for x in (v1, v2)[:solve.model_int(m, na)]] if cmd in ('array', 'set_new') else [] if cmd == 'map' else [solve.model_str(m, harg)]
        return dict(kind='c12_create', cmd=cmd, table=tab, args=a_)
    coll = zand(*[zimp(present[i], zor(*[zeq(parts[i]['d'], vs.index(k)) for k in ('List', 'Set', 'SubState')])) for i in range(3)])
    res = discharge_known(e, jr, PID, {}, extract, prefer=coll)
    witness(jr, e, '%s creates a collection' % cmd, zand(rs.g, okc if okc is not True else True, zeq(rv.d, CONT)), extract)
    H.finish_job(jr, e, res)



# ---------------------------------------------------------------------- script-implemented collection commands: their REAL bodies
SCRIPTED = {
    # command: (module path, argument kinds, effect)
    'array_join': ('sdk::std::collections::array_join', ('arr', 'val'), None),
    'array_contains': ('sdk::std::collections::array_contains', ('arr', 'val'), None),
    'map_contains_value': ('sdk::std::collections::map_contains_value', ('map', 'val'), None),
    'map_contains_key': ('sdk::std::collections::map_contains_key', ('map', 'val'), None),
    'array_is_empty': ('sdk::std::collections::array_is_empty', ('arr',), None),
    'set_is_empty': ('sdk::std::collections::set_is_empty', ('set',), None),
    'map_is_empty': ('sdk::std::collections::map_is_empty', ('map',), None),
    'set_from_array': ('sdk::std::collections::set_from_array', ('arr',), 'new'),
}


SEPARATORS = ['', ',', ' ', '#', '"', '$', '%', '\\', '=', ', ', '\t', 'ab', '${', '-']


def calc_model(e):
    """calc is backed by the evalexpr crate (outside the MIR of this repository): the bodies use it only as `calc <int> - <int>` and
    `calc <int> + 1`; stub = integer arithmetic on two decimal arguments, anything else is a model-bound obligation"""
    from mirsym.models import str_parse_int, int_to_str
    CRES = 'types::command::CommandResult'

    def h_calc(eng, st1, a):
        c = a[1]; av = c.f[0]
        if is_sym(av.len) or av.len != 3 or str_concrete(av.it[1]) not in ('-', '+'): raise Abort('calc stub: only <int> -/+ <int> is modelled, got %r' % (av,))
        x = str_parse_int(eng, st1, av.it[0], 'i64'); y = str_parse_int(eng, st1, av.it[2], 'i64')
        eng.oblige(st1, zand(zeq(x.d, 0), zeq(y.d, 0)), 'model bound: calc stub needs two decimal integers', 'unwind')
        xv, yv = x.p[0][0], y.p[0][0]
        r = xv - yv if str_concrete(av.it[1]) == '-' else xv + yv
        return E(CRES, 0, {0: [some(int_to_str(eng, st1, r, True))]})
    e.dyn_impls[('sdk::std::math::calc::CommandImpl', 'run')] = h_calc


def job_script(ctx, jr, cmd, vcap):
    """the output of a script-implemented collection command equals the reference collection's answer: the REAL script.ds body is run
    (parsed from the constants of the current tree) through AliasCommand::run, eval_instructions and the real commands it uses"""
    from . import c19
    vs = variants(ctx); STRK, LIST, SETK, SUB = vs.index('String'), vs.index('List'), vs.index('Set'), vs.index('SubState')

    def oracle(e, rs, rv, args, colls_sym, map_vals, ptab, hents):
        kind, n, items = colls_sym['coll0']
        out = rv.p[CONT][0] if CONT in rv.p else None
        has = zeq(out.d, 1) if out is not None else False
        outv = out.p[1][0] if out is not None and 1 in out.p else S(0, [])
        def answers(sv): return zand(zeq(rv.d, CONT), has, str_eq(outv, sv))
        def yes(c): return answers(merge(c, mk_str('true'), mk_str('false')))
        cs = []
        if cmd == 'array_join':
            sep = args[1]
            j = merge(zeq(n, 0), S(0, []), merge(zeq(n, 1), items[0], str_concat(str_concat(items[0], sep), items[1])))
            # an empty result may come back as no value (set without a value)
            cs.append(('array_join gives the items joined with the separator between each pair', zand(zeq(rv.d, CONT), zor(zand(has, str_eq(outv, j)), zand(znot(has), zeq(j.len, 0))))))
        elif cmd == 'array_contains':
            v = args[1]
            e0 = zand(n >= 1, str_eq(items[0], v)); e1 = zand(n >= 2, str_eq(items[1], v))
            cs.append(('array_contains gives the first index holding the value, or false', answers(merge(e0, mk_str('0'), merge(e1, mk_str('1'), mk_str('false'))))))
        elif cmd == 'map_contains_value':
            v = args[1]; mv = map_vals['coll0']
            cs.append(('map_contains_value answers whether some key holds the value', yes(zor(zand(n >= 1, str_eq(mv[0], v)), zand(n >= 2, str_eq(mv[1], v))))))
        elif cmd == 'map_contains_key':
            v = args[1]
            cs.append(('map_contains_key answers whether the key is present', yes(zor(zand(n >= 1, str_eq(items[0], v)), zand(n >= 2, str_eq(items[1], v))))))
        elif cmd.endswith('_is_empty'):
            cs.append(('%s answers whether the collection has no element' % cmd, yes(zeq(n, 0))))
        elif cmd == 'set_from_array':
            f_, nv, _ = map_lookup(e, rs, ptab, outv)
            def chk(x):
                if SETK not in x.p: return False
                sm = x.p[SETK][0]; c_ = 0
                for p_, _, _ in sm.ents: c_ = c_ + zite(p_, 1, 0)
                expn = zite(n == 0, 0, zite(n == 1, 1, zite(str_eq(items[0], items[1]), 1, 2)))
                return zand(zeq(x.d, SETK), zimp(n >= 1, map_lookup(e, rs, sm, items[0])[0]), zimp(n >= 2, map_lookup(e, rs, sm, items[1])[0]), zeq(c_, expn))
            ok = (umap(nv, chk) if not isinstance(nv, U) else zor(*[zand(c_, chk(x_)) for c_, x_ in nv.alts])) if nv is not POISON and isinstance(nv, (E, U)) else False
            cs.append(('set_from_array returns a live set holding exactly the distinct items of the array', zand(zeq(rv.d, CONT), has, f_, ok)))
        return cs
    # the sizes are enumerated (they steer the body's control flow: one engine run per shape), the contents are symbolic
    import itertools
    argk = SCRIPTED[cmd][1]; nval = sum(1 for k in argk if k == 'val'); shapes = []
    for n in range(3):
        for il in itertools.product(range(vcap + 1), repeat=n):
            if argk[0] in ('map', 'set') and n == 2 and il == (0, 0): continue       # two equal (empty) keys
            # array_join's separator is used in condition position inside the body (re-serialised and re-parsed character by character: every
            # character class forks the whole run): it is taken from a panel of concrete separators, the items stay symbolic
            vals = [[x] for x in (SEPARATORS if ctx.tier != 'quick' else SEPARATORS[:5] + ['\t', '${', 'ab'])] if cmd == 'array_join' else itertools.product(range(vcap + 1), repeat=nval)
            for vl in vals: shapes.append((n, list(il) + [0] * (2 - n), list(vl)))
    for sh in shapes:
        c19.job_real_body(ctx, jr, cmd, vcap, pid=PID, oracle=oracle, spec=SCRIPTED[cmd], prep=calc_model, sym_map_values=(cmd == 'map_contains_value'), caller_vars=False, shape=sh,
                          helpers={'array_join': ['sdk::std::collections::array_is_empty'], 'map_contains_value': ['sdk::std::collections::map_is_empty']}.get(cmd, ()))
        if jr.status == 'inconclusive' or (jr.violations and not os.environ.get('VERIF_ALL_SHAPES')): break
    jr.bounds = dict(command=cmd, shapes='%d: 0..2 elements, each element and value of 0..%d characters (sizes enumerated, contents symbolic)' % (len(shapes), vcap) + ('; separator from a panel of concrete separators (%d in this tier) out of %r' % (len(set(x[2][0] for x in shapes)), SEPARATORS) if cmd == 'array_join' else ''), body='the real script text, parsed and run by the real code',
                     stub='calc (evalexpr crate): integer +/- on two decimal arguments')


def script_replayer(v):
    """rebuild the collection with real commands, call the script-implemented command natively, compare its output with the python answer.
    Values travel through variables (a value is bound once, so binding syntax inside it stays verbatim)"""
    lines = []; hv = []; cmd = v['cmd']; pv = dict(v.get('caller', {}))
    def via(name, x):
        if x == '': return '""'
        pv[name] = x; return '${%s}' % name
    for i, (kind, items) in enumerate(v['colls']):
        var = 'hh%d' % i; hv.append(var)
        if kind == 'arr': lines.append('%s = array %s' % (var, ' '.join(via('zi%d_%d' % (i, j), x) for j, x in enumerate(items))))
        elif kind == 'set': lines.append('%s = set_new %s' % (var, ' '.join(via('zi%d_%d' % (i, j), x) for j, x in enumerate(items))))
        else:
            lines.append('%s = map' % var)
            mv = (v.get('map_values') or {}).get('coll%d' % i) or ['v0', 'v1']
            for j, x in enumerate(items): lines.append('map_put ${%s} %s %s' % (var, via('zi%d_%d' % (i, j), x), via('zv%d_%d' % (i, j), mv[j])))
    call = []; hi = 0
    for ai, (a, k) in enumerate(zip(v['args'], v['argkinds'])):
        if k in ('arr', 'map', 'set'): call.append('${%s}' % hv[hi]); hi += 1
        else: call.append(via('za%d' % ai, a))
    lines.append('rr = %s %s' % (cmd, ' '.join(call))); call_line = len(lines)
    lines.append('ee = get_last_error')
    if cmd == 'set_from_array': lines += ['ks = is_set ${rr}', 'ns = set_size ${rr}'] + ['m%d = set_contains ${rr} %s' % (j, via('zi0_%d' % j, x)) for j, x in enumerate(v['colls'][0][1])]
    out = H.replay(dict(mode='sdk', script='\n'.join(lines), vars=pv)); v['native'] = out; v['script'] = lines; v['script_vars'] = pv
    if out.get('panic'): return (True, 'native panic')
    if not out.get('ok'):
        err = out.get('error') or {}
        if isinstance(err, dict) and err.get('line') == call_line: return (True, 'the call of %s ends the native run: %s' % (cmd, err.get('message')))
        return (None, 'replay script failed: %r' % (err,))
    r = out['vars'].get('rr'); items = v['colls'][0][1]; a = v['args']
    if cmd == 'array_join': exp = a[1].join(items); good = (r or '') == exp
    elif cmd == 'array_contains': exp = str(items.index(a[1])) if a[1] in items else 'false'; good = r == exp
    elif cmd == 'map_contains_value':
        mv = ((v.get('map_values') or {}).get('coll0') or ['v0', 'v1'])[:len(items)]; exp = 'true' if a[1] in mv else 'false'; good = r == exp
    elif cmd == 'map_contains_key': exp = 'true' if a[1] in items else 'false'; good = r == exp
    elif cmd.endswith('_is_empty'): exp = 'true' if not items else 'false'; good = r == exp
    elif cmd == 'set_from_array':
        exp = 'a set of %d' % len(set(items)); vs_ = out['vars']
        good = vs_.get('ks') == 'true' and vs_.get('ns') == str(len(set(items))) and all(vs_.get('m%d' % j) == 'true' for j in range(len(items)))
        r = (r, vs_.get('ks'), vs_.get('ns'))
    else: return (None, 'no reference for %s' % cmd)
    return (not good, '%s natively gives %r (last error %r), the reference collection gives %r' % (cmd, r, out['vars'].get('ee'), exp))


# ---------------------------------------------------------------------- native replay
def norm_item(x): return str(x['num']) if isinstance(x, dict) else x


def array_lines(var, content, ref):
    """script lines that build an array with the given items through real commands; {'num': n} items are numbers as stored by `range`
    (a run of consecutive numbers, thinned out with array_remove / overwritten with array_set); None when not constructible"""
    isn = [isinstance(x, dict) for x in content]
    if not any(isn): return ['%s = array' % var] + ['array_push ${%s} %s' % (var, ref(x)) for x in content]
    if len(content) == 1: return ['%s = range %d %d' % (var, content[0]['num'], content[0]['num'] + 1)]
    if len(content) == 2:
        a, b = content
        if isn[0] and isn[1]:
            if not a['num'] < b['num']: return None
            return ['%s = range %d %d' % (var, a['num'], b['num'] + 1)] + ['array_remove ${%s} 1' % var] * (b['num'] - a['num'] - 1)
        if isn[0]: return ['%s = range %d %d' % (var, a['num'], a['num'] + 1), 'array_push ${%s} %s' % (var, ref(b))]
        return ['%s = range %d %d' % (var, b['num'] - 1, b['num'] + 1), 'array_set ${%s} 0 %s' % (var, ref(a))]
    return None


def create_replayer(v):
    """rebuild the table, run the creator, then dump what it created and compare with the python model"""
    lines = []; names = {}; tab = v['table']
    for i, (h, (kind, content)) in enumerate(sorted(tab.items())):
        var = 'h%d' % i; names[h] = var
        if kind == 'array':
            al = array_lines(var, content, lambda x: '"%s"' % esc(x))
            if al is None: return (None, 'array content not constructible through commands')
            lines += al
        elif kind == 'set': lines.append('%s = set_new %s' % (var, ' '.join('"%s"' % esc(x) for x in content)))
        elif kind == 'map':
            lines.append('%s = map' % var)
            for k, x in content.items(): lines.append('map_put ${%s} "%s" "%s"' % (var, esc(k), esc(x)))
        else: return (None, 'table holds a non-collection handle')
    cmd = v['cmd']; a = v['args']
    call = ' '.join(('${%s}' % names[x]) if x in names else '"%s"' % esc(x) for x in a)
    lines += ['r = %s %s' % (cmd, call), 'e = get_last_error', 'ka = is_array ${r}', 'km = is_map ${r}', 'ks = is_set ${r}', 'n = array_length ${r}', 'n2 = set_size ${r}', 'n3 = map_size ${r}',
              'i0 = array_get ${r} 0', 'i1 = array_get ${r} 1']
    for j, x in enumerate(a[:2]): lines.append('c%d = set_contains ${r} "%s"' % (j, esc(x)))
    out = H.replay(dict(mode='sdk', script='\n'.join(lines))); v['native'] = out; v['script'] = lines
    if out.get('panic'): return (True, 'native panic')
    if not out.get('ok'): return (None, 'replay script failed: %r' % (out.get('error'),))
    vs_ = out['vars']; probs = []
    src = tab.get(a[0]) if a and cmd in ('map_keys', 'set_to_array') else None
    need = {'map_keys': 'map', 'set_to_array': 'set'}.get(cmd)
    if need and (src is None or src[0] != need):
        if not (vs_.get('r') == 'false' and vs_.get('e')): probs.append('wrong-kind / unknown handle did not give an error: r=%r' % vs_.get('r'))
    else:
        if cmd == 'array':
            if vs_.get('ka') != 'true' or vs_.get('n') != str(len(a)) or [vs_.get('i0'), vs_.get('i1')][:len(a)] != a: probs.append('array content %r' % ([vs_.get('n'), vs_.get('i0'), vs_.get('i1')],))
        elif cmd == 'map':
            if vs_.get('km') != 'true' or vs_.get('n3') != '0': probs.append('map not empty / not a map')
        elif cmd == 'set_new':
            if vs_.get('ks') != 'true' or vs_.get('n2') != str(len(set(a))) or any(vs_.get('c%d' % j) != 'true' for j in range(len(a))): probs.append('set content: size %r' % vs_.get('n2'))
        else:
            want = sorted(src[1].keys() if cmd == 'map_keys' else src[1])
            got = sorted(x for x in [vs_.get('i0'), vs_.get('i1')][:len(want)] if x is not None)
            if vs_.get('ka') != 'true' or vs_.get('n') != str(len(want)) or got != want: probs.append('%s gave %r, expected %r' % (cmd, got, want))
    return (bool(probs), '; '.join(probs) or 'native creates what the model says')


def replayer(v):
    if v.get('kind') == 'c12_create': return create_replayer(v)
    if v.get('kind') == 'script_body': return script_replayer(v)
    """rebuild the table with real commands, run the command, dump every collection, compare with a python model"""
    lines = []; names = {}
    tab = v['table']
    for i, (h, (kind, content)) in enumerate(sorted(tab.items())):
        var = 'h%d' % i; names[h] = var
        if kind == 'array': lines.append('%s = array' % var) if not any(isinstance(x, dict) for x in content) else None
        elif kind == 'set': lines.append('%s = set_new' % var)
        elif kind == 'map': lines.append('%s = map' % var)
        else: return (None, 'table holds a non-collection handle: not constructible through commands')
    def ref(x): return '${%s}' % names[x] if x in names else '"%s"' % esc(x)      # stored values that are handle keys
    for h, (kind, content) in sorted(tab.items()):
        if kind == 'array' and any(isinstance(x, dict) for x in content) and any(isinstance(x, str) and x in names for x in content):
            return (None, 'an array made by range that also stores a handle key: build order not supported by the replay')
    for h, (kind, content) in sorted(tab.items()):
        var = names[h]
        if kind == 'array':
            al = array_lines(var, content, ref)
            if al is None: return (None, 'array content not constructible through commands')
            lines += al if any(isinstance(x, dict) for x in content) else al[1:]
        elif kind == 'set':
            for x in content: lines.append('set_put ${%s} %s' % (var, ref(x)))
        elif kind == 'map':
            for k, x in content.items(): lines.append('map_put ${%s} "%s" %s' % (var, esc(k), ref(x)))
    a = list(v['args'])
    harg = a[1] if v['cmd'] == 'release -r' else a[0]
    a0 = '${%s}' % names[harg] if harg in names else '"%s"' % esc(harg)
    if v['cmd'] == 'release -r':
        h2 = a[1]; lines.append('r = release -r %s' % ('${%s}' % names[h2] if h2 in names else '"%s"' % esc(h2)))
    else: lines.append('r = %s %s %s' % (v['cmd'], a0, ' '.join(ref(x) for x in a[1:])))
    lines.append('e = get_last_error')
    for h, var in names.items():
        kind = tab[h][0]
        lines.append('k_%s_a = is_array ${%s}\nk_%s_m = is_map ${%s}\nk_%s_s = is_set ${%s}' % (var, var, var, var, var, var))
        if kind == 'array': lines.append('n_%s = array_length ${%s}' % (var, var))
        if kind == 'set': lines.append('n_%s = set_size ${%s}' % (var, var))
        if kind == 'map': lines.append('n_%s = map_size ${%s}' % (var, var))
    # expected contents after the command (python model of the reference collections), dumped natively element by element
    exp_content = {h: ([norm_item(x) for x in c] if k_ != 'map' else dict(c)) for h, (k_, c) in tab.items()}
    cmd_ = v['cmd']; tk_ = tab.get(harg, [None])[0]
    if tk_ is not None and cmd_.split('_')[0] == tk_:
        c_ = exp_content[harg]
        try:
            if cmd_ == 'array_push': c_.extend(a[1:])
            elif cmd_ == 'array_pop' and c_: c_.pop()
            elif cmd_ == 'array_set' and a[1].isdigit() and int(a[1]) < len(c_): c_[int(a[1])] = a[2]
            elif cmd_ == 'array_remove' and a[1].isdigit() and int(a[1]) < len(c_): del c_[int(a[1])]
            elif cmd_ in ('array_clear', 'set_clear'): del c_[:]
            elif cmd_ == 'map_clear': c_.clear()
            elif cmd_ == 'map_put': c_[a[1]] = a[2]
            elif cmd_ == 'map_remove': c_.pop(a[1], None)
            elif cmd_ == 'set_put':
                for x_ in a[1:]:
                    if x_ not in c_: c_.append(x_)
            elif cmd_ == 'set_remove' and a[1] in c_: c_.remove(a[1])
        except Exception: pass
    dumps = []
    if cmd_ not in ('release', 'release -r'):
        for h, var in names.items():
            kind = tab[h][0]; c_ = exp_content[h]
            if kind == 'array':
                for i_, x_ in enumerate(c_): lines.append('c_%s_%d = array_get ${%s} %d' % (var, i_, var, i_)); dumps.append(('c_%s_%d' % (var, i_), x_, '%s[%d]' % (h, i_)))
            elif kind == 'map':
                for i_, (k_, x_) in enumerate(c_.items()): lines.append('c_%s_%d = map_get ${%s} "%s"' % (var, i_, var, esc(k_))); dumps.append(('c_%s_%d' % (var, i_), x_, '%s[%r]' % (h, k_)))
            elif kind == 'set':
                for i_, x_ in enumerate(c_): lines.append('c_%s_%d = set_contains ${%s} %s' % (var, i_, var, ref(x_))); dumps.append(('c_%s_%d' % (var, i_), True, '%r in %s' % (x_, h)))
    out = H.replay(dict(mode='sdk', script='\n'.join(lines))); v['native'] = out; v['script'] = lines
    if out.get('panic'): return (True, 'native panic')
    if not out.get('ok'): return (None, 'replay script failed: %r' % (out.get('error'),))
    vars_ = out['vars']
    if v['cmd'] == 'release -r':
        var = names.get(harg)
        alive = var is not None and 'true' in (vars_.get('k_%s_a' % var), vars_.get('k_%s_m' % var), vars_.get('k_%s_s' % var))
        return (alive, 'native: target still alive' if alive else 'native released the target and returned')
    # python reference for the result and for sizes / kinds
    cmd = v['cmd']; fam = cmd.split('_')[0]
    tkind = tab.get(harg, [None])[0]
    want = {'array': 'array', 'map': 'map', 'set': 'set'}.get(fam)
    exp_sizes = {}
    for h, (kind, content) in tab.items(): exp_sizes[h] = len(content)
    r = vars_.get('r'); err = vars_.get('e')
    problems = []
    if want and cmd not in ('is_array', 'is_map', 'is_set'):
        if tkind != want:
            if not (r == 'false' and err): problems.append('wrong-kind/unknown handle did not give an error: r=%r' % r)
        else:
            c = tab[harg][1]
            # the command's own result
            cn = [norm_item(x) for x in c] if tkind != 'map' else dict(c)
            NOTHING = object(); exp_r = NOTHING
            if cmd == 'array_pop': exp_r = cn[-1] if cn else None
            elif cmd == 'array_get' and a[1].isdigit(): exp_r = cn[int(a[1])] if int(a[1]) < len(cn) else None
            elif cmd in ('array_length', 'map_size', 'set_size'): exp_r = str(len(cn))
            elif cmd == 'map_get': exp_r = cn.get(a[1])
            elif cmd == 'set_contains': exp_r = 'true' if a[1] in cn else 'false'
            if exp_r is not NOTHING:
                exp_n = vars_.get(names[exp_r]) if isinstance(exp_r, str) and exp_r in names else exp_r
                if r != exp_n: problems.append('%s returned %r natively (last error %r), the reference collection gives %r' % (cmd, r, err, exp_n))
            if cmd == 'array_push': exp_sizes[harg] += 2
            if cmd == 'array_pop' and c: exp_sizes[harg] -= 1
            if cmd == 'array_clear' or cmd == 'map_clear' or cmd == 'set_clear': exp_sizes[harg] = 0
            if cmd == 'array_remove' and a[1].isdigit() and int(a[1]) < len(c): exp_sizes[harg] -= 1
            if cmd == 'map_put' and a[1] not in c: exp_sizes[harg] += 1
            if cmd == 'map_remove' and a[1] in c: exp_sizes[harg] -= 1
            if cmd == 'set_put': exp_sizes[harg] = len(set(c) | {a[1], a[2]})
            if cmd == 'set_remove' and a[1] in c: exp_sizes[harg] -= 1
    if cmd == 'release' and harg in tab: exp_sizes.pop(harg)
    for h, var in names.items():
        kind = tab[h][0]
        alive = h in exp_sizes
        got_kind = (vars_.get('k_%s_a' % var), vars_.get('k_%s_m' % var), vars_.get('k_%s_s' % var))
        exp_kind = tuple('true' if (alive and kind == k) else 'false' for k in ('array', 'map', 'set'))
        if got_kind != exp_kind: problems.append('%s kind flags %r expected %r' % (h, got_kind, exp_kind))
        if alive and vars_.get('n_%s' % var) != str(exp_sizes[h]): problems.append('%s size %r expected %d' % (h, vars_.get('n_%s' % var), exp_sizes[h]))
    if not problems:
        for name_, want_, what_ in dumps:
            got_ = vars_.get(name_)
            if want_ is True: okk = got_ == 'true'
            else: okk = got_ == (vars_.get(names[want_]) if want_ in names else want_)
            if not okk: problems.append('%s: native %r, reference %r' % (what_, got_, want_))
    return (bool(problems), '; '.join(problems) or 'native agrees with the reference on kinds, sizes and contents')


def esc(s): return s.replace('\\', '\\\\').replace('"', '\\"').replace('\n', '\\n').replace('\r', '\\r').replace('\t', '\\t')


def main(tier, seed):
    chk = H.Check(PID, tier, seed)
    chk.replayer = replayer
    vcap = 2 if tier == 'quick' else 3
    for c in CMD: chk.job(job_command, c, cmd=c, vcap=vcap)
    for c in CREATORS: chk.job(job_creator, 'create:' + c, cmd=c, vcap=vcap)
    for c in SCRIPTED: chk.job(job_script, 'script:' + c, cmd=c, vcap=1 if tier == 'quick' else 2)
    chk.bounds = dict(commands=sorted(CMD), live_handles='<= 3 of symbolic kind', collection_size='<= 2 (+2 pushed)', value_chars=vcap)
    chk.assumptions = ['one step per command from an arbitrary handle table (any history of the script-level commands yields such a table); list items are strings or the numbers `range` stores (Number64Bit 0..9, increasing within one list)',
                       'put_handle: the random key is an arbitrary non-live key (distinctness of live handles rests on the RNG)',
                       'script-implemented collection commands (script:* jobs): the REAL script.ds bodies of array_join, array_contains, map_contains_value, map_contains_key, set_from_array and *_is_empty run through '
                       'AliasCommand::run / eval_instructions (explored per script line) and the real commands they call; calc (evalexpr crate) is a stub for integer +/-; array_concat is not covered (too slow)',
                       'HashMap/HashSet modelled as association lists']
    results = chk.run()
    return chk.finish(results, 'every obligation is a solver query over all handle tables, handle arguments and values within the bounds')
