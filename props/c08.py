"""C08 - parsing is total, one instruction per line, malformed lines rejected in place."""
import time
import z3
from mirsym import harness as H, solve
from mirsym.values import *
from mirsym.engine import State, Obligation, some, none, ok
from mirsym.models import is_ws, str_push
from .common import *
from mirsym.harness import process_failed, witness, discharge_known

from .c01 import job_token_inductive, lemma_jobs, replayer as lemma_replayer
PID = 'C08'


def errs(ctx): return ctx.types.enums['types::error::ScriptError']


def hook_include(included):
    def h(e, st, args, callee):
        included.append(st.g)
        return ok(V(0, []))
    return h


def first_non_ws_is(line, code):
    """the first non-white-space char of line is `code`"""
    r = False
    for i in range(len(line.ch) - 1, -1, -1):
        c = line.ch[i]
        r = zite(zand(i < line.len, znot(is_ws(c))), zeq(c, code), r)
    return r


def blank(line): return all_chars(line, is_ws)


# ---------------------------------------------------------------------- (a)+(b): arbitrary single line
def job_any_line(ctx, jr, L):
    jr.bounds = dict(line_chars=L, alphabet='all Unicode scalar values, no grammar assumed')
    e = ctx.engine(unwind=L + 2)
    included = []; e.hooks['preprocessor::include_files_preprocessor::run'] = hook_include(included)
    t0 = time.time()
    line = H.sym_str(e, 'line', L)
    e.assume(zand(no_char(line, [LF]), line.len >= 1))
    text = S(line.len, line.ch, ('lines', 1, [line]))
    rs, rv = e.run('core', 'parser::parse_text', [text], State(True, {}))
    jr.symex_time = time.time() - t0
    okc = res_ok(rv); iv = res_instrs(rv); errv = res_err(rv)
    noinc = znot(zor(*included)) if included else True
    checks = [('one instruction for one line', zimp(zand(okc, noinc), zeq(iv.len, 1)))]
    if iv.it:
        ins = iv.it[0]; ln = instr_line(ins)
        checks.append(('line number is 1', zimp(okc, zand(zeq(ln.d, 1), zeq(ln.p[1][0], 1)))))
        checks.append(('blank or # line is an empty instruction', zimp(zand(okc, zor(blank(line), first_non_ws_is(line, HASH))), zeq(instr_type(ins).d, 0))))
    if errv is not None:
        # every error kind the parser can raise carries this line's number
        names = errs(ctx)
        for k, payload in errv.p.items():
            if names[k] in ('ErrorReadingFile', 'Initialization', 'Runtime'): continue
            meta = payload[0]
            checks.append(('error %s carries line 1' % names[k], zimp(zand(znot(okc), zeq(errv.d, k)), zand(zeq(meta.f[0].d, 1), zeq(meta.f[0].p[1][0], 1)))))
    for msg, c in checks: e.obligations.append(Obligation(rs.g, c, 'C08 line: ' + msg, 'assert', 'oracle'))

    def extract(m, o=None): return dict(kind='c08_text', text=solve.model_str(m, line), expect='no panic; ' + (o.msg if o else ''))
    res = solve.discharge(e)
    process_failed(jr, e, res, extract)
    witness(jr, e, 'some line is rejected', zand(rs.g, znot(okc)), extract)
    witness(jr, e, 'label+output+command+arguments', zand(rs.g, okc, *([zeq(instr_type(iv.it[0]).d, 2)] + [zeq(script_of(iv.it[0]).f[k].d, 1) for k in range(4)] + [zeq(script_of(iv.it[0]).f[3].p[1][0].len, 2 if L >= 10 else 1)])) if L >= 8 and iv.it and script_of(iv.it[0]) is not None else zand(rs.g, okc), extract)
    H.finish_job(jr, e, res)


# ---------------------------------------------------------------------- (a)+(b)+(c1): scripts, compositional
def job_script(ctx, jr, n, W):
    jr.bounds = dict(lines=n, line_chars=W, separators='LF and CRLF, optional final separator', alphabet='all Unicode scalar values')
    e = ctx.engine(unwind=max(W, n) + 3)
    included = []; e.hooks['preprocessor::include_files_preprocessor::run'] = hook_include(included)
    t0 = time.time()
    count = e.fresh_int('count', 1, n)
    lines = [H.sym_str(e, 'line%d' % i, W) for i in range(n)]
    text, tcons = text_of_lines(e, lines, count)
    e.assume(tcons)
    rs, rv = e.run('core', 'parser::parse_text', [text], State(True, {}))
    if rs is None: raise Abort('parse_text never returns')
    R_ok = res_ok(rv); R_iv = res_instrs(rv); R_err = res_err(rv)
    n_inc_full = len(included)
    singles = []
    for i in range(n):
        ti = S(lines[i].len + 1, str_push(lines[i], LF).ch, ('lines', 1, [lines[i]]))
        st_i = State(simp(zand(rs.g, count > i)), {})
        rsi, rvi = e.run('core', 'parser::parse_text', [ti], st_i)
        singles.append((rsi, rvi))
    jr.symex_time = time.time() - t0
    noinc = znot(zor(*included)) if included else True
    g_all = zand(rs.g, *[rsi.g if rsi is not None else True for rsi, _ in singles])
    checks = []
    all_ok = zand(*[zimp(count > i, res_ok(rvi)) for i, (rsi, rvi) in enumerate(singles)])
    checks.append(('whole text parses iff every line parses alone', zimp(noinc, zeq(R_ok, all_ok))))
    checks.append(('one instruction per line', zimp(zand(R_ok, noinc), zeq(R_iv.len, count))))
    prev_ok = True
    for i, (rsi, rvi) in enumerate(singles):
        ex = count > i
        if i < len(R_iv.it):
            ins = R_iv.it[i]; ln = instr_line(ins)
            checks.append(('instruction %d carries line %d' % (i, i + 1), zimp(zand(R_ok, noinc, ex), zand(zeq(ln.d, 1), zeq(ln.p[1][0], i + 1)))))
            checks.append(('blank or # line %d is an empty instruction' % i, zimp(zand(R_ok, noinc, ex, zor(blank(lines[i]), first_non_ws_is(lines[i], HASH))), zeq(instr_type(ins).d, 0))))
            si = res_instrs(rvi)
            if si.it:
                checks.append(('instruction %d equals the line parsed alone' % i, zimp(zand(R_ok, noinc, ex, res_ok(rvi)), deep_eq(instr_type(ins), instr_type(si.it[0])))))
        ei = res_err(rvi)
        if ei is not None and R_err is not None:
            first_bad = zand(ex, prev_ok, znot(res_ok(rvi)))
            same_kind = zeq(R_err.d, ei.d)
            line_ok = []
            for k, payload in R_err.p.items():
                if errs(ctx)[k] in ('ErrorReadingFile', 'Initialization', 'Runtime'): continue
                meta = payload[0]
                line_ok.append(zimp(zeq(R_err.d, k), zand(zeq(meta.f[0].d, 1), zeq(meta.f[0].p[1][0], i + 1))))
            checks.append(('error is the one of the first malformed line %d, with its number' % i, zimp(zand(noinc, first_bad), zand(znot(R_ok), same_kind, *line_ok))))
        prev_ok = zand(prev_ok, zimp(ex, res_ok(rvi)))
    for msg, c in checks: e.obligations.append(Obligation(g_all, c, 'C08 script: ' + msg, 'assert', 'oracle'))

    def extract(m, o=None): return dict(kind='c08_text', text=solve.model_str(m, text), expect=o.msg if o else '')
    res = solve.discharge(e)
    process_failed(jr, e, res, extract)
    witness(jr, e, 'error on the last of n lines', zand(g_all, count == n, znot(R_ok), *[res_ok(rvi) for _, rvi in singles[:-1]]), extract)
    H.finish_job(jr, e, res)


# ---------------------------------------------------------------------- (b2): line numbers behind a directive that adds instructions
def job_after_directive(ctx, jr, W):
    """a directive line (pre-processor stubbed: it returns 0..2 arbitrary instructions, C14 decides what a real include returns) followed
    by two arbitrary lines: every instruction of the text itself carries the number of its own line, whatever the directive added"""
    jr.bounds = dict(text='a directive line followed by 2 lines of <= %d characters' % W, preprocessor='stub: 0, 1 or 2 added instructions with arbitrary line numbers')
    INSTR = 'types::instruction::Instruction'; ITYPE = 'types::instruction::InstructionType'
    for nadd in (0, 1, 2):
        e = ctx.engine(unwind=W + 24); t0 = time.time()
        added = V(nadd, [T([meta_new(e.fresh_int('added%d.line' % i, 1, 9)), E(ITYPE, 0, {0: []})], INSTR) for i in range(nadd)])
        e.hooks['preprocessor::include_files_preprocessor::run'] = lambda eng, st1, a, callee, added=added: ok(added)
        lines = [mk_str('!include_files x')] + [H.sym_str(e, 'line%d' % i, W) for i in (1, 2)]
        text, tcons = text_of_lines(e, lines, 3); e.assume(tcons)
        rs, rv = e.run('core', 'parser::parse_text', [text], State(True, {}))
        if rs is None: raise Abort('parse_text never returns')
        jr.symex_time += time.time() - t0
        R_ok = res_ok(rv); R_iv = res_instrs(rv); checks = []
        checks.append(('the directive, what it added and one instruction per further line', zimp(R_ok, zeq(R_iv.len, 3 + nadd))))
        for j, idx in ((0, 0), (1, 1 + nadd), (2, 2 + nadd)):
            if idx < len(R_iv.it):
                ln = instr_line(R_iv.it[idx])
                checks.append(('the instruction of text line %d carries line %d (behind %d added instructions)' % (j + 1, j + 1, nadd), zimp(R_ok, zand(zeq(ln.d, 1), zeq(ln.p[1][0], j + 1)))))
            else: checks.append(('the instruction of text line %d exists' % (j + 1), znot(R_ok)))
        for msg, c in checks: e.obligations.append(Obligation(rs.g, c, 'C08 directive: ' + msg, 'assert', 'oracle'))
        def extract(m, o=None, text=text): return dict(kind='c08_directive', text=solve.model_str(m, text), lines=[solve.model_str(m, l) for l in lines[1:]], expect=o.msg if o else '')
        res = solve.discharge(e)
        process_failed(jr, e, res, extract)
        witness(jr, e, 'two command lines behind the directive', zand(rs.g, R_ok, lines[1].len >= 1, lines[2].len >= 1), extract)
        H.finish_job(jr, e, res)
        if jr.violations: break


# ---------------------------------------------------------------------- (c2): error kind per malformed class
NEIGHBOURS = ['', '# c', 'a b', ':l x = c "d e"']


def job_error_kinds(ctx, jr, B):
    jr.bounds = dict(malformed_line='class prefix + <= %d arbitrary chars' % B, position='line 1..3 among fixed well-formed neighbours %r' % (NEIGHBOURS,))
    names = errs(ctx)
    e = ctx.engine(unwind=B + 14)
    t0 = time.time()
    cls = e.fresh_int('class', 0, 9)
    body = H.sym_str(e, 'body', B); x = e.fresh_int('x', 0, 0x10FFFF); e.assume(zor(x < 0xD800, x > 0xDFFF))
    q = e.fresh_bool('quoted')
    buf = Buf(B + 12)
    safe = lambda sv: all_chars(sv, lambda c: zand(c != DQ, c != BS, c != LF, c != HASH, znot(is_ws(c))))
    word_ok = lambda sv: all_chars(sv, lambda c: zand(c != LF, c != SP))
    cons = [no_char(body, [LF])]
    # 0: unterminated quote            cmd "body
    c0 = cls == 0
    for ch in 'c "': buf.push(ord(ch), c0)
    buf.append(body, c0); cons.append(zimp(c0, all_chars(body, lambda c: zand(c != DQ, c != BS))))
    # 1: invalid escape                cmd ["]body\x     x not in \ " n r t $
    c1 = cls == 1
    for ch in 'c ': buf.push(ord(ch), c1)
    buf.push(DQ, zand(c1, q)); buf.push(ord('k'), c1); buf.append(body, c1); buf.push(BS, c1); buf.push(x, c1)
    cons.append(zimp(c1, zand(safe(body), *[x != ord(k) for k in '\\"nrt$'])))
    # 2: \$ not followed by {          cmd k\$x
    c2 = cls == 2
    for ch in 'c k\\$': buf.push(ord(ch), c2)
    buf.push(x, c2); cons.append(zimp(c2, x != ord('{')))
    # 3: dangling backslash at the end cmd body\
    c3 = cls == 3
    for ch in 'c k': buf.push(ord(ch), c3)
    buf.append(body, c3); buf.push(BS, c3); cons.append(zimp(c3, safe(body)))
    # 4: command starts with a quote   "body          5: output then quoted command   x = "body
    c4 = cls == 4; c5 = cls == 5
    for ch in 'x = ': buf.push(ord(ch), c5)
    buf.push(DQ, zor(c4, c5)); buf.append(body, zor(c4, c5))
    # 6: label starts with a quote     :"body
    c6 = cls == 6
    buf.push(COLON, c6); buf.push(DQ, c6); buf.append(body, c6)
    # 7: backslash inside a name       kbody\  (k + safe body + backslash + anything)
    c7 = cls == 7
    buf.push(ord('k'), c7); buf.append(body, c7); buf.push(BS, c7); buf.push(x, zand(c7, q))
    cons.append(zimp(c7, zand(safe(body), all_chars(body, lambda c: c != EQ), x != LF)))
    # 8: '!' alone (spaces allowed)    !  ' '*         9: '!' + unknown word
    c8 = cls == 8; c9 = cls == 9
    buf.push(BANG, zor(c8, c9)); buf.push(SP, zand(c8, q))
    buf.append(body, c9)
    cons.append(zimp(c9, zand(body.len >= 1, word_ok(body), znot(str_eq(body, mk_str('print'))), znot(str_eq(body, mk_str('include_files'))),
                              all_chars(body, lambda c: znot(is_ws(c))))))
    bad = buf.s
    expect = [('MissingEndQuotes', c0), ('ControlWithoutValidValue', zor(c1, c2, c3)), ('InvalidQuotesLocation', zor(c4, c5, c6)),
              ('InvalidControlLocation', c7), ('PreProcessNoCommandFound', c8), ('UnknownPreProcessorCommand', c9)]
    # position k among well-formed neighbours
    pos = e.fresh_int('pos', 0, 2)
    nb = [e.fresh_int('nb%d' % i, 0, len(NEIGHBOURS) - 1) for i in range(3)]
    lines = []
    for i in range(3):
        l = mk_str(NEIGHBOURS[-1])
        for j in range(len(NEIGHBOURS) - 2, -1, -1): l = merge(nb[i] == j, mk_str(NEIGHBOURS[j]), l)
        lines.append(merge(pos == i, bad, l))
    text, tcons = text_of_lines(e, lines, 3)
    e.assume(zand(tcons, *cons))
    rs, rv = e.run('core', 'parser::parse_text', [text], State(True, {}))
    jr.symex_time = time.time() - t0
    okc = res_ok(rv); errv = res_err(rv)
    checks = [('malformed line is rejected', znot(okc))]
    for kind, c in expect:
        k = names.index(kind)
        if errv is None or k not in errv.p:
            checks.append(('error kind %s' % kind, znot(c))); continue
        meta = errv.p[k][0]
        checks.append(('error kind %s with the line number' % kind, zimp(c, zand(zeq(errv.d, k), zeq(meta.f[0].d, 1), zeq(meta.f[0].p[1][0], pos + 1)))))
    for msg, c in checks: e.obligations.append(Obligation(rs.g, c, 'C08 errors: ' + msg, 'assert', 'oracle'))

    def extract(m, o=None):
        kind = [k for k, c in expect if solve.model_bool(m, c)]
        return dict(kind='c08_error', text=solve.model_str(m, text), expected_kind=kind[0] if kind else None, expected_line=solve.model_int(m, pos) + 1,
                    malformed_class=solve.model_int(m, cls))
    res = solve.discharge(e)
    process_failed(jr, e, res, extract)
    for k in range(10): witness(jr, e, 'class %d reachable' % k, zand(rs.g, cls == k, pos == k % 3), extract)
    H.finish_job(jr, e, res)


# ---------------------------------------------------------------------- native replay
def replayer(v):
    if v.get('kind') in ('c01_lemma', 'c01_struct', 'c01_arglist'): return lemma_replayer(v)
    if v.get('kind') == 'c08_directive':
        # natively the directive includes a real file with 0, 1 or 2 lines; the lines of the including file keep their own numbers
        for inc in ('', 'a\n', 'a\nb\n'):
            out = H.replay(dict(mode='parse_file', files={'main.ds': v['text'].replace('!include_files x', '!include_files inc.ds', 1) if v.get('text') else '!include_files inc.ds\n' + '\n'.join(v['lines']) + '\n', 'inc.ds': inc}, entry='main.ds')); v['native'] = out
            if out.get('panic'): return (True, 'native panic')
            if not out.get('ok'): continue
            own = [i for i in out['instructions'] if (i.get('source') or '').endswith('main.ds')]
            got = [i['line'] for i in own]
            if got != [1, 2, 3][:len(got)] or len(got) != 3: return (True, 'instructions of the including file carry lines %r behind an included file of %d lines' % (got, inc.count('\n')))
        return (False, 'native: the lines of the including file keep their numbers')
    out = H.replay(dict(mode='parse', text=v['text'])); v['native'] = out
    if out.get('panic'): return (True, 'native panic')
    if v['kind'] == 'c08_error':
        if out.get('ok'): return (True, 'native accepted the malformed line')
        er = out['error']
        return (er['kind'] != v['expected_kind'] or er['line'] != v['expected_line'], 'native error %r' % er)
    # generic text: re-check the stated expectations natively
    text = v['text']
    what = v.get('what', '')
    if 'panic' in what or v.get('obligation_kind') == 'panic': return (False, 'native did not panic')
    lines = native_lines(text)
    if 'include_files' in text: return (None, 'include directive in counterexample')
    singles = [H.replay(dict(mode='parse', text=l + '\n')) for l in lines]
    all_ok = all(s.get('ok') for s in singles)
    if out.get('ok') != all_ok: return (True, 'whole/line-wise acceptance differs')
    if out.get('ok'):
        ins = out['instructions']
        if len(ins) != len(lines): return (True, 'instruction count %d for %d lines' % (len(ins), len(lines)))
        for i, (a, s, l) in enumerate(zip(ins, singles, lines)):
            if a['line'] != i + 1: return (True, 'line number')
            b = dict(s['instructions'][0]); b['line'] = i + 1
            if a != b: return (True, 'instruction %d differs from the line parsed alone' % i)
            if (l.strip() == '' or l.strip().startswith('#')) and a['type'] != 'empty': return (True, 'blank line not empty')
        return (False, 'native agrees')
    k = [i for i, s in enumerate(singles) if not s.get('ok')][0]
    er = out['error']; ek = singles[k]['error']
    return (er['kind'] != ek['kind'] or er['line'] != k + 1, 'native error %r; first bad line %d: %r' % (er, k + 1, ek))


def native_lines(text):
    parts = text.split('\n')
    if parts and parts[-1] == '': parts.pop(); term = [True] * len(parts)
    else: term = [True] * (len(parts) - 1) + [False]
    return [p[:-1] if (t and p.endswith('\r')) else p for p, t in zip(parts, term)]


def main(tier, seed):
    chk = H.Check(PID, tier, seed, crates=('core',))
    chk.replayer = replayer
    if tier == 'quick':
        chk.job(job_any_line, 'a:line<=8', L=8)
        chk.job(job_script, 'b:3x3', n=3, W=3)
        chk.job(job_after_directive, 'b2:lines behind a directive', W=2)
        chk.job(job_error_kinds, 'c:kinds', B=2)
        chk.job(job_token_inductive, 'd:scanner error lemmas', N=24, C=12, part='C08')
        lemma_jobs(chk, 'C08', 24, 12)
        chk.bounds = dict(a='one arbitrary line <= 8 chars', b='<= 3 arbitrary lines x <= 3 chars, LF/CRLF', c='10 malformed classes with <= 2 free chars at line 1..3',
                          d='per-iteration lemmas of the token scanner: any position of a buffer <= 24, accumulated text <= 12 (DESIGN 8.6)')
    else:
        chk.job(job_any_line, 'a:line<=12', L=12)
        chk.job(job_script, 'b:4x3', n=4, W=3)
        chk.job(job_script, 'b:2x6', n=2, W=6)
        chk.job(job_after_directive, 'b2:lines behind a directive', W=4)
        chk.job(job_error_kinds, 'c:kinds', B=4)
        chk.job(job_token_inductive, 'd:scanner error lemmas', N=64, C=32, part='C08')
        lemma_jobs(chk, 'C08', 64, 32)
        chk.bounds = dict(a='one arbitrary line <= 12 chars', b='<= 4 lines x <= 3 chars and <= 2 lines x <= 6 chars', c='10 malformed classes with <= 4 free chars',
                          d='per-iteration lemmas of the token scanner: any position of a buffer <= 64, accumulated text <= 32 (DESIGN 8.6)')
    chk.assumptions = ['std models for String/Vec/str::lines/trim/chars; the text is built line by line (unique LF/CRLF decomposition)',
                       '!include_files is stubbed (returns no instructions); count/equality claims exclude texts that execute it (C14 covers includes)',
                       'print! of the !print pre-processor is a no-op']
    results = chk.run()
    return chk.finish(results, 'every obligation is a solver query over all texts within the bounds (panic sites, unwinding, oracle assertions)')
