"""C07 - no script can panic, abort or hang the embedding process (reduced scope, see the manifest note)."""
import time
import z3
from mirsym import harness as H, solve
from mirsym.values import *
from mirsym.engine import State, Obligation
from mirsym.harness import process_failed, witness, discharge_known
from .common import *
from .c06 import invocation_context, run_command
from .c11 import hook_put_handle
from . import c06, c08, c11, c12, c16

PID = 'C07'
# commands whose run function is executed from MIR with arbitrary argument vectors (everything the engine can execute
# among the pure/std commands; third-party backed ones - calc, json, semver, hex, base64_decode, case conversion, fs, net,
# process, time, thread, env, random - are outside, see MANIFEST level_note)
GENERIC = [
    'string::length', 'string::indexof', 'string::last_indexof', 'string::substring', 'string::contains', 'string::starts_with', 'string::ends_with',
    'string::equals', 'string::is_empty', 'string::trim', 'string::trim_start', 'string::trim_end', 'string::lowercase', 'string::bytes_to_string',
    'string::base64_encode',
    'var::set', 'var::set_by_name', 'var::get_by_name', 'var::is_defined', 'var::get_all_var_names', 'var::unset_all_vars',
    'scope::clear', 'scope::push_stack', 'scope::pop_stack', 'release', 'not', 'noop', 'is_command_defined',
    'on_error::on_error', 'on_error::exit_on_error', 'on_error::get_last_error', 'on_error::get_last_error_line', 'on_error::get_last_error_source',
    'on_error::set_error', 'on_error::trigger_error', 'lib::command::remove', 'lib::alias::unset', 'flowcontrol::goto',
    'test::assert', 'test::assert_eq', 'test::assert_error', 'test::assert_fail', 'test::assert_false',
    'collections::array', 'collections::map', 'collections::set', 'collections::map_keys', 'collections::set_to_array', 'lib::alias::set', 'process::exit',
] + ['collections::%s' % c.split('::')[-1] for c in c12.CMD.values() if c.startswith('collections::')]


FLOW_TYPES = ['flowcontrol::function::FunctionCommand', 'flowcontrol::function::ReturnCommand', 'flowcontrol::function::EndFunctionCommand', 'flowcontrol::forin::ForInCommand',
              'flowcontrol::forin::EndForInCommand', 'flowcontrol::ifelse::IfCommand', 'flowcontrol::ifelse::ElseIfCommand', 'flowcontrol::ifelse::ElseCommand', 'flowcontrol::ifelse::EndIfCommand',
              'flowcontrol::while_mod::WhileCommand', 'flowcontrol::while_mod::EndWhileCommand', 'flowcontrol::end::CommandImpl']


def job_generic(ctx, jr, cmds, cap):
    jr.bounds = dict(commands=cmds, argument_counts='0..3', argument_chars=cap, alphabet='all Unicode scalar values; numeric-looking strings included')
    for cmd in cmds:
        for n in range(0, 4):
            e = ctx.engine(unwind=max(8, cap + 4), max_rec=4); e.int_digits = 3; e.range_cap = 4
            e.hooks['utils::state::put_handle'] = hook_put_handle
            t0 = time.time()
            args = [H.sym_str(e, 'arg%d' % i, cap) for i in range(n)]
            ctxv, st = invocation_context(e, V(n, args))
            ty = 'sdk::std::%s' % cmd if cmd in FLOW_TYPES else 'sdk::std::%s::CommandImpl' % cmd
            rs, rv = run_command(e, ty, ctxv, st, selfv=T([mk_str('std::flowcontrol')] if cmd in FLOW_TYPES and 'end::' not in cmd else ([] if cmd in FLOW_TYPES else [mk_str('std')]), ty))
            jr.symex_time += time.time() - t0
            # returning at all (on some path) is the vacuity witness; every panic site / loop bound is an obligation

            def extract(m, o=None): return dict(kind='c07', cmd=cmd.split('::')[-1], args=[solve.model_str(m, x) for x in args])
            res = discharge_known(e, jr, PID, {}, extract)
            if rs is None:
                jr.status = 'violation' if jr.status == 'pass' else jr.status; jr.reason = '%s/%d never returns' % (cmd, n)
            H.finish_job(jr, e, res)
        jr.samples.append(cmd)


def replayer(v):
    k = v.get('kind')
    if k == 'c07':
        if v['cmd'].endswith('Command') or v['cmd'] == 'CommandImpl': v['cmd'] = {'FunctionCommand': 'fn', 'ReturnCommand': 'return', 'ForInCommand': 'for', 'IfCommand': 'if', 'WhileCommand': 'while'}.get(v['cmd'], v['cmd'])
        name = {'push_stack': 'scope_push_stack', 'pop_stack': 'scope_pop_stack', 'clear': 'clear_scope', 'remove': 'remove_command', 'unset': 'unalias', 'set': 'set'}.get(v['cmd'], v['cmd'])
        vars_ = {'a%d' % i: x for i, x in enumerate(v['args'])}
        out = H.replay(dict(mode='sdk', script='r = %s %s' % (name, ' '.join('${a%d}' % i for i in range(len(v['args'])))), vars=vars_)); v['native'] = out
        return (bool(out.get('panic')), 'native panic' if out.get('panic') else 'native returned control')
    if k == 'c07_eval':
        vars_ = {'a%d' % i: x for i, x in enumerate(v['args'])}
        call = ' '.join('${a%d}' % i for i in range(len(v['args'])))
        for script in ('r = eval %s' % call, 'alias zz %s\nr = zz' % call, 'if %s\nend' % call):
            out = H.replay(dict(mode='sdk', script=script, vars=vars_)); v['native'] = out
            if out.get('panic'): return (True, 'native panic through %r' % script.split()[0:3])
        return (False, 'native returned control through eval, an alias and an if condition')
    for mod in (c08, c12, c16, c11, c06):
        if k and k.startswith(mod.PID.lower()):
            r = mod.replayer(v)
            # for C07 only a native panic counts
            nat = v.get('native') or {}
            return (bool(nat.get('panic')) or (r[0] is True and 'panic' in str(r[1])), r[1])
    return (None, 'no replayer for %r' % k)


def job_eval_parse(ctx, jr, nargs, cap):
    """utils::eval::parse - the re-serialiser behind eval, alias commands and command conditions of if / elseif / while / not - on an
    arbitrary non-empty argument vector: every panic site (indexing the parsed instructions!) and loop bound is an obligation"""
    jr.bounds = dict(arguments='1..%d' % nargs, argument_chars=cap, alphabet='all Unicode scalar values (line breaks, quotes, backslashes, # included)')
    e = ctx.engine(unwind=nargs * (cap + 3) + 8); e.panic_only = True
    t0 = time.time()
    n = e.fresh_int('nargs', 1, nargs)
    args = [H.sym_str(e, 'arg%d' % i, cap) for i in range(nargs)]
    rs, rv = e.run('sdk', 'utils::eval::parse', [V(n, args)], State(True, {}))
    jr.symex_time = time.time() - t0

    def extract(m, o=None):
        k = solve.model_int(m, n)
        return dict(kind='c07_eval', args=[solve.model_str(m, a) for a in args[:k]])
    res = discharge_known(e, jr, PID, {}, extract)
    witness(jr, e, 'an argument vector made of line breaks only', zand(rs.g if rs is not None else False, zeq(n, 1), zeq(args[0].len, 1), zeq(args[0].ch[0], 10)), extract, optional=True)
    H.finish_job(jr, e, res)


def main(tier, seed):
    chk = H.Check(PID, tier, seed)
    chk.replayer = replayer
    P = dict(_panic_only=True)
    cap = 3 if tier == 'quick' else 5
    allc = GENERIC + FLOW_TYPES
    groups = [allc[i::8] for i in range(8)]
    for gi, g in enumerate(groups): chk.job(job_generic, 'commands/%d' % gi, cmds=g, cap=cap, **P)
    chk.job(c08.job_any_line, 'parser:line', L=8 if tier == 'quick' else 12, **P)
    chk.job(c08.job_script, 'parser:script', n=3, W=3, **P)
    for c in c12.CMD: chk.job(c12.job_command, 'collections:' + c, cmd=c, vcap=2, **P)
    chk.job(c16.job_substring, 'substring', cap=5 if tier == 'quick' else 8, **P)
    chk.job(c16.job_range, 'range', **P)
    chk.job(c11.job_history, 'scope histories', seqs=[('I', 'N', 'Q'), ('J', 'U', 'R'), ('O',), ('H', 'H', 'O', 'O'), ('I', 'J', 'Q', 'R'), ('J', 'A', 'R', 'D')], **P)
    chk.job(c06.job_slice, 'conditions', n=6 if tier == 'quick' else 8, atom_cap=3, D=3, **P)
    if tier == 'quick': chk.job(job_eval_parse, 'eval re-serialiser', nargs=1, cap=4)
    else: chk.job(job_eval_parse, 'eval re-serialiser', nargs=2, cap=2)
    chk.bounds = dict(generic_commands=len(GENERIC) + len(FLOW_TYPES), argument_chars=cap, parser_line=8 if tier == 'quick' else 12)
    chk.assumptions = ['scope: every panic site (MIR assert terminators, unwrap/expect, slicing, diverging calls) and every loop/recursion bound of the functions encoded here is a proof obligation; '
                       'the oracles of the re-used harnesses are not asserted here (they belong to their own properties)',
                       'not covered: commands backed by third-party crates (calc/evalexpr, json, semver, hex, base64 decode, case conversion, hash), fs, net, process, env, time, thread, random, '
                       'debug/print commands (they write to the embedder output), script-implemented commands; hang-freedom beyond the unwinding obligations of the encoded loops; range is checked for spans <= 4 only (a huge span is an allocation question outside this model)']
    results = chk.run()
    return chk.finish(results, 'every panic site and loop bound of the encoded functions is a solver query over all argument vectors / texts within the bounds')
