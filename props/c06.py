"""C06 - conditions: one truthiness rule, and-of-ors grouping, parentheses."""
import time
import z3
from mirsym import harness as H, solve
from mirsym.values import *
from mirsym.engine import State, Obligation, some, none
from mirsym.harness import process_failed, witness, discharge_known
from .common import *

PID = 'C06'
LP, RP, AND, OR, ATOM = 0, 1, 2, 3, 4
WORDS = {LP: '(', RP: ')', AND: 'and', OR: 'or'}
NONASCII = [0x3042, 0x20AC, 0x1F600]      # case-less representatives accepted by the to_lowercase model


def alphabet_ok(sv):
    return all_chars(sv, lambda c: zor(zand(c >= 0, c < 128), *[zeq(c, x) for x in NONASCII]))


def lower(c):
    return zite(zand(c >= 65, c <= 90), c + 32, c) if is_sym(c) else (c + 32 if 65 <= c <= 90 else c)


def eq_nocase(sv, word):
    cs = [zeq(sv.len, len(word))]
    for i, ch in enumerate(word):
        if i < len(sv.ch): cs.append(zeq(lower(sv.ch[i]), ord(ch)))
        else: return False
    return zand(*cs)


def truthy(sv):
    """the documented rule: falsy iff empty, 0, false, no (case-insensitive)"""
    return znot(zor(zeq(sv.len, 0), eq_nocase(sv, '0'), eq_nocase(sv, 'false'), eq_nocase(sv, 'no')))


def make_tokens(e, n, atom_cap):
    count = e.fresh_int('ntok', 0, n)
    kinds = [e.fresh_int('kind%d' % i, 0, 4) for i in range(n)]
    atoms = [H.sym_str(e, 'atom%d' % i, atom_cap) for i in range(n)]
    toks = []; cons = []
    for i in range(n):
        a = atoms[i]
        cons.append(alphabet_ok(a))
        for w in WORDS.values(): cons.append(zimp(kinds[i] == ATOM, znot(str_eq(a, mk_str(w)))))
        t = a
        for k, w in WORDS.items(): t = merge(kinds[i] == k, mk_str(w), t)
        toks.append(t)
    return count, kinds, atoms, toks, zand(*cons)


def spec(count, kinds, atoms, D):
    """(well_formed, value) of the token sequence by the and-of-ors grammar, groups nested up to depth D"""
    START, AT, OP = 0, 1, 2
    depth = 0
    total = [True] * (D + 1); clause = [False] * (D + 1); last = [START] * (D + 1)
    wf = True
    for i in range(len(kinds)):
        live = simp(i < count)
        if live is False: break
        k = kinds[i]
        isA, isL, isR, isAnd, isOr = k == ATOM, k == LP, k == RP, k == AND, k == OR
        b = truthy(atoms[i])
        cur_last = sel(last, depth, START) if is_sym(depth) else last[depth]
        # well-formedness of this token
        ok_tok = zand(zimp(zor(isA, isL), zor(zeq(cur_last, START), zeq(cur_last, OP))),
                      zimp(zor(isAnd, isOr), zeq(cur_last, AT)),
                      zimp(isL, depth < D),
                      zimp(isR, zand(depth > 0, zor(zeq(cur_last, AT), zeq(cur_last, START)))))
        wf = zand(wf, zimp(live, ok_tok))
        # value of a group that closes here: total[depth] and clause[depth]; empty group is falsy
        gval = False
        for d in range(1, D + 1):
            gv = zand(total[d], clause[d], zeq(last[d], AT))
            gval = zite(zeq(depth, d), gv, gval)
        nt, nc, nl = list(total), list(clause), list(last)
        for d in range(D + 1):
            here = zand(live, zeq(depth, d))
            below = zand(live, zeq(depth, d + 1))         # a ')' at depth d+1 lands an atom at depth d
            opening = zand(live, zeq(depth, d - 1), isL)    # a '(' at depth d-1 opens depth d
            # atom at this depth
            nc[d] = zite(zand(here, isA), zor(clause[d], b), nc[d]); nl[d] = zite(zand(here, isA), AT, nl[d])
            # and / or
            nt[d] = zite(zand(here, isAnd), zand(total[d], clause[d]), nt[d]); nc[d] = zite(zand(here, isAnd), False, nc[d])
            nl[d] = zite(zand(here, zor(isAnd, isOr)), OP, nl[d])
            if d + 1 <= D:
                nc[d] = zite(zand(below, isR), zor(clause[d], gval), nc[d]); nl[d] = zite(zand(below, isR), AT, nl[d])
            if d >= 1:
                nt[d] = zite(opening, True, nt[d]); nc[d] = zite(opening, False, nc[d]); nl[d] = zite(opening, START, nl[d])
        total, clause, last = [simp(x) for x in nt], [simp(x) for x in nc], [simp(x) for x in nl]
        depth = simp(zite(zand(live, isL), depth + 1, zite(zand(live, isR), depth - 1, depth)))
    wf = zand(wf, zeq(depth, 0), zor(zeq(last[0], AT), zeq(count, 0)))
    value = zand(total[0], clause[0], zeq(last[0], AT))
    return simp(wf), simp(value)


def group_first_then_or(count, kinds):
    """the statement, or a parenthesised group inside it, starts with a group that is followed by 'or'"""
    n = len(kinds); hits = []
    for i in range(n):
        # a ')' at i followed by 'or' whose matching '(' is first in its (sub)statement
        for j in range(i):
            first = True if j == 0 else zeq(kinds[j - 1], LP)
            # tokens j..i form a balanced group: count parens
            bal = 0; okb = True
            for t in range(j, i + 1):
                bal = bal + zite(zeq(kinds[t], LP), 1, zite(zeq(kinds[t], RP), -1, 0))
                okb = zand(okb, (bal > 0) if t < i else zeq(bal, 0))
            if i + 1 < n:
                hits.append(zand(i + 1 < count, zeq(kinds[j], LP), zeq(kinds[i], RP), first, okb, zeq(kinds[i + 1], OR)))
    return zor(*hits)


def job_slice(ctx, jr, n, atom_cap, D, via_not=False):
    jr.bounds = dict(tokens=n, atom_chars=atom_cap, nesting=D, alphabet='ASCII + %s' % ', '.join('U+%04X' % x for x in NONASCII),
                     entry='not command' if via_not else 'eval_condition_for_slice')
    e = ctx.engine(unwind=n + 2, max_rec=D + 1)
    t0 = time.time()
    count, kinds, atoms, toks, cons = make_tokens(e, n, atom_cap)
    wf, value = spec(count, kinds, atoms, D)
    e.assume(zand(cons, wf))
    if via_not: e.assume(count >= 1)      # `not` without a condition is an error by its own documentation, not a condition statement
    argv = V(count, toks)
    if via_not:
        ctxv, st = invocation_context(e, argv)
        rs, rv = e.run('sdk', 'sdk::std::not::<impl at duckscript_sdk/src/sdk/std/not/mod.rs:17:1: 17:29>::run', [PV(T([mk_str('std')], 'sdk::std::not::CommandImpl')), ctxv], st) \
            if False else run_command(e, 'sdk::std::not::CommandImpl', ctxv, st)
        jr.symex_time = time.time() - t0
        # CommandResult::Continue(Some("true"/"false")) with the negated value
        CONT = 0
        outv = rv.p[CONT][0] if CONT in rv.p else None
        checks = [('not returns Continue', zeq(rv.d, CONT))]
        if outv is not None and 1 in outv.p:
            checks.append(('not outputs the negated condition value', zimp(zeq(rv.d, CONT), zand(zeq(outv.d, 1), str_eq(outv.p[1][0], merge(value, mk_str('false'), mk_str('true')))))))
    else:
        rs, rv = e.run('sdk', 'utils::condition::eval_condition_for_slice', [argv], State(True, {}))
        jr.symex_time = time.time() - t0
        checks = [('well-formed statement is accepted', zeq(rv.d, 0))]
        if 0 in rv.p: checks.append(('value is the and-of-ors value', zimp(zeq(rv.d, 0), zeq(rv.p[0][0], value))))
    for msg, c in checks: e.obligations.append(Obligation(rs.g, c, 'C06: ' + msg, 'assert', 'oracle'))

    def extract(m, o=None):
        k = solve.model_int(m, count)
        ts = [solve.model_str(m, toks[i]) for i in range(k)]
        return dict(kind='c06', tokens=ts, expected=solve.model_bool(m, value))
    classes = {'group-first-then-or': (group_first_then_or(count, kinds), ('assert',))}
    res = discharge_known(e, jr, PID, classes, extract)
    witness(jr, e, 'nested group with and/or', zand(rs.g, count == n, zor(*[zand(kinds[i] == LP, kinds[i + 1] == LP) for i in range(n - 1)]) if D >= 2 and n >= 6 else count == n), extract)
    witness(jr, e, 'falsy spelling with upper case', zand(rs.g, count >= 1, kinds[0] == ATOM, atoms[0].len == 5, atoms[0].ch[0] == ord('F'), znot(truthy(atoms[0]))), extract, optional=atom_cap < 5)
    H.finish_job(jr, e, res)


def invocation_context(e, argv, commands=None):
    """a CommandInvocationContext value with empty state/variables/instructions and an (empty) command registry"""
    st = State(True, {})
    st.m[(0, 'state')] = M([]); st.m[(0, 'vars')] = M([]); st.m[(0, 'instrs')] = V(0, [])
    st.m[(0, 'cmds')] = commands if commands is not None else T([M([]), M([])], 'types::command::Commands')
    st.m[(0, 'env')] = T([Opaque('out'), Opaque('err'), e.alloc(st, False)], 'types::env::Env')
    ctxv = T([argv, P(0, 'state'), P(0, 'vars'), none(), P(0, 'instrs'), P(0, 'cmds'), 0, P(0, 'env')], 'types::command::CommandInvocationContext')
    return ctxv, st


def run_command(e, ty, ctxv, st, selfv=None):
    f = e.find_method(ty, 'Command', 'run')
    if f is None: raise Abort('Command::run impl not found for ' + ty)
    selfv = selfv if selfv is not None else T([mk_str('std')], ty)
    return e.call_fn(f, st, [PV(selfv), ctxv])


def job_truthiness(ctx, jr, cap):
    """is_true on one arbitrary value (restricted alphabet), plus absent"""
    jr.bounds = dict(value_chars=cap, alphabet='ASCII + 3 case-less non-ASCII representatives')
    e = ctx.engine(unwind=cap + 2)
    t0 = time.time()
    v = H.sym_str(e, 'value', cap); present = e.fresh_bool('present')
    e.assume(alphabet_ok(v))
    arg = E('std::option::Option', zite(present, 1, 0), {0: [], 1: [v]})
    rs, rv = e.run('sdk', 'utils::condition::is_true', [arg], State(True, {}))
    jr.symex_time = time.time() - t0
    e.obligations.append(Obligation(rs.g, zeq(rv, zand(present, truthy(v))), 'C06: truthiness table', 'assert', 'oracle'))

    def extract(m, o=None): return dict(kind='c06', tokens=[solve.model_str(m, v)] if solve.model_bool(m, present) else [], expected=solve.model_bool(m, zand(present, truthy(v))))
    res = discharge_known(e, jr, PID, {}, extract)
    witness(jr, e, 'mixed-case no', zand(rs.g, present, v.len == 2, v.ch[0] == ord('N'), v.ch[1] == ord('o')), extract)
    H.finish_job(jr, e, res)


def job_consumers(ctx, jr):
    """if / elseif / while decide by eval_condition: structural check on the MIR call graph of the current tree"""
    mir = ctx.mir
    from mirsym.mirparse import ensure_parsed
    need = {'IfCommand': 'ifelse', 'ElseIfCommand': 'ifelse', 'WhileCommand': 'while_mod'}
    found = {}
    for (crate, name), fn in mir.fns.items():
        if crate != 'sdk' or not name.endswith('::run'): continue
        ensure_parsed(fn)
        calls = [blk[1][2] for blk in fn.blocks.values() if not blk[2] and blk[1][0] == 'call']
        if any(c.startswith('utils::condition::eval_condition') for c in calls):
            for k, mod in need.items():
                if ('flowcontrol::%s::' % mod) in name: found.setdefault(mod, []).append(name)
    jr.samples.append({'run functions calling utils::condition::eval_condition': found})
    jr.obligations += 2; ok_n = 0
    for mod in ('ifelse', 'while_mod'):
        if found.get(mod): ok_n += 1
        else: jr.status = 'inconclusive'; jr.reason = 'no run function in flowcontrol::%s calls eval_condition' % mod
    jr.discharged += ok_n; jr.blocks += 1; jr.merges += 1


def replayer(v):
    toks = v['tokens']
    vars_ = {'t%d' % i: t for i, t in enumerate(toks)}
    # pass every token through a variable so that no re-quoting is involved; empty tokens stay empty arguments
    script = 'r = not ' + ' '.join('${t%d}' % i for i in range(len(toks)))
    out = H.replay(dict(mode='sdk', script=script, vars=vars_)); v['native'] = out
    if out.get('panic'): return (True, 'native panic')
    if not out.get('ok'): return (True, 'native error %r' % (out.get('error'),))
    got = out['vars'].get('r')
    exp = 'false' if v['expected'] else 'true'
    return (got != exp, 'native: not -> %r, oracle %r' % (got, exp))


def main(tier, seed):
    chk = H.Check(PID, tier, seed)
    chk.replayer = replayer
    if tier == 'quick':
        chk.job(job_slice, 'slice:8tok', n=8, atom_cap=5, D=3)
        chk.job(job_slice, 'not:7tok', n=7, atom_cap=3, D=3, via_not=True)
        chk.job(job_truthiness, 'is_true', cap=6)
        chk.job(job_consumers, 'consumers')
        chk.bounds = dict(tokens='<= 8 (depth <= 3), atoms <= 5 chars', not_command='<= 7 tokens, atoms <= 3 chars', truthiness='values <= 6 chars')
    else:
        chk.job(job_slice, 'slice:10tok', n=10, atom_cap=4, D=3)
        chk.job(job_slice, 'slice:11tok,short atoms', n=11, atom_cap=2, D=3)
        chk.job(job_slice, 'not:10tok', n=10, atom_cap=3, D=3, via_not=True)
        chk.job(job_truthiness, 'is_true', cap=10)
        chk.job(job_consumers, 'consumers')
        chk.bounds = dict(tokens='<= 10 (depth <= 3, atoms <= 4) and <= 11 (atoms <= 2)', not_command='<= 10 tokens', truthiness='values <= 10 chars')
    chk.assumptions = ['atom alphabet: ASCII + U+3042, U+20AC, U+1F600 (to_lowercase is modelled exactly only there; proof obligation inside the model)',
                       'atoms are not the words ( ) and or', 'if/elseif/while: only the call to eval_condition is checked structurally here; their runs are C04',
                       'the first token is not a registered command (command conditions are C09)']
    results = chk.run()
    return chk.finish(results, 'every obligation is a solver query over all well-formed token sequences within the bounds')
