"""C06 - conditions: one truthiness rule, and-of-ors grouping, parentheses."""
import time
import z3
from mirsym import harness as H, solve
from mirsym.values import *
from mirsym.engine import State, Obligation, some, none
from mirsym.harness import process_failed, witness, discharge_known
from .common import *

PID = 'C06'
LP, RP, AND, OR, ATOM = 0, 1, 2, 3, 4
WORDS = {LP: '(', RP: ')', AND: 'and', OR: 'or'}
NONASCII = [0x3042, 0x20AC, 0x1F600]      # case-less representatives accepted by the to_lowercase model


def alphabet_ok(sv):
    return all_chars(sv, lambda c: zor(zand(c >= 0, c < 128), *[zeq(c, x) for x in NONASCII]))


def lower(c):
    return zite(zand(c >= 65, c <= 90), c + 32, c) if is_sym(c) else (c + 32 if 65 <= c <= 90 else c)


def eq_nocase(sv, word):
    cs = [zeq(sv.len, len(word))]
    for i, ch in enumerate(word):
        if i < len(sv.ch): cs.append(zeq(lower(sv.ch[i]), ord(ch)))
        else: return False
    return zand(*cs)


def truthy(sv):
    """the documented rule: falsy iff empty, 0, false, no (case-insensitive)"""
    return znot(zor(zeq(sv.len, 0), eq_nocase(sv, '0'), eq_nocase(sv, 'false'), eq_nocase(sv, 'no')))


def make_tokens(e, n, atom_cap):
    count = e.fresh_int('ntok', 0, n)
    kinds = [e.fresh_int('kind%d' % i, 0, 4) for i in range(n)]
    atoms = [H.sym_str(e, 'atom%d' % i, atom_cap) for i in range(n)]
    toks = []; cons = []
    for i in range(n):
        a = atoms[i]
        cons.append(alphabet_ok(a))
        for w in WORDS.values(): cons.append(zimp(kinds[i] == ATOM, znot(str_eq(a, mk_str(w)))))
        t = a
        for k, w in WORDS.items(): t = merge(kinds[i] == k, mk_str(w), t)
        toks.append(t)
    return count, kinds, atoms, toks, zand(*cons)


def spec(count, kinds, atoms, D):
    """(well_formed, value) of the token sequence by the and-of-ors grammar, groups nested up to depth D"""
    START, AT, OP = 0, 1, 2
    depth = 0
    total = [True] * (D + 1); clause = [False] * (D + 1); last = [START] * (D + 1)
    wf = True
    for i in range(len(kinds)):
        live = simp(i < count)
        if live is False: break
        k = kinds[i]
        isA, isL, isR, isAnd, isOr = k == ATOM, k == LP, k == RP, k == AND, k == OR
        b = truthy(atoms[i])
        cur_last = sel(last, depth, START) if is_sym(depth) else last[depth]
        # well-formedness of this token
        ok_tok = zand(zimp(zor(isA, isL), zor(zeq(cur_last, START), zeq(cur_last, OP))),
                      zimp(zor(isAnd, isOr), zeq(cur_last, AT)),
                      zimp(isL, depth < D),
                      zimp(isR, zand(depth > 0, zor(zeq(cur_last, AT), zeq(cur_last, START)))))
        wf = zand(wf, zimp(live, ok_tok))
        # value of a group that closes here: total[depth] and clause[depth]; empty group is falsy
        gval = False
        for d in range(1, D + 1):
            gv = zand(total[d], clause[d], zeq(last[d], AT))
            gval = zite(zeq(depth, d), gv, gval)
        nt, nc, nl = list(total), list(clause), list(last)
        for d in range(D + 1):
            here = zand(live, zeq(depth, d))
            below = zand(live, zeq(depth, d + 1))         # a ')' at depth d+1 lands an atom at depth d
            opening = zand(live, zeq(depth, d - 1), isL)    # a '(' at depth d-1 opens depth d
            # atom at this depth
            nc[d] = zite(zand(here, isA), zor(clause[d], b), nc[d]); nl[d] = zite(zand(here, isA), AT, nl[d])
            # and / or
            nt[d] = zite(zand(here, isAnd), zand(total[d], clause[d]), nt[d]); nc[d] = zite(zand(here, isAnd), False, nc[d])
            nl[d] = zite(zand(here, zor(isAnd, isOr)), OP, nl[d])
            if d + 1 <= D:
                nc[d] = zite(zand(below, isR), zor(clause[d], gval), nc[d]); nl[d] = zite(zand(below, isR), AT, nl[d])
            if d >= 1:
                nt[d] = zite(opening, True, nt[d]); nc[d] = zite(opening, False, nc[d]); nl[d] = zite(opening, START, nl[d])
        total, clause, last = [simp(x) for x in nt], [simp(x) for x in nc], [simp(x) for x in nl]
        depth = simp(zite(zand(live, isL), depth + 1, zite(zand(live, isR), depth - 1, depth)))
    wf = zand(wf, zeq(depth, 0), zor(zeq(last[0], AT), zeq(count, 0)))
    value = zand(total[0], clause[0], zeq(last[0], AT))
    return simp(wf), simp(value)


def group_first_then_or(count, kinds):
    """the statement, or a parenthesised group inside it, starts with a group that is followed by 'or'"""
    n = len(kinds); hits = []
    for i in range(n):
        # a ')' at i followed by 'or' whose matching '(' is first in its (sub)statement
        for j in range(i):
            first = True if j == 0 else zeq(kinds[j - 1], LP)
            # tokens j..i form a balanced group: count parens
            bal = 0; okb = True
            for t in range(j, i + 1):
                bal = bal + zite(zeq(kinds[t], LP), 1, zite(zeq(kinds[t], RP), -1, 0))
                okb = zand(okb, (bal > 0) if t < i else zeq(bal, 0))
            if i + 1 < n:
                hits.append(zand(i + 1 < count, zeq(kinds[j], LP), zeq(kinds[i], RP), first, okb, zeq(kinds[i + 1], OR)))
    return zor(*hits)


def job_slice(ctx, jr, n, atom_cap, D, via_not=False):
    jr.bounds = dict(tokens=n, atom_chars=atom_cap, nesting=D, alphabet='ASCII + %s' % ', '.join('U+%04X' % x for x in NONASCII),
                     entry='not command' if via_not else 'eval_condition_for_slice')
    e = ctx.engine(unwind=n + 2, max_rec=D + 1)
    t0 = time.time()
    count, kinds, atoms, toks, cons = make_tokens(e, n, atom_cap)
    wf, value = spec(count, kinds, atoms, D)
    e.assume(zand(cons, wf))
    if via_not: e.assume(count >= 1)      # `not` without a condition is an error by its own documentation, not a condition statement
    argv = V(count, toks)
    if via_not:
        ctxv, st = invocation_context(e, argv)
        rs, rv = e.run('sdk', 'sdk::std::not::<impl at duckscript_sdk/src/sdk/std/not/mod.rs:17:1: 17:29>::run', [PV(T([mk_str('std')], 'sdk::std::not::CommandImpl')), ctxv], st) \
            if False else run_command(e, 'sdk::std::not::CommandImpl', ctxv, st)
        jr.symex_time = time.time() - t0
        # CommandResult::Continue(Some("true"/"false")) with the negated value
        CONT = 0
        outv = rv.p[CONT][0] if CONT in rv.p else None
        checks = [('not returns Continue', zeq(rv.d, CONT))]
        if outv is not None and 1 in outv.p:
            checks.append(('not outputs the negated condition value', zimp(zeq(rv.d, CONT), zand(zeq(outv.d, 1), str_eq(outv.p[1][0], merge(value, mk_str('false'), mk_str('true')))))))
    else:
        rs, rv = e.run('sdk', 'utils::condition::eval_condition_for_slice', [argv], State(True, {}))
        jr.symex_time = time.time() - t0
        checks = [('well-formed statement is accepted', zeq(rv.d, 0))]
        if 0 in rv.p: checks.append(('value is the and-of-ors value', zimp(zeq(rv.d, 0), zeq(rv.p[0][0], value))))
    for msg, c in checks: e.obligations.append(Obligation(rs.g, c, 'C06: ' + msg, 'assert', 'oracle'))

    def extract(m, o=None):
        k = solve.model_int(m, count)
        ts = [solve.model_str(m, toks[i]) for i in range(k)]
        return dict(kind='c06', tokens=ts, expected=solve.model_bool(m, value))
    classes = {'group-first-then-or': (group_first_then_or(count, kinds), ('assert',))}
    res = discharge_known(e, jr, PID, classes, extract)
    witness(jr, e, 'nested group with and/or', zand(rs.g, count == n, zor(*[zand(kinds[i] == LP, kinds[i + 1] == LP) for i in range(n - 1)]) if D >= 2 and n >= 6 else count == n), extract)
    witness(jr, e, 'falsy spelling with upper case', zand(rs.g, count >= 1, kinds[0] == ATOM, atoms[0].len == 5, atoms[0].ch[0] == ord('F'), znot(truthy(atoms[0]))), extract, optional=atom_cap < 5)
    H.finish_job(jr, e, res)


def invocation_context(e, argv, commands=None):
    """a CommandInvocationContext value with empty state/variables/instructions and an (empty) command registry"""
    st = State(True, {})
    st.m[(0, 'state')] = M([]); st.m[(0, 'vars')] = M([]); st.m[(0, 'instrs')] = V(0, [])
    st.m[(0, 'cmds')] = commands if commands is not None else T([M([]), M([])], 'types::command::Commands')
    st.m[(0, 'env')] = T([Opaque('out'), Opaque('err'), e.alloc(st, False)], 'types::env::Env')
    ctxv = T([argv, P(0, 'state'), P(0, 'vars'), none(), P(0, 'instrs'), P(0, 'cmds'), 0, P(0, 'env')], 'types::command::CommandInvocationContext')
    return ctxv, st


def run_command(e, ty, ctxv, st, selfv=None):
    f = e.find_method(ty, 'Command', 'run')
    if f is None: raise Abort('Command::run impl not found for ' + ty)
    selfv = selfv if selfv is not None else T([mk_str('std')], ty)
    return e.call_fn(f, st, [PV(selfv), ctxv])


def job_truthiness(ctx, jr, cap):
    """is_true on one arbitrary value (restricted alphabet), plus absent"""
    jr.bounds = dict(value_chars=cap, alphabet='ASCII + 3 case-less non-ASCII representatives')
    e = ctx.engine(unwind=cap + 2)
    t0 = time.time()
    v = H.sym_str(e, 'value', cap); present = e.fresh_bool('present')
    e.assume(alphabet_ok(v))
    arg = E('std::option::Option', zite(present, 1, 0), {0: [], 1: [v]})
    rs, rv = e.run('sdk', 'utils::condition::is_true', [arg], State(True, {}))
    jr.symex_time = time.time() - t0
    e.obligations.append(Obligation(rs.g, zeq(rv, zand(present, truthy(v))), 'C06: truthiness table', 'assert', 'oracle'))

    def extract(m, o=None): return dict(kind='c06', tokens=[solve.model_str(m, v)] if solve.model_bool(m, present) else [], expected=solve.model_bool(m, zand(present, truthy(v))))
    res = discharge_known(e, jr, PID, {}, extract)
    witness(jr, e, 'mixed-case no', zand(rs.g, present, v.len == 2, v.ch[0] == ord('N'), v.ch[1] == ord('o')), extract)
    H.finish_job(jr, e, res)


def job_consumers(ctx, jr):
    """if / elseif / while decide by eval_condition: structural check on the MIR call graph of the current tree"""
    mir = ctx.mir
    from mirsym.mirparse import ensure_parsed
    need = {'IfCommand': 'ifelse', 'ElseIfCommand': 'ifelse', 'WhileCommand': 'while_mod'}
    found = {}
    for (crate, name), fn in mir.fns.items():
        if crate != 'sdk' or not name.endswith('::run'): continue
        ensure_parsed(fn)
        calls = [blk[1][2] for blk in fn.blocks.values() if not blk[2] and blk[1][0] == 'call']
        if any(c.startswith('utils::condition::eval_condition') for c in calls):
            for k, mod in need.items():
                if ('flowcontrol::%s::' % mod) in name: found.setdefault(mod, []).append(name)
    jr.samples.append({'run functions calling utils::condition::eval_condition': found})
    jr.obligations += 2; ok_n = 0
    for mod in ('ifelse', 'while_mod'):
        if found.get(mod): ok_n += 1
        else: jr.status = 'inconclusive'; jr.reason = 'no run function in flowcontrol::%s calls eval_condition' % mod
    jr.discharged += ok_n; jr.blocks += 1; jr.merges += 1


def ref_condition(toks):
    """and-of-ors value of a token list by the statement of the property; None when it is not a well-formed statement"""
    def parse(i, depth):
        # returns (value, next index) of a statement up to the matching ')' / the end
        total = True; clause = None; last = 'start'
        while i < len(toks):
            t = toks[i]
            if t == ')':
                if depth == 0 or last == 'op': return None
                break
            if t == '(':
                if last == 'atom': return None
                r = parse(i + 1, depth + 1)
                if r is None or r[1] >= len(toks) or toks[r[1]] != ')': return None
                clause = (clause or False) or r[0] if last == 'or' else r[0]; last_ = 'atom'; i = r[1] + 1; last = last_; continue
            if t in ('and', 'or'):
                if last != 'atom': return None
                if t == 'and': total = total and clause; clause = None
                last = 'or' if t == 'or' else 'op'
                if t == 'and': last = 'op'
                i += 1; continue
            if last == 'atom': return None
            b = t.lower() not in ('', '0', 'false', 'no')
            clause = ((clause or False) or b) if last == 'or' else b
            last = 'atom'; i += 1
        if last in ('op', 'or'): return None
        return ((total and clause) if last == 'atom' else False, i)
    r = parse(0, 0)
    if r is None or r[1] != len(toks): return None
    return bool(r[0])


def replayer(v):
    if v.get('kind') == 'lemma':
        # confirmation of a failed per-token lemma: every well-formed statement of <= 6 tokens over ( ) and or true false, and the
        # tokens of the counterexample, evaluated natively through `not` and by the reference reading of the property
        import itertools
        cands = [v['tokens']] if v.get('tokens') else []
        for n_ in range(1, 7): cands += [list(x) for x in itertools.product(['(', ')', 'and', 'or', 'true', 'false'], repeat=n_)]
        for n_atoms in (4, 5):      # flat statements of 7 and 9 tokens
            for k_, (ats, ops) in enumerate(itertools.product(itertools.product(['true', 'false'], repeat=n_atoms), itertools.product(['and', 'or'], repeat=n_atoms - 1))):
                if n_atoms == 5 and k_ % 4: continue
                cands.append([x for pair in zip(ats, ops + ('',)) for x in pair][:-1])
        cands += [['(', '(', 'false', ')', 'or', 'true', ')', 'and', '(', 'true', ')'], ['(', ')', 'or', 'x'], ['x', 'and', '(', 'no', 'or', '(', 'Y', ')', ')'], ['(', '(', '(', '0', ')', ')', ')']]
        tested = 0
        for toks in cands:
            exp = ref_condition(toks)
            if exp is None: continue
            tested += 1
            got = replayer(dict(kind='c06', tokens=toks, expected=exp))
            if got[0]: v['tokens_native'] = toks; return (True, 'statement %r: %s' % (toks, got[1]))
        return (False, '%d well-formed statements evaluate as documented natively' % tested)
    toks = v['tokens']
    vars_ = {'t%d' % i: t for i, t in enumerate(toks)}
    # pass every token through a variable so that no re-quoting is involved; empty tokens stay empty arguments
    script = 'r = not ' + ' '.join('${t%d}' % i for i in range(len(toks)))
    out = H.replay(dict(mode='sdk', script=script, vars=vars_)); v['native'] = out
    if out.get('panic'): return (True, 'native panic')
    if not out.get('ok'): return (True, 'native error %r' % (out.get('error'),))
    got = out['vars'].get('r')
    exp = 'false' if v['expected'] else 'true'
    return (got != exp, 'native: not -> %r, oracle %r' % (got, exp))


def main(tier, seed):
    chk = H.Check(PID, tier, seed)
    chk.replayer = replayer
    if tier == 'quick':
        chk.job(job_slice, 'slice:8tok', n=8, atom_cap=5, D=3)
        chk.job(job_slice, 'not:7tok', n=7, atom_cap=3, D=3, via_not=True)
        chk.job(job_truthiness, 'is_true', cap=6)
        chk.job(job_consumers, 'consumers')
        chk.job(job_condition_step, 'step:condition lemmas', N=8, atom_cap=5)
        chk.bounds = dict(step_lemmas='per-token lemmas from an arbitrary evaluator state, statements of <= 8 symbolic tokens, any position, group depth counter <= 1000 (DESIGN.md 8.8)', tokens='<= 8 (depth <= 3), atoms <= 5 chars', not_command='<= 7 tokens, atoms <= 3 chars', truthiness='values <= 6 chars')
    else:
        chk.job(job_slice, 'slice:10tok', n=10, atom_cap=4, D=3)
        chk.job(job_slice, 'slice:11tok,short atoms', n=11, atom_cap=2, D=3)
        chk.job(job_slice, 'not:10tok', n=10, atom_cap=3, D=3, via_not=True)
        chk.job(job_truthiness, 'is_true', cap=10)
        chk.job(job_consumers, 'consumers')
        chk.job(job_condition_step, 'step:condition lemmas', N=16, atom_cap=6)
        chk.bounds = dict(step_lemmas='per-token lemmas from an arbitrary evaluator state, statements of <= 16 symbolic tokens, any position, group depth counter <= 1000 (DESIGN.md 8.8)', tokens='<= 10 (depth <= 3, atoms <= 4) and <= 11 (atoms <= 2)', not_command='<= 10 tokens', truthiness='values <= 10 chars')
    chk.assumptions = ['atom alphabet: ASCII + U+3042, U+20AC, U+1F600 (to_lowercase is modelled exactly only there; proof obligation inside the model)',
                       'atoms are not the words ( ) and or', 'if/elseif/while: only the call to eval_condition is checked structurally here; their runs are C04',
                       'the first token is not a registered command (command conditions are C09)']
    results = chk.run()
    return chk.finish(results, 'every obligation is a solver query over all well-formed token sequences within the bounds')


# ---------------------------------------------------------------------- step lemmas: statements of any length and nesting depth
FT_NONE, FT_AND, FT_OR, FT_VALUE = 0, 1, 2, 3


def job_condition_step(ctx, jr, N, atom_cap):
    """One iteration of the token loop of eval_condition_for_slice from an arbitrary loop-head state of each phase, the recursive
    evaluation of a closed group replaced by an arbitrary result:
      START nothing read yet | AT(c) a value was read, c = disjunction of the current clause | AND after 'and' | OR(c) after 'or'
      GROUP(k) inside an unclosed group at depth k (tokens are only counted), on top of START / AND / OR(c)."""
    from mirsym import induct
    jr.bounds = dict(tokens=N, position='any', atom_chars=atom_cap, group_depth_counter='1..1000', group_value='arbitrary result of the recursive evaluation',
                     claim='per-token lemmas; composition over a statement of any length and depth is the induction of DESIGN.md 8.8')
    OB = 'std::option::Option'
    def ob(present, b): return E(OB, zite(present, 1, 0) if is_sym(present) else (1 if present else 0), {0: [], 1: [b]})
    lem = 0
    for phase in ('BASE', 'FLAT', 'GROUP', 'END'):
        e = ctx.engine(unwind=3, max_rec=2); t0 = time.time()
        count, kinds, atoms, toks, cons = make_tokens(e, N, atom_cap)
        e.assume(cons)
        if phase != 'BASE': e.assume(count >= 1)
        argv = V(count, toks)
        gk = e.fresh_int('group.result', 0, 2)       # 0 Ok(false) 1 Ok(true) 2 Err
        rec = []

        def h_rec(eng, st1, a, callee):
            sl = eng.deref(st1, a[0]) if isinstance(a[0], (P, PV)) else a[0]
            rec.append((st1.g, sl))
            return E('std::result::Result', zite(gk == 2, 1, 0), {0: [zeq(gk, 1)], 1: [mk_str('inner error')]})
        e.hooks['utils::condition::eval_condition_for_slice'] = h_rec
        obs = []
        if phase == 'BASE':
            # the empty statement / empty group, and the state the loop starts from
            e2 = e
            rs, rv = e.run('sdk', 'utils::condition::eval_condition_for_slice', [V(0, [])], State(True, {}))
            obs.append((rs.g, zand(zeq(rv.d, 0), zeq(rv.p[0][0], False)) if 0 in rv.p else False, 'an empty statement (or empty group) is falsy'))
            e.assume(count >= 1)
            fr = induct.capture(e, 'sdk', 'utils::condition::eval_condition_for_slice', [argv], State(True, {}))
            g = lambda n_: fr.get(fr.st, n_)
            obs.append((fr.st.g, zand(zeq(g('searching_block_end'), False), zeq(g('counter'), 0), zeq(g('index'), 0), zeq(g('total_evaluated').d, 0), zeq(g('partial_evaluated').d, 0),
                                      zeq(g('found_token').d, FT_NONE), zeq(g('iter').f[1], 0)), 'the loop starts in phase START at token 0'))
            back = None
        else:
            fr = induct.capture(e, 'sdk', 'utils::condition::eval_condition_for_slice', [argv], State(True, {}))
            fr.require(['searching_block_end', 'start_block', 'counter', 'index', 'total_evaluated', 'partial_evaluated', 'found_token', 'iter'])
            it0 = fr.get(fr.st, 'iter'); ft0 = fr.get(fr.st, 'found_token')
            p = e.fresh_int('p', 0, N); e.assume(p <= count)
            ph = e.fresh_int('outer', 0, 3)          # FoundToken of the enclosing level: None / And / Or / Value
            c = e.fresh_bool('clause'); tsome = e.fresh_bool('total.some')
            # representation invariant of the phases
            e.assume(z3.Implies(ph == FT_NONE, z3.Not(tsome)))         # nothing read: no total yet
            e.assume(z3.Implies(ph == FT_AND, tsome))                  # after 'and' the total exists (and is true, or the loop had returned)
            partial = ob(zor(zeq(ph, FT_OR), zeq(ph, FT_VALUE)), c)
            total = ob(tsome, True)
            k = e.fresh_int('depth', 1, 1000); sb = e.fresh_int('start_block', 0, N)
            in_group = phase == 'GROUP'
            if in_group: e.assume(zand(sb <= p, ph != FT_VALUE))
            if phase == 'END': e.assume(zeq(p, count))
            else: e.assume(p < count)
            rec.clear()
            st1 = fr.state(True, searching_block_end=in_group, start_block=sb if in_group else 0, counter=k if in_group else 0, index=p,
                           total_evaluated=total, partial_evaluated=partial, found_token=E(ft0.ty, ph, ft0.p), iter=T([it0.f[0], p] + list(it0.f[2:]), it0.ty))
            exits, back = fr.step(st1)
            goes_on = back.g if back is not None else False
            rets = fr.returns(exits)
            kind = sel(kinds, p, ATOM); b = truthy(sel_str(atoms, p))
            isA, isL, isR, isAnd, isOr = zeq(kind, ATOM), zeq(kind, LP), zeq(kind, RP), zeq(kind, AND), zeq(kind, OR)

            def at_head(st_, ph2, c2, tsome2, grp=None):
                g = lambda n_: fr.get(st_, n_)
                cs = [zeq(g('index'), p + 1), zeq(g('iter').f[1], p + 1), zeq(g('found_token').d, ph2), zeq(g('total_evaluated').d, zite(tsome2, 1, 0)),
                      zimp(tsome2, g('total_evaluated').p[1][0] if 1 in g('total_evaluated').p else False)]
                if c2 is None: cs.append(zeq(g('partial_evaluated').d, 0))
                else: cs.append(zand(zeq(g('partial_evaluated').d, 1), zeq(g('partial_evaluated').p[1][0], c2)) if 1 in g('partial_evaluated').p else False)
                if grp is None: cs += [zeq(g('searching_block_end'), False), zeq(g('counter'), 0)]
                else: cs += [zeq(g('searching_block_end'), True), zeq(g('counter'), grp[0]), zeq(g('start_block'), grp[1])]
                return zand(*cs)
            newc = zite(zeq(ph, FT_OR), zor(c, b), b)
            if phase == 'FLAT':
                opener = zor(zeq(ph, FT_NONE), zeq(ph, FT_AND), zeq(ph, FT_OR))
                # a value where a value may stand
                cnd = zand(isA, opener); obs.append((cnd, goes_on, 'a value is read'))
                if back is not None: obs.append((zand(back.g, cnd), at_head(back, FT_VALUE, newc, tsome), 'value: the clause becomes (clause or value) after or, the value otherwise; the total is untouched'))
                # and
                cnd = zand(isAnd, zeq(ph, FT_VALUE))
                obs.append((zand(cnd, c), goes_on, 'and after a true clause: the statement goes on')); obs.append((zand(cnd, znot(c)), znot(goes_on), 'and after a false clause ends the evaluation'))
                if back is not None: obs.append((zand(back.g, cnd), at_head(back, FT_AND, None, True), 'and: the finished clause is folded into the total, a new clause starts'))
                for rs, rv in rets: obs.append((zand(rs.g, cnd, znot(c)), zand(zeq(rv.d, 0), zeq(rv.p[0][0], False)) if 0 in rv.p else False, 'a false clause makes the conjunction false'))
                # or
                cnd = zand(isOr, zeq(ph, FT_VALUE)); obs.append((cnd, goes_on, 'or after a value: the clause goes on'))
                if back is not None: obs.append((zand(back.g, cnd), at_head(back, FT_OR, c, tsome), 'or: clause and total are kept'))
                # opening a group where a value may stand
                cnd = zand(isL, opener); obs.append((cnd, goes_on, 'a group is opened'))
                if back is not None:
                    obs.append((zand(back.g, cnd), zand(zeq(fr.get(back, 'searching_block_end'), True), zeq(fr.get(back, 'counter'), 1), zeq(fr.get(back, 'start_block'), p + 1),
                                                        zeq(fr.get(back, 'found_token').d, ph), deep_eq(fr.get(back, 'partial_evaluated'), partial), deep_eq(fr.get(back, 'total_evaluated'), total),
                                                        zeq(fr.get(back, 'index'), p + 1), zeq(fr.get(back, 'iter').f[1], p + 1)),
                                'opening a group: depth 1, the group starts behind the parenthesis, the enclosing level is kept as it is'))
            elif phase == 'GROUP':
                closes = zand(isR, zeq(k, 1))
                obs.append((znot(closes), goes_on, 'inside a group tokens are only counted'))
                if back is not None:
                    obs.append((zand(back.g, znot(closes)), zand(zeq(fr.get(back, 'searching_block_end'), True), zeq(fr.get(back, 'counter'), zite(isL, k + 1, zite(isR, k - 1, k))), zeq(fr.get(back, 'start_block'), sb),
                                                                  zeq(fr.get(back, 'found_token').d, ph), deep_eq(fr.get(back, 'partial_evaluated'), partial), deep_eq(fr.get(back, 'total_evaluated'), total),
                                                                  zeq(fr.get(back, 'index'), p + 1), zeq(fr.get(back, 'iter').f[1], p + 1)),
                                'inside a group: the depth follows the parentheses, everything else is kept'))
                    gval = zeq(gk, 1)
                    obs.append((zand(back.g, closes), at_head(back, FT_VALUE, zite(zeq(ph, FT_OR), zor(c, gval), gval), tsome), 'a closed group counts exactly like a value with the value of its content'))
                obs.append((zand(closes, gk != 2), goes_on, 'after a group the statement goes on')); obs.append((zand(closes, gk == 2), znot(goes_on), 'an error inside a group ends the evaluation'))
                for g_, sl in rec:
                    exp = [zeq(sl.len, p - sb)] + [zimp(i < sl.len, str_eq(sl.it[i], sel_str(toks, sb + i))) for i in range(min(len(sl.it), N))]
                    obs.append((g_, zand(closes, *exp), 'the content of the group - exactly the tokens between its parentheses - is evaluated by the same function'))
                obs.append((closes, zor(*[g_ for g_, _ in rec]) if rec else False, 'a closed group is evaluated'))
                for rs, rv in rets: obs.append((zand(rs.g, closes, gk == 2), zeq(rv.d, 1), 'an error inside a group is an error of the statement'))
            else:
                obs.append((True, znot(goes_on), 'the loop ends with the tokens'))
                for rs, rv in rets:
                    okv = rv.p[0][0] if 0 in rv.p else None
                    obs.append((zand(rs.g, zeq(ph, FT_VALUE)), False if okv is None else zand(zeq(rv.d, 0), zeq(okv, c)), 'the value of the statement is the last clause (all earlier clauses were true)'))
                    obs.append((zand(rs.g, zeq(ph, FT_NONE)), False if okv is None else zand(zeq(rv.d, 0), zeq(okv, False)), 'nothing read: falsy'))
        for g_, cnd, msg in obs: e.obligations.append(Obligation(g_, cnd, 'C06 condition lemma (%s): %s' % (phase, msg), 'assert', 'oracle'))
        lem += len(obs)
        jr.symex_time += time.time() - t0

        def extract(m, o=None, phase=phase):
            kk = solve.model_int(m, count)
            return dict(kind='lemma', phase=phase, tokens=[solve.model_str(m, toks[i]) for i in range(kk)])
        res = discharge_known(e, jr, PID, {}, extract)
        if phase in ('FLAT', 'GROUP'): witness(jr, e, 'condition lemma %s: the iteration continues' % phase, back.g if back is not None else False, extract)
        H.finish_job(jr, e, res)
    jr.samples.append({'lemmas': lem})


def sel_str(items, idx):
    r = items[-1]
    for i in range(len(items) - 2, -1, -1): r = merge(zeq(idx, i), items[i], r)
    return r
