"""C04 - if / elseif / else / while / for-in behave as properly nested structured blocks.
Layer 1 (this file): block-boundary discovery on fully symbolic program structure."""
import time
import z3
from mirsym import harness as H, solve
from mirsym.values import *
from mirsym.engine import State, Obligation, some, none, OPTION
from mirsym.harness import process_failed, witness, discharge_known
from .common import *

PID = 'C04'
IF, ELSEIF, ELSE, ENDIF, WHILE, ENDWHILE, FOR, ENDFOR, FN, ENDFN, END, PLAIN = range(12)
KNAMES = ['if', 'elseif', 'else', 'end_if', 'while', 'end_while', 'for', 'end_for', 'function', 'end_function', 'end', 'plain']
TYPES = {IF: 'sdk::std::flowcontrol::ifelse::IfCommand', ELSEIF: 'sdk::std::flowcontrol::ifelse::ElseIfCommand', ELSE: 'sdk::std::flowcontrol::ifelse::ElseCommand',
         ENDIF: 'sdk::std::flowcontrol::ifelse::EndIfCommand', WHILE: 'sdk::std::flowcontrol::while_mod::WhileCommand', ENDWHILE: 'sdk::std::flowcontrol::while_mod::EndWhileCommand',
         FOR: 'sdk::std::flowcontrol::forin::ForInCommand', ENDFOR: 'sdk::std::flowcontrol::forin::EndForInCommand', FN: 'sdk::std::flowcontrol::function::FunctionCommand',
         ENDFN: 'sdk::std::flowcontrol::function::EndFunctionCommand', END: 'sdk::std::flowcontrol::end::CommandImpl'}
ENTRY = {IF: 'sdk::std::flowcontrol::ifelse::create_if_meta_info_for_line', WHILE: 'sdk::std::flowcontrol::while_mod::create_while_meta_info_for_line',
         FOR: 'sdk::std::flowcontrol::forin::create_forin_meta_info_for_line'}
OPENERS = (IF, WHILE, FOR, FN); CLOSER_OF = {ENDIF: IF, ENDWHILE: WHILE, ENDFOR: FOR, ENDFN: FN}


def spellings(ctx):
    """every spelling (aliases + full name) of every block keyword, obtained by executing the real name()/aliases()"""
    e = ctx.engine(unwind=8)
    out = {}
    for k, ty in TYPES.items():
        selfv = T([mk_str('std::flowcontrol')], ty) if k != END else T([], ty)
        names = []
        for meth in ('aliases', 'name'):
            f = e.find_method(ty, 'Command', meth)
            if f is None:
                if meth == 'aliases': continue
                raise Abort('no %s for %s' % (meth, ty))
            rs, rv = e.call_fn(f, State(True, {}), [PV(selfv)])
            if meth == 'name': names.append(str_concrete(rv))
            else: names += [str_concrete(x) for x in rv.it[:rv.len]]
        if any(x is None for x in names): raise Abort('symbolic command name?')
        out[k] = names
    out[PLAIN] = ['x']
    return out


def job_boundaries(ctx, jr, own, n, D):
    sp = spellings(ctx)
    jr.bounds = dict(opener=KNAMES[own], lines=n, nesting=D, spellings={KNAMES[k]: v for k, v in sp.items()})
    e = ctx.engine(unwind=n + 2, max_rec=D + 2)
    t0 = time.time()
    kind = [own] + [e.fresh_int('k%d' % i, 0, 11) for i in range(1, n)]
    spell = [e.fresh_int('s%d' % i, 0, 3) for i in range(n)]
    cmds = []
    for i in range(n):
        c = mk_str('x')
        for k in range(11, -1, -1):
            names = sp[k]
            for j in range(len(names) - 1, -1, -1):
                c = merge(zand(zeq(kind[i], k), zeq(spell[i], j) if j < len(names) - 1 else True), mk_str(names[j]), c) if not (k == PLAIN) else c
        # spelling index within range
        e.assume(zand(*[zimp(zeq(kind[i], k), spell[i] < len(sp[k])) for k in range(12)]))
        cmds.append(c)
    instrs = []
    for i in range(n):
        si = T([none(), none(), some(cmds[i]), none()], 'types::instruction::ScriptInstruction')
        instrs.append(T([meta_new(i + 1), E('types::instruction::InstructionType', 2, {2: [si]})], 'types::instruction::Instruction'))
    # ---- specification: stack recogniser
    depth = 0; done = False; endline = -1; wf = True
    blk = [own] + [0] * D            # kind of the open block per level
    else_seen = [False] * (D + 1)
    is_mid = [False] * n
    for i in range(1, n):
        k = kind[i]; live = znot(done)
        top = sel(blk, depth, 0) if is_sym(depth) else blk[depth]
        top_else = sel(else_seen, depth, False) if is_sym(depth) else else_seen[depth]
        is_open = zor(*[zeq(k, o) for o in OPENERS])
        is_mid_tok = zor(zeq(k, ELSEIF), zeq(k, ELSE))
        is_spec_close = zor(*[zeq(k, c) for c in CLOSER_OF])
        match_close = zor(*[zand(zeq(k, c), zeq(top, o)) for c, o in CLOSER_OF.items()])
        is_close = zor(zeq(k, END), is_spec_close)
        ok_tok = zand(zimp(is_open, depth < D), zimp(is_mid_tok, zand(zeq(top, IF), znot(top_else))), zimp(is_spec_close, match_close))
        wf = zand(wf, zimp(live, ok_tok))
        is_mid[i] = simp(zand(live, is_mid_tok, zeq(depth, 0)))
        closes_own = zand(live, is_close, zeq(depth, 0))
        endline = zite(closes_own, i, endline)
        nb = list(blk); ne = list(else_seen)
        for d in range(D + 1):
            opening = zand(live, is_open, zeq(depth, d - 1)) if d >= 1 else False
            nb[d] = zite(opening, k, blk[d]); ne[d] = zite(opening, False, zite(zand(live, zeq(k, ELSE), zeq(depth, d)), True, else_seen[d]))
        blk, else_seen = [simp(x) for x in nb], [simp(x) for x in ne]
        depth = simp(zite(zand(live, is_open), depth + 1, zite(zand(live, is_close, depth > 0), depth - 1, depth)))
        done = simp(zor(done, closes_own))
    e.assume(zand(wf, done))
    rs, rv = e.run('sdk', ENTRY[own], [0, PV(V(n, instrs)), mk_str('std::flowcontrol')], State(True, {}))
    jr.symex_time = time.time() - t0
    if rs is None: raise Abort('never returns')
    okc = zeq(rv.d, 0)
    checks = [('a well-nested block is accepted', okc)]
    if 0 in rv.p:
        mi = rv.p[0][0]
        checks.append(('start is the opener line', zimp(okc, zeq(mi.f[0], 0))))
        checks.append(('end is the matching closer', zimp(okc, zeq(mi.f[1], endline))))
        if own == IF:
            el = mi.f[2]
            cnt = 0
            for i in range(n): cnt = cnt + zite(is_mid[i], 1, 0)
            checks.append(('else_lines has exactly the depth-0 elseif/else lines', zimp(okc, zeq(el.len, cnt))))
            pos = 0
            for i in range(n):
                if is_mid[i] is not False:
                    got = sel(el.it, pos, -1) if el.it else -1
                    checks.append(('else line %d in order' % i, zimp(zand(okc, is_mid[i]), zeq(got, i))))
                pos = pos + zite(is_mid[i], 1, 0)
    for msg, c in checks: e.obligations.append(Obligation(rs.g, c, 'C04 boundaries(%s): %s' % (KNAMES[own], msg), 'assert', 'oracle'))

    def extract(m, o=None):
        prog = []
        for i in range(n):
            k = solve.model_int(m, kind[i]) if i else own
            names = sp[k]; j = min(solve.model_int(m, spell[i]), len(names) - 1)
            prog.append(names[j])
        mids = [i for i in range(n) if solve.model_bool(m, is_mid[i])]
        return dict(kind='c04_l1', opener=KNAMES[own], program=prog, expected_end=solve.model_int(m, endline), expected_else_lines=mids)
    res = discharge_known(e, jr, PID, {}, extract)
    witness(jr, e, 'nested block closed by the generic end', zand(rs.g, zor(*[zand(zeq(kind[i], o), zeq(kind[i + 1], END)) for i in range(1, n - 1) for o in OPENERS]), endline == n - 1), extract)
    if own == IF: witness(jr, e, 'elseif and else at depth 0 with full names', zand(rs.g, zor(*[zand(is_mid[i], spell[i] == len(sp[ELSE]) - 1, zeq(kind[i], ELSE)) for i in range(1, n)])), extract)
    H.finish_job(jr, e, res)


def replayer(v):
    """run the program natively: every block keyword gets a trivially true/empty header and each line records itself"""
    if v.get('kind') != 'c04_l1': return (None, 'no replayer')
    prog = v['program']; lines = []
    mark = 0
    heads = {'if': ' true', 'elseif': ' true', 'else_if': ' true', 'while': ' false', 'for': ' i in ${empty}', 'function': ' f%d', 'fn': ' f%d'}
    for i, c in enumerate(prog):
        base = c.split('::')[-1].lower()
        hd = ''
        if c in ('if', 'elseif', 'else_if') or c.endswith('::If') or c.endswith('::ElseIf'): hd = ' false' if i else ' true'
        elif c == 'while' or c.endswith('::While'): hd = ' false'
        elif c == 'for' or c.endswith('::ForIn'): hd = ' i in ${empty}'
        elif c in ('function', 'fn') or c.endswith('::Function'): hd = ' f%d' % i
        if c == 'x': lines.append('t%d = set 1' % i)
        else: lines.append(c + hd)
    lines.append('after = set done')
    script = 'empty = array\n' + '\n'.join(lines)
    out = H.replay(dict(mode='sdk', script=script)); v['native'] = out; v['script'] = script
    if out.get('panic'): return (True, 'native panic')
    # the block at line 0 must be skipped / entered consistently and execution must reach the line after the expected end
    if not out.get('ok'): return (True, 'native run failed: %r' % (out.get('error'),))
    return ('after' not in out.get('vars', {}), 'native run reached the end: %r' % ('after' in out.get('vars', {})))


def main(tier, seed):
    chk = H.Check(PID, tier, seed)
    chk.replayer = replayer
    n, D = (9, 3) if tier == 'quick' else (12, 3)
    for own in (IF, WHILE, FOR): chk.job(job_boundaries, 'L1:%s' % KNAMES[own], own=own, n=n, D=D)
    chk.bounds = dict(layer1='opener at line 0 followed by <= %d symbolic lines, nesting <= %d, every alias / full-name spelling of every block keyword' % (n - 1, D))
    chk.assumptions = ['layer 1 only: the block boundary discovery (find_commands + create_*_meta_info_for_line) on symbolic program structure; the whole-run layer '
                       '(branch selection, loop iteration, per-construct call stacks) is not built yet', 'well-nestedness within the depth bound is assumed by a symbolic stack recogniser',
                       'keyword spellings are obtained by executing the real name()/aliases() from the MIR']
    results = chk.run()
    return chk.finish(results, 'every obligation is a solver query over all well-nested programs and keyword spellings within the bounds')
