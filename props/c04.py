"""C04 - if / elseif / else / while / for-in behave as properly nested structured blocks.
Layer 1 (this file): block-boundary discovery on fully symbolic program structure."""
import time
import z3
from mirsym import harness as H, solve
from mirsym.values import *
from mirsym.engine import State, Obligation, some, none, OPTION
from mirsym.harness import process_failed, witness, discharge_known
from .common import *

PID = 'C04'
IF, ELSEIF, ELSE, ENDIF, WHILE, ENDWHILE, FOR, ENDFOR, FN, ENDFN, END, PLAIN = range(12)
KNAMES = ['if', 'elseif', 'else', 'end_if', 'while', 'end_while', 'for', 'end_for', 'function', 'end_function', 'end', 'plain']
TYPES = {IF: 'sdk::std::flowcontrol::ifelse::IfCommand', ELSEIF: 'sdk::std::flowcontrol::ifelse::ElseIfCommand', ELSE: 'sdk::std::flowcontrol::ifelse::ElseCommand',
         ENDIF: 'sdk::std::flowcontrol::ifelse::EndIfCommand', WHILE: 'sdk::std::flowcontrol::while_mod::WhileCommand', ENDWHILE: 'sdk::std::flowcontrol::while_mod::EndWhileCommand',
         FOR: 'sdk::std::flowcontrol::forin::ForInCommand', ENDFOR: 'sdk::std::flowcontrol::forin::EndForInCommand', FN: 'sdk::std::flowcontrol::function::FunctionCommand',
         ENDFN: 'sdk::std::flowcontrol::function::EndFunctionCommand', END: 'sdk::std::flowcontrol::end::CommandImpl'}
ENTRY = {IF: 'sdk::std::flowcontrol::ifelse::create_if_meta_info_for_line', WHILE: 'sdk::std::flowcontrol::while_mod::create_while_meta_info_for_line',
         FOR: 'sdk::std::flowcontrol::forin::create_forin_meta_info_for_line'}
OPENERS = (IF, WHILE, FOR, FN); CLOSER_OF = {ENDIF: IF, ENDWHILE: WHILE, ENDFOR: FOR, ENDFN: FN}


def spellings(ctx):
    """every spelling (aliases + full name) of every block keyword, obtained by executing the real name()/aliases()"""
    e = ctx.engine(unwind=8)
    out = {}
    for k, ty in TYPES.items():
        selfv = T([mk_str('std::flowcontrol')], ty) if k != END else T([], ty)
        names = []
        for meth in ('aliases', 'name'):
            f = e.find_method(ty, 'Command', meth)
            if f is None:
                if meth == 'aliases': continue
                raise Abort('no %s for %s' % (meth, ty))
            rs, rv = e.call_fn(f, State(True, {}), [PV(selfv)])
            if meth == 'name': names.append(str_concrete(rv))
            else: names += [str_concrete(x) for x in rv.it[:rv.len]]
        if any(x is None for x in names): raise Abort('symbolic command name?')
        out[k] = names
    out[PLAIN] = ['x']
    return out


def job_boundaries(ctx, jr, own, n, D):
    sp = spellings(ctx)
    jr.bounds = dict(opener=KNAMES[own], lines=n, nesting=D, spellings={KNAMES[k]: v for k, v in sp.items()})
    e = ctx.engine(unwind=n + 2, max_rec=D + 2)
    t0 = time.time()
    kind = [own] + [e.fresh_int('k%d' % i, 0, 11) for i in range(1, n)]
    spell = [e.fresh_int('s%d' % i, 0, 3) for i in range(n)]
    cmds = []
    for i in range(n):
        c = mk_str('x')
        for k in range(11, -1, -1):
            names = sp[k]
            for j in range(len(names) - 1, -1, -1):
                c = merge(zand(zeq(kind[i], k), zeq(spell[i], j) if j < len(names) - 1 else True), mk_str(names[j]), c) if not (k == PLAIN) else c
        # spelling index within range
        e.assume(zand(*[zimp(zeq(kind[i], k), spell[i] < len(sp[k])) for k in range(12)]))
        cmds.append(c)
    instrs = []
    for i in range(n):
        si = T([none(), none(), some(cmds[i]), none()], 'types::instruction::ScriptInstruction')
        instrs.append(T([meta_new(i + 1), E('types::instruction::InstructionType', 2, {2: [si]})], 'types::instruction::Instruction'))
    # ---- specification: stack recogniser
    depth = 0; done = False; endline = -1; wf = True
    blk = [own] + [0] * D            # kind of the open block per level
    else_seen = [False] * (D + 1)
    is_mid = [False] * n
    for i in range(1, n):
        k = kind[i]; live = znot(done)
        top = sel(blk, depth, 0) if is_sym(depth) else blk[depth]
        top_else = sel(else_seen, depth, False) if is_sym(depth) else else_seen[depth]
        is_open = zor(*[zeq(k, o) for o in OPENERS])
        is_mid_tok = zor(zeq(k, ELSEIF), zeq(k, ELSE))
        is_spec_close = zor(*[zeq(k, c) for c in CLOSER_OF])
        match_close = zor(*[zand(zeq(k, c), zeq(top, o)) for c, o in CLOSER_OF.items()])
        is_close = zor(zeq(k, END), is_spec_close)
        ok_tok = zand(zimp(is_open, depth < D), zimp(is_mid_tok, zand(zeq(top, IF), znot(top_else))), zimp(is_spec_close, match_close))
        wf = zand(wf, zimp(live, ok_tok))
        is_mid[i] = simp(zand(live, is_mid_tok, zeq(depth, 0)))
        closes_own = zand(live, is_close, zeq(depth, 0))
        endline = zite(closes_own, i, endline)
        nb = list(blk); ne = list(else_seen)
        for d in range(D + 1):
            opening = zand(live, is_open, zeq(depth, d - 1)) if d >= 1 else False
            nb[d] = zite(opening, k, blk[d]); ne[d] = zite(opening, False, zite(zand(live, zeq(k, ELSE), zeq(depth, d)), True, else_seen[d]))
        blk, else_seen = [simp(x) for x in nb], [simp(x) for x in ne]
        depth = simp(zite(zand(live, is_open), depth + 1, zite(zand(live, is_close, depth > 0), depth - 1, depth)))
        done = simp(zor(done, closes_own))
    e.assume(zand(wf, done))
    rs, rv = e.run('sdk', ENTRY[own], [0, PV(V(n, instrs)), mk_str('std::flowcontrol')], State(True, {}))
    jr.symex_time = time.time() - t0
    if rs is None: raise Abort('never returns')
    okc = zeq(rv.d, 0)
    checks = [('a well-nested block is accepted', okc)]
    if 0 in rv.p:
        mi = rv.p[0][0]
        checks.append(('start is the opener line', zimp(okc, zeq(mi.f[0], 0))))
        checks.append(('end is the matching closer', zimp(okc, zeq(mi.f[1], endline))))
        if own == IF:
            el = mi.f[2]
            cnt = 0
            for i in range(n): cnt = cnt + zite(is_mid[i], 1, 0)
            checks.append(('else_lines has exactly the depth-0 elseif/else lines', zimp(okc, zeq(el.len, cnt))))
            pos = 0
            for i in range(n):
                if is_mid[i] is not False:
                    got = sel(el.it, pos, -1) if el.it else -1
                    checks.append(('else line %d in order' % i, zimp(zand(okc, is_mid[i]), zeq(got, i))))
                pos = pos + zite(is_mid[i], 1, 0)
    for msg, c in checks: e.obligations.append(Obligation(rs.g, c, 'C04 boundaries(%s): %s' % (KNAMES[own], msg), 'assert', 'oracle'))

    def extract(m, o=None):
        prog = []
        for i in range(n):
            k = solve.model_int(m, kind[i]) if i else own
            names = sp[k]; j = min(solve.model_int(m, spell[i]), len(names) - 1)
            prog.append(names[j])
        mids = [i for i in range(n) if solve.model_bool(m, is_mid[i])]
        return dict(kind='c04_l1', opener=KNAMES[own], program=prog, expected_end=solve.model_int(m, endline), expected_else_lines=mids)
    res = discharge_known(e, jr, PID, {}, extract)
    witness(jr, e, 'nested block closed by the generic end', zand(rs.g, zor(*[zand(zeq(kind[i], o), zeq(kind[i + 1], END)) for i in range(1, n - 1) for o in OPENERS]), endline == n - 1), extract)
    if own == IF: witness(jr, e, 'elseif and else at depth 0 with full names', zand(rs.g, zor(*[zand(is_mid[i], spell[i] == len(sp[ELSE]) - 1, zeq(kind[i], ELSE)) for i in range(1, n)])), extract)
    H.finish_job(jr, e, res)


def ifelse_panel():
    """if / elseif / else chains with observable conditions (probe <tag> <value> records itself and returns the value), every chain shape
    with up to two elseif lines and an optional else, nested once, every truth assignment; expected trace = first true branch only,
    conditions evaluated up to and including it"""
    import itertools
    cases = []
    for n_elif in (0, 1, 2):
        for has_else in (False, True):
            for vals in itertools.product(['true', 'false'], repeat=1 + n_elif):
                for end_kw in ('end', 'end_if'):
                    lines = ['if probe a ${c0}', 'emit A']
                    for j in range(n_elif): lines += ['%s probe %s ${c%d}' % (('elseif', 'else_if')[j % 2] if False else 'elseif', 'bc'[j], j + 1), 'emit %s' % 'BC'[j]]
                    if has_else: lines += ['else', 'emit D']
                    lines += [end_kw, 'emit Z']
                    # nested copy inside the first branch
                    trace = ''; taken = False
                    for j, v_ in enumerate(vals):
                        if taken: break
                        trace += 'abc'[j]
                        if v_ == 'true': trace += 'ABC'[j]; taken = True
                    if not taken and has_else: trace += 'D'
                    trace += 'Z'
                    cases.append(dict(kind='c04_l2', script=lines, vars={'c%d' % j: v_ for j, v_ in enumerate(vals)}, array=[], expected_trace=trace))
    # a chain inside a loop (the bookkeeping must not leak from one pass to the next) and inside another if
    for vals in itertools.product(['true', 'false'], repeat=2):
        lines = ['for i in ${arr}', 'if probe a ${c0}', 'emit A', 'elseif probe b ${c1}', 'emit B', 'else', 'emit D', 'end', 'end', 'emit Z']
        one = 'a' + ('A' if vals[0] == 'true' else 'b' + ('B' if vals[1] == 'true' else 'D'))
        cases.append(dict(kind='c04_l2', script=lines, vars={'c0': vals[0], 'c1': vals[1]}, array=['p', 'q'], expected_trace=one * 2 + 'Z'))
        lines = ['if true', 'if probe a ${c0}', 'emit A', 'elseif probe b ${c1}', 'emit B', 'end', 'emit Y', 'else', 'emit D', 'end', 'emit Z']
        cases.append(dict(kind='c04_l2', script=lines, vars={'c0': vals[0], 'c1': vals[1]}, array=[], expected_trace='a' + ('A' if vals[0] == 'true' else 'b' + ('B' if vals[1] == 'true' else '')) + 'YZ'))
    # while loops: the condition is evaluated once per pass and once more to leave
    for endkw in ('end', 'end_while'):
        cases.append(dict(kind='c04_l2', script=['while probe a ${w}', 'emit A', 'w = set false', endkw, 'emit Z'], vars={'w': 'true'}, array=[], expected_trace='aAaZ', timeout=10))
        cases.append(dict(kind='c04_l2', script=['while probe a ${w}', 'emit A', endkw, 'emit Z'], vars={'w': 'false'}, array=[], expected_trace='aZ'))
        cases.append(dict(kind='c04_l2', script=['while probe a ${w}', 'while probe b ${v}', 'emit B', 'v = set false', endkw, 'emit A', 'w = set false', 'end', 'emit Z'], vars={'w': 'true', 'v': 'true'}, array=[],
                          expected_trace='abBbAaZ'))
        cases.append(dict(kind='c04_l2', script=['for i in ${arr}', 'emit ${i}', endkw.replace('end_while', 'end_for'), 'for i in ${arr}', 'emit ${i}', 'end', 'emit Z'], vars={}, array=['p', 'q', 'r'], expected_trace='pqrpqrZ'))
        cases.append(dict(kind='c04_l2', script=['for i in ${arr}', 'v = set true', 'while probe b ${v}', 'emit B', 'v = set false', endkw, 'end', 'emit Z'], vars={}, array=['p', 'q'], expected_trace='bBbbBbZ'))
    # blocks whose body calls a script-implemented command that has blocks of its own (concat: a for loop; join_path: a for loop with an if
    # inside and a while loop): the body of such a command has its own line numbers, which may coincide with the caller's (every alignment
    # of the caller's block line against them is tried by padding)
    for pad in range(0, 14):
        pre = ['x%d = set 1' % j for j in range(pad)]
        cases.append(dict(kind='c04_l2', script=pre + ['for i in ${arr}', 'y = concat ${i} -', 'emit ${y}', 'end', 'emit Z'], vars={}, array=['p', 'q', 'r'], expected_trace='p-q-r-Z'))
        cases.append(dict(kind='c04_l2', script=pre + ['for i in ${arr}', 'if probe a ${c0}', 'y = join_path ${i} x//y', 'emit ${y}', 'end', 'end', 'emit Z'], vars={'c0': 'true'}, array=['p', 'q'], expected_trace='ap/x/yaq/x/yZ'))
        cases.append(dict(kind='c04_l2', script=pre + ['while probe a ${w}', 'y = join_path u//v w', 'emit ${y}', 'w = set false', 'end', 'emit Z'], vars={'w': 'true'}, array=[], expected_trace='au/v/waZ', timeout=10))
    return cases


def replayer(v):
    """run the program natively: every block keyword gets a trivially true/empty header and each line records itself"""
    if v.get('kind') == 'lemma':
        n = 0
        import subprocess
        for case in ifelse_panel():
            try: got = replayer(case)
            except subprocess.TimeoutExpired: got = (True, 'the native run does not finish within the time limit (the reference run has %d steps)' % len(case['expected_trace']))
            n += 1
            if got[0]: v['native'] = case.get('native'); v['case'] = {k: x for k, x in case.items() if k != 'native'}; return (True, 'chain %r with %r: %s' % (' | '.join(case['script']), case['vars'], got[1]))
        return (False, '%d if / elseif / else chains, while and for loops run as the abstract machine natively' % n)
    if v.get('kind') == 'c04_l2':
        script = 'arr = array %s\n' % ' '.join(v['array']) + '\n'.join(v['script'])
        out = H.replay(dict(mode='scripted_sdk', script=script, vars=v['vars'], recorders=['emit'], recorder_output='', probes=['probe']), timeout=v.get('timeout', 60)); v['native'] = out
        if out.get('panic'): return (True, 'native panic')
        if not out.get('ok'): return (True, 'native run failed: %r' % (out.get('error'),))
        trace = ''.join((l['arguments'][0] if l['command'] == 'probe' else ''.join(l['arguments'])) for l in out.get('log', []))
        return (trace != v['expected_trace'], 'native trace %r, tree-walking interpreter %r' % (trace, v['expected_trace']))
    if v.get('kind') != 'c04_l1': return (None, 'no replayer')
    prog = v['program']; lines = []
    mark = 0
    heads = {'if': ' true', 'elseif': ' true', 'else_if': ' true', 'while': ' false', 'for': ' i in ${empty}', 'function': ' f%d', 'fn': ' f%d'}
    for i, c in enumerate(prog):
        base = c.split('::')[-1].lower()
        hd = ''
        if c in ('if', 'elseif', 'else_if') or c.endswith('::If') or c.endswith('::ElseIf'): hd = ' false' if i else ' true'
        elif c == 'while' or c.endswith('::While'): hd = ' false'
        elif c == 'for' or c.endswith('::ForIn'): hd = ' i in ${empty}'
        elif c in ('function', 'fn') or c.endswith('::Function'): hd = ' f%d' % i
        if c == 'x': lines.append('t%d = set 1' % i)
        else: lines.append(c + hd)
    lines.append('after = set done')
    script = 'empty = array\n' + '\n'.join(lines)
    out = H.replay(dict(mode='sdk', script=script)); v['native'] = out; v['script'] = script
    if out.get('panic'): return (True, 'native panic')
    # the block at line 0 must be skipped / entered consistently and execution must reach the line after the expected end
    if not out.get('ok'): return (True, 'native run failed: %r' % (out.get('error'),))
    return ('after' not in out.get('vars', {}), 'native run reached the end: %r' % ('after' in out.get('vars', {})))


def main(tier, seed):
    chk = H.Check(PID, tier, seed)
    chk.replayer = replayer
    n, D = (9, 3) if tier == 'quick' else (12, 3)
    for own in (IF, WHILE, FOR): chk.job(job_boundaries, 'L1:%s' % KNAMES[own], own=own, n=n, D=D)
    nprog = 144 if tier == 'quick' else 600
    seeds = [seed * 100000 + i for i in range(nprog)]
    chk.job(job_ifelse_steps, 'step/if, elseif, else')
    chk.job(job_while_steps, 'step/while, end_while')
    chk.job(job_forin_steps, 'step/for, end_for')
    for gi in range(12): chk.job(job_runs, 'L2:programs/%d' % gi, seeds=seeds[gi::12], depth=2 if tier == 'quick' else 3, size=7 if tier == 'quick' else 10)
    # (job_runs(symbolic_control=True) exists for experiments: condition variables and array length as solver variables with the runner loop
    #  explored per script line; nested for-in loops over an array of symbolic length take minutes per program, so it is not registered)
    chk.bounds = dict(layer1='opener at line 0 followed by <= %d symbolic lines, nesting <= %d, every alias / full-name spelling of every block keyword' % (n - 1, D),
                      layer2='%d generated well-nested programs (if/elseif/else, while, for-in, emit, set), each run for every assignment of its condition variables and array length; array items symbolic' % nprog)
    chk.assumptions = ['layer 1: block boundary discovery (find_commands + create_*_meta_info_for_line) on fully symbolic program structure, well-nestedness assumed by a symbolic stack recogniser',
                       'layer 2: whole runs through the real runner and the real flow-control commands (registry built by executing flowcontrol::load) against a tree-walking interpreter; the programs are '
                       'generated (seeded) and the control-flow dimension (condition values, array length) is enumerated exhaustively per program - only the data dimension is decided by the solver',
                       'conditions are variable values true/false (other truthiness spellings and command conditions are C06/C09); while loops run at most 2 iterations; keyword spellings are chosen per site from the real name()/aliases()',
                       'emit is a recording harness command, set is the real command']
    results = chk.run()
    return chk.finish(results, 'every obligation is a solver query over all well-nested programs and keyword spellings within the bounds')


# ====================================================================== layer 2: whole runs of structured programs
from mirsym.models import map_lookup as _lookup, map_insert as _insert, str_concat as _concat
from .c03 import choose as _choose
from .c06 import truthy as _truthy
from .c11 import hook_put_handle as _put_handle
import random as _random

CRES = 'types::command::CommandResult'
COND_VALUES = ['true', 'false']
ITEMS = 'pq'


def gen_program(rnd, depth, budget):
    """random well-nested block; returns a list of statements (see render / interp)"""
    out = []
    n = rnd.randint(1, 3)
    for _ in range(n):
        if budget[0] <= 0: break
        k = rnd.choice(['emit', 'emit', 'if', 'while', 'for', 'set'] if depth > 0 else ['emit', 'set'])
        budget[0] -= 1
        if k == 'emit':
            out.append(('emit', [rnd.choice([chr(97 + budget[1] % 20), ('var', 'i'), ('var', 's')])])); budget[1] += 1
        elif k == 'set':
            out.append(('set', 's', rnd.choice(['1', ('var', 'i'), ('var', 'c1')])))
        elif k == 'if':
            nb = rnd.randint(1, 3); branches = []
            for b in range(nb):
                cv = ('var', 'c%d' % rnd.randint(1, 3))
                if rnd.random() < 0.4: cv = ('probe', chr(65 + budget[1] % 26), cv[1]); budget[1] += 1
                branches.append((cv, gen_program(rnd, depth - 1, budget)))
            els = gen_program(rnd, depth - 1, budget) if rnd.random() < 0.6 else None
            out.append(('if', branches, els))
        elif k == 'while':
            w = 'w%d' % budget[1]; budget[1] += 1
            body = gen_program(rnd, depth - 1, budget) + [('set', w, ('var', w + 'n')), ('set', w + 'n', 'false')]
            out.append(('while', w, body))
        else:
            out.append(('for', 'i', 'arr', gen_program(rnd, depth - 1, budget)))
    return out


def render(prog, sp, rnd, lines=None):
    lines = [] if lines is None else lines
    def a(x):
        if isinstance(x, tuple) and x[0] == 'probe': return 'probe %s ${%s}' % (x[1], x[2])
        return '${%s}' % x[1] if isinstance(x, tuple) else x
    for st in prog:
        if st[0] == 'emit': lines.append('emit ' + ' '.join(a(x) for x in st[1]))
        elif st[0] == 'set': lines.append('%s = set %s' % (st[1], a(st[2])))
        elif st[0] == 'if':
            for bi, (c, blk) in enumerate(st[1]):
                lines.append('%s %s' % (rnd.choice(sp[IF] if bi == 0 else sp[ELSEIF]), a(c))); render(blk, sp, rnd, lines)
            if st[2] is not None:
                lines.append(rnd.choice(sp[ELSE])); render(st[2], sp, rnd, lines)
            lines.append(rnd.choice(sp[ENDIF] + sp[END]))
        elif st[0] == 'while':
            lines.append('%s ${%s}' % (rnd.choice(sp[WHILE]), st[1])); render(st[2], sp, rnd, lines); lines.append(rnd.choice(sp[ENDWHILE] + sp[END]))
        elif st[0] == 'for':
            lines.append('%s %s in ${%s}' % (rnd.choice(sp[FOR]), st[1], st[2])); render(st[3], sp, rnd, lines); lines.append(rnd.choice(sp[ENDFOR] + sp[END]))
    return lines


def interp(prog, store, g, arr):
    """tree-walking interpreter over a symbolic store: var -> (defined, S). Returns the store after the block under guard g."""
    def val(x):
        if isinstance(x, tuple):
            d, v = store.get(x[1], (False, S(0, [])))
            return merge(d, v, S(0, []))
        return mk_str(x)
    def assign(name, v, cond):
        d0, v0 = store.get(name, (False, S(0, [])))
        store[name] = (simp(zor(d0, cond)), merge(cond, v, v0))
    for st in prog:
        if st[0] == 'emit':
            add = S(0, [])
            for x in st[1]: add = _concat(add, val(x))
            assign('trace', _concat(store['trace'][1], add), g)
        elif st[0] == 'set':
            assign(st[1], val(st[2]), g)
        elif st[0] == 'if':
            taken = False
            for c, blk in st[1]:
                if c[0] == 'probe':
                    # a command used as condition runs (and is observed) exactly when its branch is reached
                    assign('trace', _concat(store['trace'][1], mk_str(c[1])), simp(zand(g, znot(taken))))
                    cv = _truthy(val(('var', c[2])))
                else: cv = _truthy(val(c))
                here = simp(zand(g, znot(taken), cv))
                interp(blk, store, here, arr); taken = zor(taken, cv)
            if st[2] is not None: interp(st[2], store, simp(zand(g, znot(taken))), arr)
        elif st[0] == 'while':
            gg = g
            for _ in range(3):
                cv = _truthy(val(('var', st[1])))
                gg = simp(zand(gg, cv))
                if gg is False: break
                interp(st[2], store, gg, arr)
        elif st[0] == 'for':
            alen, items = arr
            for k in range(len(items)):
                gk = simp(zand(g, k < alen))
                if gk is False: break
                assign(st[1], items[k], gk)
                interp(st[3], store, gk, arr)
    return store


def job_runs(ctx, jr, seeds, depth, size, symbolic_control=False):
    """whole runs: per generated program every assignment of the condition variables and the array length is executed with
    concrete control flow (the program counter is concretised, DESIGN.md 2.2); the array items stay symbolic"""
    import itertools
    sp = spellings(ctx)
    jr.bounds = dict(programs=len(seeds), nesting=depth, statements='<= %d' % size, condition_values=COND_VALUES, array='0..2 symbolic items from %r' % ITEMS, while_iterations='<= 2',
                     control='exhaustive over the condition variables and the array length of each program')
    vs = ctx.types.enums['types::runtime::StateValue']; STR = vs.index('String'); LIST = vs.index('List'); SUB = vs.index('SubState')
    for sd in seeds:
        rnd = _random.Random(sd)
        prog = gen_program(rnd, depth, [size, 0])
        lines = render(prog, sp, rnd)
        used = sorted({x[1] for s_ in _walk(prog) for x in _args_of(s_) if isinstance(x, tuple)})
        cnames = [n for n in ('c1', 'c2', 'c3') if n in used]
        wnames = sorted({s_[1] for s_ in _walk(prog) if s_[0] == 'while'})
        has_for = any(s_[0] == 'for' for s_ in _walk(prog))
        dims = [COND_VALUES] * (len(cnames) + 2 * len(wnames)) + [[0, 1, 2] if has_for else [0]]
        names = cnames + [w for w in wnames] + [w + 'n' for w in wnames]
        jr.samples.append(' | '.join(lines))
        if symbolic_control: dims = [[None]]
        for assign in itertools.product(*dims):
            vals = dict(zip(names, assign[:-1])); alen = assign[-1]
            e = ctx.engine(unwind=1000, max_rec=8); e.int_digits = 2
            if symbolic_control:
                # the condition variables and the array length are solver variables too: the runner's fetch / execute loop is explored per
                # script line (states that reach the same line merge), the reference interpreter carries the same guards
                e.split_loops['runner::run_instructions'] = 'line'; e.split_loops['utils::eval::eval_instructions'] = 'line'; e.split_by_steps.add('runner::run_instructions')
                vidx = {n_: e.fresh_int('cond.' + n_, 0, len(COND_VALUES) - 1) for n_ in names}
                vals = {n_: _choose(vidx[n_], COND_VALUES) for n_ in names}
                alen = e.fresh_int('array.len', 0, 2) if has_for else 0
            e.hooks['utils::state::put_handle'] = _put_handle
            e.hooks['std::sync::atomic::Atomic::<bool>::load'] = lambda eng, st1, a, c: False
            t0 = time.time()
            st = State(True, {})

            def h_emit(eng, st1, a):
                c = a[1]; vars_p = c.f[2]; mv = eng.deref(st1, vars_p)
                f, tr, _ = _lookup(eng, st1, mv, mk_str('trace'))
                add = S(0, [])
                for i, x in enumerate(c.f[0].it): add = merge(simp(i < c.f[0].len), _concat(add, x), add)
                m2, _, _ = _insert(eng, st1, mv, mk_str('trace'), _concat(tr if f is not False else S(0, []), add))
                eng.store(st1, vars_p, m2)
                return E(CRES, 0, {0: [none()]})
            def h_probe(eng, st1, a):
                c = a[1]; vars_p = c.f[2]; mv = eng.deref(st1, vars_p)
                f, tr, _ = _lookup(eng, st1, mv, mk_str('trace'))
                m2, _, _ = _insert(eng, st1, mv, mk_str('trace'), _concat(tr if f is not False else S(0, []), c.f[0].it[0]))
                eng.store(st1, vars_p, m2)
                return E(CRES, 0, {0: [some(c.f[0].it[1]) if len(c.f[0].it) > 1 else none()]})
            e.dyn_impls[('harness::Emit', 'run')] = h_emit
            e.dyn_impls[('harness::Emit', 'clone_and_box')] = lambda eng, st1, a: eng.alloc(st1, a[0])
            e.dyn_impls[('harness::Probe', 'run')] = h_probe
            e.dyn_impls[('harness::Probe', 'clone_and_box')] = lambda eng, st1, a: eng.alloc(st1, a[0])
            st.m[(0, 'cmds')] = T([M([(True, mk_str('emit'), e.alloc(st, T([], 'harness::Emit'))), (True, mk_str('probe'), e.alloc(st, T([], 'harness::Probe'))),
                                      (True, mk_str('set'), e.alloc(st, T([mk_str('std')], 'sdk::std::var::set::CommandImpl')))]), M([])], 'types::command::Commands')
            e.run_call('sdk::std::flowcontrol::load', st, [P(0, 'cmds'), mk_str('std')], 'sdk')
            commands = st.m[(0, 'cmds')]
            aitems = [S(1, [e.fresh_int('arr.%d' % k, ord('p'), ord('q'))]) for k in range(alen if not symbolic_control else 2)]
            lst = E('types::runtime::StateValue', LIST, {LIST: [V(alen, [E('types::runtime::StateValue', STR, {STR: [x]}) for x in aitems])]})
            state = M([(True, mk_str('handles'), E('types::runtime::StateValue', SUB, {SUB: [M([(True, mk_str('handle:arr'), lst)])]}))])
            init = {'trace': S(0, []), 'arr': mk_str('handle:arr')}
            for n_, v_ in vals.items(): init[n_] = mk_str(v_) if isinstance(v_, str) else v_
            variables = M([(True, mk_str(n_), v_) for n_, v_ in init.items()])
            instrs = []
            for i, l in enumerate(lines):
                toks = l.split(); out = None
                if len(toks) >= 2 and toks[1] == '=': out = toks[0]; toks = toks[2:]
                si = T([none(), some(mk_str(out)) if out else none(), some(mk_str(toks[0])), some(V(len(toks) - 1, [mk_str(t) for t in toks[1:]])) if len(toks) > 1 else none()], 'types::instruction::ScriptInstruction')
                instrs.append(T([meta_new(i + 1), E('types::instruction::InstructionType', 2, {2: [si]})], 'types::instruction::Instruction'))
            context = T([variables, state, commands], 'types::runtime::Context')
            env = some(T([Opaque('out'), Opaque('err'), e.alloc(st, False)], 'types::env::Env'))
            rs, rv = e.run('core', 'runner::run', [V(len(instrs), instrs), context, env], st)
            jr.symex_time += time.time() - t0
            if rs is None:
                e.obligations.append(Obligation(True, False, 'C04 run(seed %d): the structured program never returns' % sd, 'assert', 'oracle'))
                rs = State(True, {}); rv = E('std::result::Result', 1, {})
            store = {n_: (True, v_) for n_, v_ in init.items()}
            interp(prog, store, True, (alen, aitems))
            checks = [('the structured program runs to completion', zeq(rv.d, 0))]
            if 0 in rv.p:
                fin = rv.p[0][0].f[0]
                for name in ['trace', 's'] + wnames:
                    if name not in store: continue
                    f, v, _ = _lookup(e, rs, fin, mk_str(name))
                    d0, v0 = store[name]
                    checks.append(('variable %s defined as by the tree-walking interpreter' % name, zimp(zeq(rv.d, 0), zeq(f, d0))))
                    if f is not False: checks.append(('final %s equals the tree-walking interpreter (%s)' % (name, 'trace of executed commands with their arguments' if name == 'trace' else 'value'),
                                                      zimp(zand(zeq(rv.d, 0), f, d0), str_eq(v, v0))))
            for msg, c in checks: e.obligations.append(Obligation(rs.g, c, 'C04 run(seed %d): %s' % (sd, msg), 'assert', 'oracle'))

            def extract(m, o=None):
                return dict(kind='c04_l2', script=lines, vars={n_: (v_ if isinstance(v_, str) else solve.model_str(m, v_)) for n_, v_ in vals.items()},
                            array=[solve.model_str(m, x) for x in aitems][:solve.model_int(m, alen) if is_sym(alen) else alen], expected_trace=solve.model_str(m, store['trace'][1]))
            res = discharge_known(e, jr, PID, {}, extract)
            H.finish_job(jr, e, res)
            if jr.violations: break


def _args_of(s_):
    if s_[0] == 'emit': return list(s_[1])
    if s_[0] == 'set': return [s_[2]]
    if s_[0] == 'if': return [(('var', c[2]) if c[0] == 'probe' else c) for c, b in s_[1]]
    if s_[0] == 'while': return [('var', s_[1])]
    return []


def _walk(prog):
    for s_ in prog:
        yield s_
        if s_[0] == 'if':
            for c, b in s_[1]: yield from _walk(b)
            if s_[2]: yield from _walk(s_[2])
        elif s_[0] == 'while': yield from _walk(s_[2])
        elif s_[0] == 'for': yield from _walk(s_[3])


# ---------------------------------------------------------------------- step lemmas: if / elseif / else as single steps
IFM = 'sdk::std::flowcontrol::ifelse'


def job_ifelse_steps(ctx, jr):
    """if, elseif and else as single steps from an arbitrary call-info stack (entries stored by the real store_call_info from symbolic
    values), with the block boundaries (get_or_create_if_meta_info_for_line: layer 1 decides them) and the condition value
    (eval_condition: C06) as arbitrary results. Abstract machine: `taken` = an earlier branch of this chain already ran;
    if: run the body iff the condition holds; elseif: iff not taken and the condition holds (not evaluated when taken); else: iff not
    taken; a branch that does not run jumps to the next branch line, or behind the end of the block."""
    from mirsym.harness import NotRecognised
    jr.bounds = dict(else_lines='0..2 per block (symbolic line numbers)', call_info_stack='0..1 arbitrary entries below the one concerned', condition='arbitrary result (true / false / error)',
                     claim='one-step lemmas; a chain of any length is their iteration (DESIGN.md 8.20); block boundaries come from layer 1')
    CONT, GOTO, ERR = 0, 1, 2

    def setup(e, below, with_top):
        st = State(True, {}); st.m[(0, 'state')] = M([])
        L0 = e.fresh_int('M.start', 0, 40); k = e.fresh_int('M.k', 0, 2); e1 = e.fresh_int('M.e1', 0, 50); e2 = e.fresh_int('M.e2', 0, 60); end = e.fresh_int('M.end', 0, 70)
        e.assume(z3.And(L0 < e1, e1 < e2, e2 < end))
        Mv = T([L0, end, V(k, [e1, e2])], IFM + '::IfElseMetaInfo')
        entries = []
        def mk_entry(tag, current=None, meta=None, idx=None):
            ci = dict(current=current if current is not None else e.fresh_int(tag + '.current', 0, 70), passed=e.fresh_bool(tag + '.passed'),
                      idx=idx if idx is not None else e.fresh_int(tag + '.idx', 0, 1), meta=meta if meta is not None else T([e.fresh_int(tag + '.ms', 0, 40), e.fresh_int(tag + '.me', 41, 70), V(0, [])], IFM + '::IfElseMetaInfo'))
            st.m[(0, 'ci')] = T([ci['current'], ci['passed'], ci['idx'], ci['meta'], S(0, [])], IFM + '::CallInfo')
            e.run_call(IFM + '::store_call_info', st, [P(0, 'ci'), P(0, 'state')], 'sdk')
            return ci
        for b_ in range(below): entries.append(mk_entry('below%d' % b_))
        top = None
        if with_top:
            i = e.fresh_int('top.idx', 0, 1); e.assume(i < k)
            top = mk_entry('top', current=zite(zeq(i, 0), e1, e2), meta=Mv, idx=i)
        st.m[(0, 'vars')] = M([]); st.m[(0, 'cmds')] = T([M([]), M([])], 'types::command::Commands'); st.m[(0, 'env')] = T([Opaque('out'), Opaque('err'), e.alloc(st, False)], 'types::env::Env')
        return st, (L0, k, e1, e2, end, Mv), entries, top

    def pop_for(e, st, line): return e.run_call(IFM + '::pop_call_info_for_line', st, [line, P(0, 'state')], 'sdk')

    def entry_is(r, current, passed, Mv, idx=None):
        if 1 not in r.p: return False
        c = r.p[1][0]
        cs = [zeq(r.d, 1), zeq(c.f[0], current), zeq(c.f[1], passed), deep_eq(c.f[3], Mv)]
        if idx is not None: cs.append(zeq(c.f[2], idx))
        return zand(*cs)

    def goto_is(rv, line): return zand(zeq(rv.d, GOTO), zeq(rv.p[GOTO][1].d, 1), zeq(rv.p[GOTO][1].p[1][0], line)) if GOTO in rv.p else False
    for cmd in ('if', 'elseif', 'else'):
        for below in (0, 1):
            e = ctx.engine(unwind=8, max_rec=6); e.int_digits = 2; t0 = time.time()
            st, (L0, k, e1, e2, end, Mv), entries, top = setup(e, below, cmd != 'if')
            ck = e.fresh_int('condition', 0, 2)          # 0 false, 1 true, 2 error
            mk = e.fresh_bool('meta.err')
            calls = {'cond': [], 'meta': []}
            def h_meta(eng, st1, a, callee):
                calls['meta'].append((st1.g, a[0])); return E('std::result::Result', zite(mk, 1, 0), {0: [Mv], 1: [mk_str('no end')]})
            def h_cond(eng, st1, a, callee):
                calls['cond'].append(st1.g); return E('std::result::Result', zite(zeq(ck, 2), 1, 0), {0: [zeq(ck, 1)], 1: [mk_str('bad condition')]})
            e.hooks[IFM + '::get_or_create_if_meta_info_for_line'] = h_meta; e.hooks['utils::condition::eval_condition'] = h_cond
            ty = IFM + {'if': '::IfCommand', 'elseif': '::ElseIfCommand', 'else': '::ElseCommand'}[cmd]
            f = e.find_method(ty, 'Command', 'run', 'sdk')
            if f is None: raise NotRecognised('no run impl for ' + ty)
            line = L0 if cmd == 'if' else top['current']
            argv = V(0 if cmd == 'else' else 1, [mk_str('c')])
            ctxv = T([argv, P(0, 'state'), P(0, 'vars'), none(), PV(V(0, [])), P(0, 'cmds'), line, P(0, 'env')], 'types::command::CommandInvocationContext')
            rs, rv = e.call_fn(f, st, [PV(T([mk_str('std::flowcontrol')], ty)), ctxv])
            if rs is None: raise Abort('%s never returns' % cmd)
            obs = []
            taken = False if cmd == 'if' else top['passed']
            idx = 0 if cmd == 'if' else top['idx']
            # next branch line after this one (if any)
            nxt_i = 0 if cmd == 'if' else idx + 1
            has_next = nxt_i < k if cmd == 'if' else (idx + 1 < k)
            next_line = (e1 if cmd == 'if' else e2)          # idx 0 -> next is e2; for `if` the first branch line is e1
            cond_true = zeq(ck, 1); cond_false = zeq(ck, 0)
            if cmd == 'if':
                for g_, ln in calls['meta']: obs.append((g_, zeq(ln, L0), 'the block boundaries are looked up for the line of the if'))
                obs.append((zand(rs.g, mk), zor(zeq(rv.d, ERR), zeq(rv.d, 3)), 'a block without end is an error or a crash, never a silent run'))
                ok = znot(mk)
            else: ok = True
            runs = zand(ok, znot(taken), cond_true) if cmd != 'else' else zand(ok, znot(taken))
            skips = zand(ok, zor(taken, cond_false)) if cmd != 'else' else zand(ok, taken)
            obs.append((zand(rs.g, runs), zeq(rv.d, CONT), 'the branch runs: control falls into its body'))
            if cmd != 'else':
                obs.append((zand(rs.g, ok, znot(taken), zeq(ck, 2)), zeq(rv.d, ERR), 'an invalid condition is the error result'))
                for g_ in calls['cond']: obs.append((g_, znot(taken), 'the condition is not evaluated once an earlier branch ran'))
                obs.append((zand(ok, znot(taken)), zor(*calls['cond']) if calls['cond'] else False, 'otherwise the condition is evaluated'))
            where = zite(zand(znot(taken), has_next), next_line, end + 1) if cmd != 'else' else end + 1
            obs.append((zand(rs.g, skips), goto_is(rv, where), 'the branch does not run: jump to the next branch line, or behind the end of the block (always behind the end once a branch ran)'))
            # the bookkeeping that later branch lines rely on
            if cmd != 'else':
                r_next = pop_for(e, rs, next_line)
                obs.append((zand(rs.g, runs, has_next), entry_is(r_next, next_line, True, Mv), 'after a branch ran the next branch line finds "taken"'))
                obs.append((zand(rs.g, ok, znot(taken), cond_false, has_next), entry_is(r_next, next_line, False, Mv, nxt_i), 'after a false condition the next branch line finds "not taken" and its own position'))
            for g, cnd, msg in obs: e.obligations.append(Obligation(g, cnd, 'C04 %s lemma (%d below): %s' % (cmd, below, msg), 'assert', 'oracle'))
            jr.symex_time += time.time() - t0
            res = discharge_known(e, jr, PID, {}, lambda m, o=None, cmd=cmd: dict(kind='lemma', level='ifelse', step=cmd))
            witness(jr, e, '%s lemma: the branch is skipped because an earlier one ran' % cmd, zand(rs.g, taken) if cmd != 'if' else zand(rs.g, cond_false, k >= 1), lambda m, o=None: dict(kind='lemma', level='ifelse'))
            H.finish_job(jr, e, res)


WHM = 'sdk::std::flowcontrol::while_mod'


def job_while_steps(ctx, jr):
    """while and end_while as single steps from an arbitrary call-info stack, block boundaries and condition value arbitrary:
    while: the body runs iff the condition holds, otherwise control goes behind the end of the block; end_while: back to the while line
    (where the condition is evaluated again). A loop of any number of passes is the iteration of these two steps."""
    from mirsym.harness import NotRecognised
    jr.bounds = dict(call_info_stack='0..1 arbitrary entries below', condition='arbitrary result', claim='one-step lemmas (DESIGN.md 8.20)')
    CONT, GOTO, ERR = 0, 1, 2

    def goto_is(rv, line): return zand(zeq(rv.d, GOTO), zeq(rv.p[GOTO][1].d, 1), zeq(rv.p[GOTO][1].p[1][0], line)) if GOTO in rv.p else False
    for cmd in ('while', 'end_while', 'end_while without loop'):
        for below in (0, 1):
            e = ctx.engine(unwind=8, max_rec=6); e.int_digits = 2; t0 = time.time()
            st = State(True, {}); st.m[(0, 'state')] = M([])
            ws = e.fresh_int('W.start', 0, 40); we = e.fresh_int('W.end', 0, 60); e.assume(ws < we)
            Wv = T([ws, we], WHM + '::WhileMetaInfo')
            ci_cur = e.fresh_int('context.current', 0, len(CONTEXTS) - 1); cur_ctx = _choose(ci_cur, CONTEXTS)
            e.run_call('types::scope::set_line_context_name', st, [cur_ctx, P(0, 'state')], 'sdk')
            def store(meta, name=None):
                st.m[(0, 'ci')] = T([meta, cur_ctx if name is None else name], WHM + '::CallInfo')
                e.run_call(WHM + '::store_call_info', st, [P(0, 'ci'), P(0, 'state')], 'sdk')
            others = []
            for b_ in range(below):
                os_ = e.fresh_int('below.start', 0, 40); oe = e.fresh_int('below.end', 0, 60)
                ci_b = e.fresh_int('context.below', 0, len(CONTEXTS) - 1)       # an entry of another line context may use the same line numbers
                e.assume(z3.And(os_ < oe, z3.Or(ci_b != ci_cur, oe != we)))
                others.append((os_, oe)); store(T([os_, oe], WHM + '::WhileMetaInfo'), _choose(ci_b, CONTEXTS))
            if cmd == 'end_while': store(Wv)
            st.m[(0, 'vars')] = M([]); st.m[(0, 'cmds')] = T([M([]), M([])], 'types::command::Commands'); st.m[(0, 'env')] = T([Opaque('out'), Opaque('err'), e.alloc(st, False)], 'types::env::Env')
            ck = e.fresh_int('condition', 0, 2); mk = e.fresh_bool('meta.err'); calls = []
            e.hooks[WHM + '::get_or_create_while_meta_info_for_line'] = lambda eng, st1, a, callee: (calls.append((st1.g, a[0])), E('std::result::Result', zite(mk, 1, 0), {0: [Wv], 1: [mk_str('no end')]}))[1]
            e.hooks['utils::condition::eval_condition'] = lambda eng, st1, a, callee: E('std::result::Result', zite(zeq(ck, 2), 1, 0), {0: [zeq(ck, 1)], 1: [mk_str('bad condition')]})
            ty = WHM + ('::WhileCommand' if cmd == 'while' else '::EndWhileCommand')
            f = e.find_method(ty, 'Command', 'run', 'sdk')
            if f is None: raise NotRecognised('no run impl for ' + ty)
            line = ws if cmd == 'while' else we
            ctxv = T([V(1 if cmd == 'while' else 0, [mk_str('c')]), P(0, 'state'), P(0, 'vars'), none(), PV(V(0, [])), P(0, 'cmds'), line, P(0, 'env')], 'types::command::CommandInvocationContext')
            rs, rv = e.call_fn(f, st, [PV(T([mk_str('std::flowcontrol')], ty)), ctxv])
            if rs is None: raise Abort('%s never returns' % cmd)
            obs = []
            if cmd == 'while':
                for g_, ln in calls: obs.append((g_, zeq(ln, ws), 'the block boundaries are looked up for the line of the while'))
                obs.append((zand(rs.g, mk), zor(zeq(rv.d, ERR), zeq(rv.d, 3)), 'a loop without end is an error or a crash, never a silent run'))
                obs.append((zand(rs.g, znot(mk), zeq(ck, 1)), zeq(rv.d, CONT), 'the condition holds: control falls into the body'))
                obs.append((zand(rs.g, znot(mk), zeq(ck, 0)), goto_is(rv, we + 1), 'the condition fails: control goes behind the end of the loop'))
                obs.append((zand(rs.g, znot(mk), zeq(ck, 2)), zeq(rv.d, ERR), 'an invalid condition is the error result'))
                r_ = e.run_call(WHM + '::pop_call_info_for_line', rs, [we, P(0, 'state')], 'sdk')
                obs.append((zand(rs.g, znot(mk), zeq(ck, 1)), zand(zeq(r_.d, 1), deep_eq(r_.p[1][0].f[0], Wv)) if 1 in r_.p else False, 'the end line of the loop will find its way back'))
            elif cmd == 'end_while':
                obs.append((rs.g, goto_is(rv, ws), 'the end of the body goes back to the while line, where the condition is evaluated again'))
                r_ = e.run_call(WHM + '::pop_call_info_for_line', rs, [we, P(0, 'state')], 'sdk')
                obs.append((rs.g, zand(zeq(r_.d, 1), deep_eq(r_.p[1][0].f[0], Wv)) if 1 in r_.p else False, 'the loop stays registered for its next pass'))
            else:
                obs.append((rs.g, zeq(rv.d, ERR), 'an end_while that closes no running loop is an error'))
            for g, cnd, msg in obs: e.obligations.append(Obligation(g, cnd, 'C04 %s lemma (%d below): %s' % (cmd, below, msg), 'assert', 'oracle'))
            jr.symex_time += time.time() - t0
            res = discharge_known(e, jr, PID, {}, lambda m, o=None, cmd=cmd: dict(kind='lemma', level='while', step=cmd))
            H.finish_job(jr, e, res)


FIM = 'sdk::std::flowcontrol::forin'
CONTEXTS = ['', 'scope::concat']


def job_forin_steps(ctx, jr):
    """for-in and end_for as single steps: from an arbitrary call-info stack, an arbitrary array of 0..3 symbolic elements and an
    arbitrary pass counter k of this loop (or no entry for this loop: the first pass): element k exists -> the loop variable is bound
    to it, the body runs and the counter becomes k+1; otherwise control goes behind the end of the loop and the loop's entry is gone
    (the next execution of the for line starts at element 0). end_for goes back to the for line and keeps the counter."""
    from mirsym.harness import NotRecognised
    from mirsym.models import map_lookup
    jr.bounds = dict(array='0..3 symbolic elements', pass_counter='0..3 or no entry', call_info_stack='0..1 foreign entries below', claim='one-step lemmas (DESIGN.md 8.20)')
    CONT, GOTO, ERR = 0, 1, 2
    SVT = 'types::runtime::StateValue'; SV = ctx.types.enums[SVT]; STRK, LIST, SUB = SV.index('String'), SV.index('List'), SV.index('SubState')

    def goto_is(rv, line): return zand(zeq(rv.d, GOTO), zeq(rv.p[GOTO][1].d, 1), zeq(rv.p[GOTO][1].p[1][0], line)) if GOTO in rv.p else False
    for cmd in ('for', 'end_for'):
        for below in (0, 1):
            e = ctx.engine(unwind=8, max_rec=6); e.int_digits = 2; t0 = time.time()
            n = e.fresh_int('array.len', 0, 3); items = [H.sym_str(e, 'item%d' % i, 2) for i in range(3)]
            arr = E(SVT, LIST, {LIST: [V(n, [E(SVT, STRK, {STRK: [x]}) for x in items])]})
            st = State(True, {}); st.m[(0, 'state')] = M([(True, mk_str('handles'), E(SVT, SUB, {SUB: [M([(True, mk_str('handle:arr'), arr)])]}))])
            fs = e.fresh_int('F.start', 0, 40); fe = e.fresh_int('F.end', 0, 60); e.assume(fs < fe)
            Fv = T([fs, fe], FIM + '::ForInMetaInfo')
            # the line context: '' in the main script, the scope name inside the body of a script-implemented command (whose line numbers are
            # its own: an entry of another context may sit on the very same line numbers as this loop)
            ci_cur = e.fresh_int('context.current', 0, len(CONTEXTS) - 1); cur_ctx = _choose(ci_cur, CONTEXTS)
            e.run_call('types::scope::set_line_context_name', st, [cur_ctx, P(0, 'state')], 'sdk')
            def store(it, meta, name=None):
                st.m[(0, 'ci')] = T([it, meta, cur_ctx if name is None else name], FIM + '::CallInfo')
                e.run_call(FIM + '::store_call_info', st, [P(0, 'ci'), P(0, 'state')], 'sdk')
            for b_ in range(below):
                os_ = e.fresh_int('below.start', 0, 40); oe = e.fresh_int('below.end', 0, 60)
                ci_b = e.fresh_int('context.below', 0, len(CONTEXTS) - 1)
                e.assume(z3.And(os_ < oe, z3.Or(ci_b != ci_cur, z3.And(os_ != fs, os_ != fe, oe != fs, oe != fe))))
                store(e.fresh_int('below.iteration', 0, 3), T([os_, oe], FIM + '::ForInMetaInfo'), _choose(ci_b, CONTEXTS))
            running = e.fresh_bool('loop.running') if cmd == 'for' else True
            k = e.fresh_int('k', 0, 3)
            # the entry of this loop is on top only when the loop is running; build both stacks and merge by running the store under a guard
            if cmd == 'end_for': store(k, Fv)
            else:
                st_run = st.copy(); st_keep = st
                st = st_run; store(k, Fv)
                # merge: state with / without this loop's entry
                from mirsym.engine import merge_states
                st_run.g = running; st_keep.g = znot(running)
                st = merge_states(st_run, st_keep); st.g = True
            V0 = M([(e.fresh_bool('i.defined'), mk_str('i'), H.sym_str(e, 'i.before', 2)), (True, mk_str('x'), mk_str('keep'))])
            st.m[(0, 'vars')] = V0; st.m[(0, 'cmds')] = T([M([]), M([])], 'types::command::Commands'); st.m[(0, 'env')] = T([Opaque('out'), Opaque('err'), e.alloc(st, False)], 'types::env::Env')
            mk = e.fresh_bool('meta.err')
            e.hooks[FIM + '::get_or_create_forin_meta_info_for_line'] = lambda eng, st1, a, callee: E('std::result::Result', zite(mk, 1, 0), {0: [Fv], 1: [mk_str('no end')]})
            ty = FIM + ('::ForInCommand' if cmd == 'for' else '::EndForInCommand')
            f = e.find_method(ty, 'Command', 'run', 'sdk')
            if f is None: raise NotRecognised('no run impl for ' + ty)
            line = fs if cmd == 'for' else fe
            argv = V(3, [mk_str('i'), mk_str('in'), mk_str('handle:arr')]) if cmd == 'for' else V(0, [])
            ctxv = T([argv, P(0, 'state'), P(0, 'vars'), none(), PV(V(0, [])), P(0, 'cmds'), line, P(0, 'env')], 'types::command::CommandInvocationContext')
            rs, rv = e.call_fn(f, st, [PV(T([mk_str('std::flowcontrol')], ty)), ctxv])
            if rs is None: raise Abort('%s never returns' % cmd)
            obs = []
            if cmd == 'for':
                keff = zite(running, k, 0)
                ok = zor(running, znot(mk))
                obs.append((zand(rs.g, znot(running), mk), zor(zeq(rv.d, ERR), zeq(rv.d, 3)), 'a loop without end is an error or a crash'))
                has = zand(ok, keff < n)
                obs.append((zand(rs.g, has), zeq(rv.d, CONT), 'element k exists: the body runs'))
                pv = e.read(rs, ('mem', 0, 'vars', []))
                f_, x_, _ = map_lookup(e, rs, pv, mk_str('i')); fx, xx, _ = map_lookup(e, rs, pv, mk_str('x'))
                item_k = items[2]
                for j in (1, 0): item_k = merge(zeq(keff, j), items[j], item_k)
                obs.append((zand(rs.g, has), zand(f_, str_eq(x_, item_k) if x_ is not POISON else False, fx, str_eq(xx, mk_str('keep'))), 'the loop variable is bound to element k (pass k binds the k-th element, in order); other variables untouched'))
                obs.append((zand(rs.g, ok, znot(keff < n)), goto_is(rv, fe + 1), 'no element k: control goes behind the end of the loop'))
                r_ = e.run_call(FIM + '::pop_call_info_for_line', rs, [fs, P(0, 'state'), False], 'sdk')
                obs.append((zand(rs.g, has), zand(zeq(r_.d, 1), zeq(r_.p[1][0].f[0], keff + 1), deep_eq(r_.p[1][0].f[1], Fv)) if 1 in r_.p else False, 'the pass counter becomes k+1'))
                obs.append((zand(rs.g, ok, znot(keff < n)), zeq(r_.d, 0), 'a finished loop leaves no entry: its next execution starts at element 0'))
            else:
                obs.append((rs.g, goto_is(rv, fs), 'the end of the body goes back to the for line'))
                r_ = e.run_call(FIM + '::pop_call_info_for_line', rs, [fs, P(0, 'state'), False], 'sdk')
                obs.append((rs.g, zand(zeq(r_.d, 1), zeq(r_.p[1][0].f[0], k)) if 1 in r_.p else False, 'the pass counter is kept'))
            for g, cnd, msg in obs: e.obligations.append(Obligation(g, cnd, 'C04 %s lemma (%d below): %s' % (cmd, below, msg), 'assert', 'oracle'))
            jr.symex_time += time.time() - t0
            res = discharge_known(e, jr, PID, {}, lambda m, o=None, cmd=cmd: dict(kind='lemma', level='forin', step=cmd))
            if cmd == 'for': witness(jr, e, 'for lemma: second pass binds the second element', zand(rs.g, running, zeq(k, 1), n >= 2), lambda m, o=None: dict(kind='lemma', level='forin'))
            H.finish_job(jr, e, res)
