"""C11 - variable commands and the scope stack behave like a map and a stack of maps."""
import time, itertools, random
import z3
from mirsym import harness as H, solve
from mirsym.values import *
from mirsym.engine import State, Obligation, some, none, OPTION
from mirsym.harness import process_failed, witness, discharge_known
from mirsym.models import map_lookup, match_at, str_concat
from .common import *
from .c03 import choose, opt_choose

PID = 'C11'
NAMES = ['a', 'ab', 's::x']            # variable pool: a prefix pair and a scoped name
VALS = ['1', '2', '']
PREFIXES = ['a', 'ab', 's', 's::', 'x']
SCOPES = ['s', 'a', 'zz']
COMMANDS = {
    'set': 'sdk::std::var::set::CommandImpl', 'set_by_name': 'sdk::std::var::set_by_name::CommandImpl',
    'get_by_name': 'sdk::std::var::get_by_name::CommandImpl', 'is_defined': 'sdk::std::var::is_defined::CommandImpl',
    'get_all_var_names': 'sdk::std::var::get_all_var_names::CommandImpl', 'unset_all_vars': 'sdk::std::var::unset_all_vars::CommandImpl',
    'clear_scope': 'sdk::std::scope::clear::CommandImpl', 'scope_push_stack': 'sdk::std::scope::push_stack::CommandImpl',
    'scope_pop_stack': 'sdk::std::scope::pop_stack::CommandImpl',
}
# op kinds: (command, argument pattern, has output variable)
OPS = {
    'S': ('set', 'v', True), 'N': ('set_by_name', 'nv', False), 'U': ('set_by_name', 'n', False), 'G': ('get_by_name', 'n', True),
    'D': ('is_defined', 'n', True), 'A': ('unset_all_vars', '', False), 'P': ('unset_all_vars', 'fp', False), 'C': ('clear_scope', 's', False),
    'H': ('scope_push_stack', '', False), 'I': ('scope_push_stack', 'cn', False), 'J': ('scope_push_stack', 'cnn', False),
    'O': ('scope_pop_stack', '', True), 'Q': ('scope_pop_stack', 'cn', True), 'R': ('scope_pop_stack', 'cnn', False), 'L': ('get_all_var_names', '', False),
}


def registry(e, st):
    ents = []
    for name, ty in COMMANDS.items():
        ents.append((True, mk_str(name), e.alloc(st, T([mk_str('std')], ty))))
    return T([M(ents), M([])], 'types::command::Commands')


def hook_put_handle(e, st, a, callee):
    """put_handle with the random 20-char key replaced by an arbitrary key assumed not to be live"""
    key = str_concat(mk_str('handle:'), e.fresh_str('rnd', 2))
    # the assumption itself: the fresh key differs from every live handle
    state = e.deref(st, a[0])
    found, sub, _ = map_lookup(e, st, state, mk_str('handles'))
    if found is not False and isinstance(sub, E):
        for k, payload in sub.p.items():
            if payload and isinstance(payload[0], M):
                for p, kk, vv in payload[0].ents:
                    if p is False or not isinstance(kk, S): continue
                    e.assume(z3.Implies(z3.And(found if is_sym(found) else z3.BoolVal(bool(found)), z3.BoolVal(True) if p is True else p, zeq(sub.d, k) if is_sym(sub.d) else z3.BoolVal(sub.d == k)), z3.Not(str_eq(kk, key))))
    e.run_call('utils::state::return_handle', st, [a[0], key, a[1]], 'sdk')
    return key


class Spec:
    def __init__(s, defined, values):
        s.d = list(defined); s.v = list(values); s.stack = []
        s.loose = [False] * len(NAMES)         # names whose value the property leaves open (undefined when copied on pop)

    def set(s, ni, val, cond=True):
        for k in range(len(NAMES)):
            c = zand(cond, zeq(ni, k))
            s.d[k] = simp(zite(c, True, s.d[k])); s.v[k] = merge(c, val, s.v[k])

    def unset(s, ni, cond=True):
        for k in range(len(NAMES)): s.d[k] = simp(zite(zand(cond, zeq(ni, k)), False, s.d[k]))

    def get(s, ni):
        return sel(s.d, ni, False), sel_s(s.v, ni)


def sel_s(items, i):
    r = items[-1]
    for k in range(len(items) - 2, -1, -1): r = merge(zeq(i, k), items[k], r)
    return r


def starts(name, prefix_s):
    return simp(match_at(mk_str(name), prefix_s, 0))


def job_history(ctx, jr, seqs, depths=(None,)):
    """depths=(None,): histories from an arbitrary variable map and an empty scope stack.
    depths=(0, 1, 2): ONE operation from an arbitrary variable map and an arbitrary scope stack of that depth (step lemma); the
    stack after the operation is compared entry by entry, so that "only the top is touched" is decided as well."""
    jr.bounds = dict(names=NAMES, values=VALS, sequences=[''.join(s) for s in seqs][:40], steps=len(seqs[0]), copy_lists='0..2 names, possibly undefined or repeated')
    if depths != (None,): jr.bounds.update(initial_scope_stack='arbitrary saved maps, depth %s' % (depths,), claim='one-operation lemma from an arbitrary state; a history is its iteration (DESIGN.md 8.9)')
    SVT = 'types::runtime::StateValue'; SV_LIST, SV_ANY = ctx.types.enums[SVT].index('List'), ctx.types.enums[SVT].index('Any')
    for seq, depth in [(q_, d_) for q_ in seqs for d_ in depths]:
        e = ctx.engine(unwind=16); e.int_digits = 2
        e.hooks['utils::state::put_handle'] = hook_put_handle
        e.hooks['std::sync::atomic::Atomic::<bool>::load'] = lambda eng, st1, a, c: False
        t0 = time.time()
        st = State(True, {})
        d0 = [e.fresh_bool('def%d' % k) for k in range(len(NAMES))]; v0 = [e.fresh_int('val%d' % k, 0, len(VALS) - 1) for k in range(len(NAMES))]
        variables = M([(d0[k], mk_str(NAMES[k]), choose(v0[k], VALS)) for k in range(len(NAMES))])
        spec = Spec(d0, [choose(v0[k], VALS) for k in range(len(NAMES))])
        state0 = M([])
        if depth is not None:
            saved = []
            for lv in range(depth):
                sd = [e.fresh_bool('saved%d.def%d' % (lv, k)) for k in range(len(NAMES))]; svv = [e.fresh_int('saved%d.val%d' % (lv, k), 0, len(VALS) - 1) for k in range(len(NAMES))]
                spec.stack.append((list(sd), [choose(svv[k], VALS) for k in range(len(NAMES))], [False] * len(NAMES)))
                saved.append(E(SVT, SV_ANY, {SV_ANY: [e.alloc(st, M([(sd[k], mk_str(NAMES[k]), choose(svv[k], VALS)) for k in range(len(NAMES))]))]}))
            key_present = True if depth > 0 else e.fresh_bool('scope_stack.key_present')      # an empty stack: never pushed, or pushed and popped
            state0 = M([(key_present, mk_str('scope_stack'), E(SVT, SV_LIST, {SV_LIST: [V(depth, saved)]}))])
        spec_stack0 = list(spec.stack)
        instrs = []; desc = []; expect_out = []
        for k, op in enumerate(seq):
            cmd, pat, has_out = OPS[op]
            args = []; d = [cmd]
            ni = e.fresh_int('o%d.n' % k, 0, len(NAMES) - 1); nj = e.fresh_int('o%d.m' % k, 0, len(NAMES) - 1)
            vi = e.fresh_int('o%d.v' % k, 0, len(VALS) - 1); pi = e.fresh_int('o%d.p' % k, 0, len(PREFIXES) - 1); si = e.fresh_int('o%d.s' % k, 0, len(SCOPES) - 1)
            oi = e.fresh_int('o%d.out' % k, 0, len(NAMES)) if has_out else 0
            for ch in pat:
                if ch == 'v': args.append(choose(vi, VALS))
                elif ch == 'n': args.append(choose(ni if 'n' not in pat[:len(args)] or pat.count('n') == 1 else nj, NAMES))
                elif ch == 'f': args.append(mk_str('--prefix'))
                elif ch == 'p': args.append(choose(pi, PREFIXES))
                elif ch == 's': args.append(choose(si, SCOPES))
                elif ch == 'c': args.append(mk_str('--copy'))
            if pat == 'cnn': args = [mk_str('--copy'), choose(ni, NAMES), choose(nj, NAMES)]
            desc.append((op, ni, nj, vi, pi, si, oi))
            si_ = T([none(), opt_choose(oi, NAMES), some(mk_str(cmd)), some(V(len(args), args)) if args else none()], 'types::instruction::ScriptInstruction')
            instrs.append(T([meta_new(k + 1), E('types::instruction::InstructionType', 2, {2: [si_]})], 'types::instruction::Instruction'))
            # ---- spec transition; result = (output present, output value)
            outp, outv = False, S(0, [])
            val = choose(vi, VALS)
            if op == 'S': outp, outv = True, val
            elif op == 'N': spec.set(ni, val)
            elif op == 'U': spec.unset(ni)
            elif op == 'G': outp, outv = spec.get(ni)
            elif op == 'D':
                dd, _ = spec.get(ni); outp, outv = True, merge(dd, mk_str('true'), mk_str('false'))
            elif op == 'A': spec.d = [False] * len(NAMES)
            elif op == 'P':
                ps = choose(pi, PREFIXES)
                spec.d = [simp(zand(spec.d[q], znot(starts(NAMES[q], ps)))) for q in range(len(NAMES))]
            elif op == 'C':
                ps = str_concat(choose(si, SCOPES), mk_str('::'))
                spec.d = [simp(zand(spec.d[q], znot(starts(NAMES[q], ps)))) for q in range(len(NAMES))]
            elif op in 'HIJ':
                copy = [] if op == 'H' else [ni] if op == 'I' else [ni, nj]
                spec.stack.append((list(spec.d), list(spec.v), list(spec.loose)))
                keep = [zor(*[zeq(c, q) for c in copy]) if copy else False for q in range(len(NAMES))]
                spec.d = [simp(zand(spec.d[q], keep[q])) for q in range(len(NAMES))]
                outp, outv = True, mk_str('true')
            elif op in 'OQR':
                copy = [] if op == 'O' else [ni] if op == 'Q' else [ni, nj]
                if not spec.stack:
                    outp, outv = True, mk_str('false')          # error: reported as 'false' by the runner, nothing changes
                else:
                    sd, sv, sl = spec.stack.pop()
                    cur_d, cur_v = spec.d, spec.v
                    nd, nv, nl = [], [], []
                    for q in range(len(NAMES)):
                        inc = zor(*[zeq(c, q) for c in copy]) if copy else False
                        over = zand(inc, cur_d[q])
                        nd.append(simp(zor(over, sd[q]))); nv.append(merge(over, cur_v[q], sv[q]))
                        nl.append(simp(zor(zand(inc, znot(cur_d[q])), zand(znot(inc), sl[q]))))   # undefined when copied on pop: unconstrained
                    spec.d, spec.v, spec.loose = nd, nv, nl
                    outp, outv = True, mk_str('true')
            # the runner stores (or deletes) the output variable
            if has_out:
                for q in range(len(NAMES)):
                    c = zeq(oi, q + 1)
                    spec.d[q] = simp(zite(c, outp, spec.d[q])); spec.v[q] = merge(zand(c, outp), outv, spec.v[q])
                    spec.loose[q] = simp(zand(spec.loose[q], znot(c)))
            if op == 'L': expect_out.append((k, list(spec.d)))
        commands = registry(e, st)
        context = T([variables, state0, commands], 'types::runtime::Context')
        env = some(T([Opaque('out'), Opaque('err'), e.alloc(st, False)], 'types::env::Env'))
        rs, rv = e.run('core', 'runner::run', [V(len(instrs), instrs), context, env], st)
        jr.symex_time += time.time() - t0
        if rs is None: raise Abort('run never returns')
        checks = [('the run succeeds', zeq(rv.d, 0))]
        if 0 in rv.p and depth is not None:
            # the scope stack after the operation, entry by entry
            sf, ssub, _ = map_lookup(e, rs, rv.p[0][0].f[1], mk_str('scope_stack'))
            lst = ssub.p[SV_LIST][0] if isinstance(ssub, E) and SV_LIST in ssub.p else V(0, [])
            if spec.stack: checks.append(('the scope stack exists', zand(sf, zeq(ssub.d, SV_LIST)) if isinstance(ssub, E) else False))
            checks.append(('depth of the scope stack', zimp(sf, zeq(lst.len, len(spec.stack)))))
            for lv, (sd, sv_, sl) in enumerate(spec.stack):
                if lv >= len(lst.it): checks.append(('saved map %d exists' % lv, False)); continue
                item = lst.it[lv]
                mp = e.deref(rs, item.p[SV_ANY][0]) if isinstance(item, E) and SV_ANY in item.p else None
                if not isinstance(mp, M): checks.append(('saved map %d is a map' % lv, False)); continue
                cnt = 0
                for p_, k_, v_ in mp.ents: cnt = cnt + zite(p_, 1, 0)
                exp = 0
                for q in range(len(NAMES)):
                    f_, v_, _ = map_lookup(e, rs, mp, mk_str(NAMES[q]))
                    checks.append(('saved map %d: %s' % (lv, NAMES[q]), zimp(znot(sl[q]), zand(zeq(f_, sd[q]), zimp(sd[q], str_eq(v_, sv_[q]) if v_ is not POISON else False)))))
                    exp = exp + zite(sd[q], 1, 0)
                checks.append(('saved map %d holds nothing else' % lv, zimp(znot(zor(*sl)), zeq(cnt, exp))))
        if 0 in rv.p:
            fin = rv.p[0][0].f[0]
            for q, name in enumerate(NAMES):
                found, val, _ = map_lookup(e, rs, fin, mk_str(name))
                checks.append(('variable %s defined iff the model says so' % name, zimp(znot(spec.loose[q]), zeq(found, spec.d[q]))))
                if found is not False: checks.append(('variable %s value' % name, zimp(zand(found, spec.d[q], znot(spec.loose[q])), str_eq(val, spec.v[q]))))
            cnt = 0
            for p, k_, v_ in fin.ents: cnt = cnt + zite(p, 1, 0)
            exp = 0
            for q in range(len(NAMES)): exp = exp + zite(spec.d[q], 1, 0)
            checks.append(('no other variable exists', zimp(znot(zor(*spec.loose)), zeq(cnt, exp))))
            # get_all_var_names: the last listing equals the set of defined names
            state = rv.p[0][0].f[1]
            if expect_out:
                hf, hsub, _ = map_lookup(e, rs, state, mk_str('handles'))
                checks.append(('get_all_var_names stores a handle', hf))
        for msg, c in checks: e.obligations.append(Obligation(rs.g, c, 'C11 %s%s: %s' % (''.join(seq), '' if depth is None else ' from stack depth %d' % depth, msg), 'assert', 'oracle'))

        def extract(m, o=None):
            lines = []
            for (op, ni, nj, vi, pi, si, oi), _ in zip(desc, seq):
                cmd, pat, has_out = OPS[op]
                a = []
                if pat == 'cnn': a = ['--copy', NAMES[solve.model_int(m, ni)], NAMES[solve.model_int(m, nj)]]
                else:
                    for ch in pat:
                        a.append({'v': lambda: VALS[solve.model_int(m, vi)], 'n': lambda: NAMES[solve.model_int(m, ni)], 'f': lambda: '--prefix',
                                  'p': lambda: PREFIXES[solve.model_int(m, pi)], 's': lambda: SCOPES[solve.model_int(m, si)], 'c': lambda: '--copy'}[ch]())
                o_ = solve.model_int(m, oi) if has_out else 0
                lines.append(dict(out=NAMES[o_ - 1] if o_ else None, cmd=cmd, args=a))
            init = {NAMES[k]: VALS[solve.model_int(m, v0[k])] for k in range(len(NAMES)) if solve.model_bool(m, d0[k])}
            d_ = dict(kind='c11', ops=lines, vars=init)
            if depth:
                # the arbitrary stack is rebuilt natively by pushes from the saved maps (set_by_name / unset_all_vars / push)
                pre = []
                for lv in range(depth):
                    sd_, sv__, _ = spec_stack0[lv]
                    pre.append({NAMES[q]: solve.model_str(m, sv__[q]) for q in range(len(NAMES)) if solve.model_bool(m, sd_[q])})
                d_['stack'] = pre
            return d_
        res = discharge_known(e, jr, PID, {}, extract)
        witness(jr, e, 'sequence %s' % ''.join(seq), rs.g, extract)
        H.finish_job(jr, e, res)


# ---------------------------------------------------------------------- native replay with a python reference model
def py_model(v):
    vars_ = dict(v['vars']); stack = []; loose = set()
    for op in v['ops']:
        cmd, a, out = op['cmd'], op['args'], op['out']
        res = ('none', None)
        if cmd == 'set': res = ('val', a[0])
        elif cmd == 'set_by_name':
            if len(a) > 1: vars_[a[0]] = a[1]
            else: vars_.pop(a[0], None)
        elif cmd == 'get_by_name': res = ('val', vars_[a[0]]) if a[0] in vars_ else ('undef', None)
        elif cmd == 'is_defined': res = ('val', 'true' if a[0] in vars_ else 'false')
        elif cmd == 'unset_all_vars':
            if a: vars_ = {k: x for k, x in vars_.items() if not k.startswith(a[1])}
            else: vars_ = {}
        elif cmd == 'clear_scope': vars_ = {k: x for k, x in vars_.items() if not k.startswith(a[0] + '::')}
        elif cmd == 'scope_push_stack':
            stack.append((dict(vars_), set(loose))); vars_ = {k: x for k, x in vars_.items() if k in a[1:]}; res = ('val', 'true')
        elif cmd == 'scope_pop_stack':
            if not stack: res = ('val', 'false')
            else:
                old, ol = stack.pop(); cur = vars_; vars_ = dict(old); nl = set(ol)
                for k in a[1:]:
                    if k in cur: vars_[k] = cur[k]; nl.discard(k)
                    else: nl.add(k)
                loose = nl; res = ('val', 'true')
        if out:
            loose.discard(out)
            if res[0] == 'val': vars_[out] = res[1]
            else: vars_.pop(out, None)
    return vars_, loose


def replayer(v):
    def q(s): return '"' + s + '"'
    lines = []; pre_ops = []
    for saved in v.get('stack', []):
        pre_ops.append(dict(out=None, cmd='unset_all_vars', args=[]))
        for k_, x_ in saved.items(): pre_ops.append(dict(out=None, cmd='set_by_name', args=[k_, x_]))
        pre_ops.append(dict(out=None, cmd='scope_push_stack', args=[]))
    if v.get('stack'):
        pre_ops.append(dict(out=None, cmd='unset_all_vars', args=[]))
        for k_, x_ in v['vars'].items(): pre_ops.append(dict(out=None, cmd='set_by_name', args=[k_, x_]))
    # afterwards pop as many levels as were built: the final variables then reflect what is left at the bottom of the stack
    allops = pre_ops + v['ops'] + [dict(out=None, cmd='scope_pop_stack', args=[]) for _ in v.get('stack', [])]
    for op in allops:
        l = ((op['out'] + ' = ') if op['out'] else '') + op['cmd'] + ''.join(' ' + q(a) for a in op['args'])
        lines.append(l)
    out = H.replay(dict(mode='sdk', script='\n'.join(lines), vars={} if v.get('stack') else v['vars'])); v['native'] = out
    v = dict(v, ops=allops, vars={} if v.get('stack') else v['vars'])
    if out.get('panic'): return (True, 'native panic')
    if not out.get('ok'): return (True, 'native run failed: %r' % (out.get('error'),))
    exp, loose = py_model(v); v['spec'] = exp
    got = {k: x for k, x in out['vars'].items() if k not in loose}
    exp = {k: x for k, x in exp.items() if k not in loose}
    return (got != exp, 'native vars %r, model %r (unconstrained: %r)' % (got, exp, sorted(loose)))


def main(tier, seed):
    chk = H.Check(PID, tier, seed)
    chk.replayer = replayer
    rnd = random.Random(seed)
    stack_ops = 'HIJOQR'; var_ops = 'SNUGDAPC'
    base = [('I', 'N', 'Q'), ('J', 'U', 'R'), ('H', 'S', 'O'), ('O',), ('H', 'H', 'O', 'O'), ('I', 'J', 'Q', 'R'), ('S', 'P', 'D'), ('N', 'C', 'G'), ('A', 'N', 'L'),
            ('J', 'A', 'R', 'D'), ('I', 'N', 'O', 'O'), ('H', 'I', 'N', 'Q', 'O')]
    k = 5 if tier == 'quick' else 6
    nrand = 120 if tier == 'quick' else 600
    seqs = list(base)
    while len(seqs) < len(base) + nrand:
        s = tuple(rnd.choice(stack_ops if rnd.random() < 0.55 else var_ops) for _ in range(k))
        if s not in seqs: seqs.append(s)
    groups = [seqs[i::12] for i in range(12)]
    for gi, g in enumerate(groups):
        if g: chk.job(job_history, 'histories/%d' % gi, seqs=g)
    allops = sorted(OPS)
    for gi in range(5):
        chk.job(job_history, 'step/%s' % ''.join(allops[gi::5]), seqs=[(o,) for o in allops[gi::5]], depths=(0, 1, 2))
    chk.bounds = dict(step_lemmas='every operation kind from an arbitrary variable map and an arbitrary scope stack of depth 0, 1, 2 (saved maps symbolic); the stack afterwards compared entry by entry', names=NAMES, values=VALS, history_length='<= %d' % k, op_kind_sequences=len(seqs), per_sequence='all argument / output-variable choices and all initial maps symbolic')
    chk.assumptions = ['op kinds are case-split (12 fixed + seeded random sequences); arguments, outputs and the initial variable map are symbolic',
                       'put_handle: the random 20-character key is an arbitrary key assumed not to be live', 'unset (script-implemented) is represented by its body set_by_name <name>',
                       'HashMap iteration in slot order']
    results = chk.run()
    return chk.finish(results, 'every obligation is a solver query over all argument choices and initial maps of a history shape')
