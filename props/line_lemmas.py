"""Lemmas about the line-level functions of the parser, each with its callees replaced by arbitrary results ("havoc" stubs
constrained only by their result type). Together with the scanner and argument-list lemmas (props/c01.py) they give, by the
induction of DESIGN.md 8.6, the reading of a line and of a script of any length:

  find_label              one iteration of its character loop from an arbitrary index (scanner = havoc)
  find_output_and_command prologue (first token), one iteration of the blank-skipping loop, epilogue (scanner = havoc)
  parse_command_line      straight-line: label, output/command, arguments are put together; meta info is carried (callees = havoc)
  parse_line              straight-line: trim, blank/comment, '!' dispatch (callees = havoc)
  parse_lines             one iteration of the line loop: exactly one instruction appended with line number k+1, errors passed on

`part` selects the obligations a property claims: C01 = the documented forms, C08 = error kinds / line numbers / counting."""
import time
import z3
from mirsym import harness as H, solve, induct
from mirsym.values import *
from mirsym.engine import State, Obligation, some, none, OPTION, RESULT
from mirsym.harness import witness, discharge_known
from mirsym.models import str_push, str_concat
from .common import *

SE = 'types::error::ScriptError'
INSTR = 'types::instruction::Instruction'
ITYPE = 'types::instruction::InstructionType'
SINSTR = 'types::instruction::ScriptInstruction'


def _meta_is(mt, line, src=None):
    c = zand(zeq(mt.f[0].d, 1), zeq(mt.f[0].p[1][0], line)) if 1 in mt.f[0].p else False
    return c


def _err_with_meta(rv, kind_idx, line):
    if 1 not in rv.p: return False
    er = rv.p[1][0]
    if kind_idx not in er.p: return False
    return zand(zeq(rv.d, 1), zeq(er.d, kind_idx), _meta_is(er.p[kind_idx][0], line))


class Havoc:
    """arbitrary results for the k-th call of a stubbed scanner: Ok((index, Some(text))) | Ok((index, None)) | Err(kind(meta))"""

    def __init__(s, e, names, cap=3, calls=2):
        s.e = e; s.calls = []; s.k = []
        s.err_kind = names.index('MissingEndQuotes'); s.err_line = e.fresh_int('scan.err.line', 1, 1000)
        for i in range(calls):
            s.k.append(dict(kind=e.fresh_int('scan%d.kind' % i, 0, 2), next=e.fresh_int('scan%d.next' % i, 0, 1000), text=H.sym_str(e, 'scan%d.text' % i, cap)))

    def result(s, i):
        r = s.k[i]
        tok = E(OPTION, zite(r['kind'] == 0, 1, 0), {0: [], 1: [r['text']]})
        return E(RESULT, zite(r['kind'] == 2, 1, 0), {0: [T([r['next'], tok])], 1: [E(SE, s.err_kind, {s.err_kind: [meta_new(s.err_line)]})]})

    def hook(s, eng, st1, a, callee):
        i = len(s.calls)
        if i >= len(s.k): raise Abort('scanner stub called more often than expected')
        s.calls.append((st1.g, list(a), eng.deref(st1, a[1]) if isinstance(a[1], (P, PV)) else a[1]))
        return s.result(i)

    def is_err_passed(s, rv):
        if 1 not in rv.p: return False
        er = rv.p[1][0]
        return zand(zeq(rv.d, 1), zeq(er.d, s.err_kind), _meta_is(er.p[s.err_kind][0], s.err_line)) if s.err_kind in er.p else False


def _emit(e, jr, pid, obs, tag, extract, wit=None):
    for g, cnd, msg in obs: e.obligations.append(Obligation(g, cnd, '%s %s: %s' % (pid, tag, msg), 'assert', 'oracle'))
    res = discharge_known(e, jr, pid, {}, extract)
    if wit is not None: witness(jr, e, wit[0], wit[1], extract)
    H.finish_job(jr, e, res)


# ---------------------------------------------------------------------- find_label
def job_find_label(ctx, jr, N, part):
    jr.bounds = dict(buffer_chars=N, position='any', scanner='arbitrary result', part=part)
    names = ctx.types.enums[SE]
    e = ctx.engine(unwind=3); t0 = time.time()
    buf = H.sym_str(e, 'buffer', N); bufv = V(buf.len, buf.ch)
    start = e.fresh_int('start', 0, N); e.assume(start < buf.len)
    line = e.fresh_int('meta.line', 1, 100000)
    hv = Havoc(e, names, calls=1)
    e.hooks['parser::parse_next_value'] = hv.hook
    st = State(True, {(0, 'meta'): meta_new(line)})
    fr = induct.capture(e, 'core', 'parser::find_label', [P(0, 'meta'), bufv, start], st)
    fr.require(['index', 'iter', 'label'])
    it0 = fr.get(fr.st, 'iter')
    obs = [(fr.st.g, zand(zeq(fr.get(fr.st, 'index'), start), zeq(fr.get(fr.st, 'label').d, 0), zeq(fr.get(fr.st, 'end_index'), buf.len)), 'entry: index = start index, no label yet')]
    p = e.fresh_int('p', 0, N); e.assume(p <= buf.len)
    c = sel(buf.ch, p, 0); atend = zeq(p, buf.len); inb = znot(atend)
    hv.calls.clear()
    st1 = fr.state(True, index=p, iter=T([p, buf.len], it0.ty), label=none())
    exits, back = fr.step(st1)
    goes_on = back.g if back is not None else False
    rets = fr.returns(exits)
    r0 = hv.k[0]
    for g_, a, lt in hv.calls:
        obs.append((g_, zand(zeq(a[2], p + 1), zeq(a[3], False), zeq(a[4], False), zeq(a[5], False), zeq(a[6], False), zeq(lt.len, buf.len), inb, zeq(c, COLON)),
                    'the name scanner is called only after a colon, just behind it, in the name configuration (no quoting, no escapes)'))
    obs.append((zand(inb, zeq(c, COLON)), zor(*[g_ for g_, _, _ in hv.calls]) if hv.calls else False, 'after a colon the name scanner is called'))
    if part == 'C01':
        obs.append((zand(inb, zeq(c, SP)), goes_on, 'a blank is skipped'))
        if back is not None: obs.append((zand(back.g, inb, zeq(c, SP)), zand(zeq(fr.get(back, 'index'), p + 1), zeq(fr.get(back, 'label').d, 0)), 'after a blank: next index, still no label'))
        obs.append((zor(atend, zand(c != SP, c != COLON)), znot(goes_on), 'anything but a blank or a colon ends the search'))
        obs.append((zand(inb, zeq(c, COLON)), znot(goes_on), 'a colon ends the search'))
        for rs, rv in rets:
            tup = rv.p[0][0] if 0 in rv.p else None
            obs.append((zand(rs.g, zor(atend, zand(c != SP, c != COLON))), False if tup is None else zand(zeq(rv.d, 0), zeq(tup.f[0], p), zeq(tup.f[1].d, 0)),
                        'no label: the index of the first non-blank character is returned'))
            lab = tup.f[1].p[1][0] if tup is not None and 1 in tup.f[1].p else S(0, [])
            obs.append((zand(rs.g, inb, zeq(c, COLON), r0['kind'] == 0, r0['text'].len > 0),
                        False if tup is None else zand(zeq(rv.d, 0), zeq(tup.f[0], r0['next']), zeq(tup.f[1].d, 1), str_eq(lab, str_concat(S(1, [COLON]), r0['text']))),
                        'a label is the colon followed by the scanned name; the search for the command goes on where the scanner stopped'))
    else:
        ek = names.index('EmptyLabel')
        for rs, rv in rets:
            obs.append((zand(rs.g, inb, zeq(c, COLON), r0['kind'] == 0, zeq(r0['text'].len, 0)), _err_with_meta(rv, ek, line), 'an empty label name is rejected with EmptyLabel and the line of the caller'))
            obs.append((zand(rs.g, inb, zeq(c, COLON), r0['kind'] == 2), hv.is_err_passed(rv), 'a scanner error is passed on unchanged'))

    def extract(m, o=None): return dict(kind='c01_struct', fn='find_label', buffer=solve.model_str(m, buf), p=solve.model_int(m, p))
    jr.symex_time += time.time() - t0
    _emit(e, jr, part, obs, 'find_label lemma', extract, ('find_label: the search continues', goes_on) if part == 'C01' else None)


# ---------------------------------------------------------------------- find_output_and_command
def job_find_output_and_command(ctx, jr, N, part):
    jr.bounds = dict(buffer_chars=N, position='any', scanner='arbitrary results (two calls)', part=part)
    names = ctx.types.enums[SE]
    e = ctx.engine(unwind=3); t0 = time.time()
    buf = H.sym_str(e, 'buffer', N); bufv = V(buf.len, buf.ch)
    start = e.fresh_int('start', 0, N)
    line = e.fresh_int('meta.line', 1, 100000)
    lab = E(OPTION, zite(e.fresh_bool('label.present'), 1, 0), {0: [], 1: [H.sym_str(e, 'label', 3)]})
    instr0 = T([lab, none(), none(), none()], SINSTR)
    obs = []
    # --- prologue without a first token / with a scanner error: no loop
    hv = Havoc(e, names, calls=2)
    e.hooks['parser::parse_next_value'] = hv.hook
    e.assume(hv.k[0]['kind'] != 0)
    st = State(True, {(0, 'meta'): meta_new(line), (0, 'instr'): instr0})
    rs, rv = e.run('core', 'parser::find_output_and_command', [P(0, 'meta'), bufv, start, P(0, 'instr')], st)
    g_, a, lt = hv.calls[0]
    obs.append((g_, zand(zeq(a[2], start), zeq(a[3], False), zeq(a[4], False), zeq(a[5], True), zeq(a[6], False), zeq(lt.len, buf.len)),
                'the first token is scanned from the start index in the first-token configuration (no quoting, no escapes, stops at =)'))
    if part == 'C01':
        for g2, _, _ in hv.calls[1:]: obs.append((g2, False, 'one scanner call when there is no first token'))
        obs.append((zand(rs.g, hv.k[0]['kind'] == 1), zand(zeq(rv.d, 0), zeq(rv.p[0][0], hv.k[0]['next']), deep_eq(e.read(rs, ('mem', 0, 'instr', [])), instr0)) if 0 in rv.p else False,
                    'no first token: nothing is set'))
    else:
        obs.append((zand(rs.g, hv.k[0]['kind'] == 2), hv.is_err_passed(rv), 'a scanner error on the first token is passed on unchanged'))

    def extract(m, o=None): return dict(kind='c01_struct', fn='find_output_and_command')
    jr.symex_time += time.time() - t0
    _emit(e, jr, part, obs, 'find_output_and_command lemma (no first token)', extract)
    # --- with a first token: loop
    e = ctx.engine(unwind=3); t0 = time.time()
    buf = H.sym_str(e, 'buffer', N); bufv = V(buf.len, buf.ch)
    start = e.fresh_int('start', 0, N)
    line = e.fresh_int('meta.line', 1, 100000)
    lab = E(OPTION, zite(e.fresh_bool('label.present'), 1, 0), {0: [], 1: [H.sym_str(e, 'label', 3)]})
    instr0 = T([lab, none(), none(), none()], SINSTR)
    hv = Havoc(e, names, calls=2)
    e.hooks['parser::parse_next_value'] = hv.hook
    r1, r2 = hv.k
    e.assume(zand(r1['kind'] == 0, r1['next'] < buf.len))
    st = State(True, {(0, 'meta'): meta_new(line), (0, 'instr'): instr0})
    fr = induct.capture(e, 'core', 'parser::find_output_and_command', [P(0, 'meta'), bufv, start, P(0, 'instr')], st)
    fr.require(['index', 'iter'], also=('*instruction',))      # *instruction: label arbitrary, output/command unset until the iteration that leaves the loop (checked: 'nothing set' on the back edge)
    it0 = fr.get(fr.st, 'iter')
    obs = []
    if part == 'C01': obs.append((fr.st.g, zeq(fr.get(fr.st, 'index'), r1['next']), 'the search for = starts where the first token ended'))
    p = e.fresh_int('p', 0, N); e.assume(p <= buf.len)
    c = sel(buf.ch, p, 0); atend = zeq(p, buf.len); inb = znot(atend)
    st1 = fr.state(True, index=p, iter=T([p, buf.len], it0.ty))
    exits, back = fr.step(st1)
    goes_on = back.g if back is not None else False
    rets = fr.returns(exits)
    first = r1['text']
    if len(hv.calls) >= 2:
        g_, a, lt = hv.calls[1]
        obs.append((g_, zand(inb, zeq(c, EQ), zeq(a[2], p + 1), zeq(a[3], False), zeq(a[4], False), zeq(a[5], False), zeq(a[6], False), zeq(lt.len, buf.len)),
                    'the command is scanned only after =, just behind it, in the name configuration (no quoting, no escapes)'))
    obs.append((zand(inb, zeq(c, EQ)), hv.calls[1][0] if len(hv.calls) >= 2 else False, 'after = the command is scanned'))
    if part == 'C01':
        obs.append((zand(inb, zeq(c, SP)), goes_on, 'blanks before = are skipped'))
        if back is not None:
            obs.append((zand(back.g, inb, zeq(c, SP)), zand(zeq(fr.get(back, 'index'), p + 1), deep_eq(e.read(back, ('mem', 0, 'instr', [])), instr0)), 'after a blank: next index, nothing set'))
        obs.append((zor(atend, c != SP), znot(goes_on), 'the first non-blank character decides'))
        for rs, rv in rets:
            ins = e.read(rs, ('mem', 0, 'instr', []))
            okidx = rv.p[0][0] if 0 in rv.p else None
            noeq = zor(atend, zand(c != SP, c != EQ))
            obs.append((zand(rs.g, noeq), False if okidx is None else zand(zeq(rv.d, 0), zeq(okidx, r1['next']), zeq(ins.f[1].d, 0), opt_eq_str(ins.f[2], True, first), deep_eq(ins.f[0], lab)),
                        'no =: the first token is the command, no output variable; arguments start where the first token ended'))
            iseq = zand(inb, zeq(c, EQ))
            obs.append((zand(rs.g, iseq, r2['kind'] == 0), False if okidx is None else zand(zeq(rv.d, 0), zeq(okidx, r2['next']), opt_eq_str(ins.f[1], True, first), opt_eq_str(ins.f[2], True, r2['text']), deep_eq(ins.f[0], lab)),
                        '=: the first token is the output variable and the next token is the command'))
            obs.append((zand(rs.g, iseq, r2['kind'] == 1), False if okidx is None else zand(zeq(rv.d, 0), zor(zeq(okidx, p + 1), zeq(okidx, r2['next'])), opt_eq_str(ins.f[1], True, first), zeq(ins.f[2].d, 0)),      # nothing but blanks / a comment follows: either index reads no arguments
                        
                        '= followed by nothing: output variable without command'))
    else:
        for rs, rv in rets:
            obs.append((zand(rs.g, inb, zeq(c, EQ), r2['kind'] == 2), hv.is_err_passed(rv), 'a scanner error on the command is passed on unchanged'))
    jr.symex_time += time.time() - t0
    _emit(e, jr, part, obs, 'find_output_and_command lemma (loop)', extract, ('find_output_and_command: blanks are skipped', goes_on) if part == 'C01' else None)


# ---------------------------------------------------------------------- parse_command_line
def job_command_line(ctx, jr, part):
    jr.bounds = dict(callees='find_label, find_output_and_command, parse_arguments: arbitrary results', buffer='arbitrary, <= 6 chars (content is not inspected by this function)', part=part)
    names = ctx.types.enums[SE]
    e = ctx.engine(unwind=3); t0 = time.time()
    buf = H.sym_str(e, 'buffer', 6); bufv = V(buf.len, buf.ch)
    start = e.fresh_int('start', 0, 6)
    line = e.fresh_int('meta.line', 1, 100000)
    src = E(OPTION, zite(e.fresh_bool('meta.source.present'), 1, 0), {0: [], 1: [H.sym_str(e, 'meta.source', 2)]})
    meta = T([some(line), src], 'types::instruction::InstructionMetaInfo')
    ek = names.index('MissingEndQuotes'); eline = e.fresh_int('callee.err.line', 1, 1000)
    errv = E(SE, ek, {ek: [meta_new(eline)]})
    # find_label
    lk = e.fresh_int('label.kind', 0, 2); lnext = e.fresh_int('label.next', 0, 1000); ltext = H.sym_str(e, 'label.text', 3)
    ok_, ck_ = e.fresh_bool('oc.err'), None
    onext = e.fresh_int('oc.next', 0, 1000)
    out_o = E(OPTION, zite(e.fresh_bool('output.present'), 1, 0), {0: [], 1: [H.sym_str(e, 'output', 2)]})
    cmd_o = E(OPTION, zite(e.fresh_bool('command.present'), 1, 0), {0: [], 1: [H.sym_str(e, 'command', 2)]})
    ak = e.fresh_int('args.kind', 0, 2)
    argv = V(e.fresh_int('args.n', 1, 2), [H.sym_str(e, 'arg%d' % i, 2) for i in range(2)])
    calls = {}

    def h_label(eng, st1, a, callee):
        calls['label'] = (st1.g, list(a), eng.deref(st1, a[0]))
        return E(RESULT, zite(lk == 2, 1, 0), {0: [T([lnext, E(OPTION, zite(lk == 0, 1, 0), {0: [], 1: [ltext]})])], 1: [errv]})

    def h_oc(eng, st1, a, callee):
        ins = eng.deref(st1, a[3])
        calls['oc'] = (st1.g, list(a), eng.deref(st1, a[0]), ins)
        eng.store(st1, a[3], T([ins.f[0], out_o, cmd_o, ins.f[3]], SINSTR))
        return E(RESULT, zite(ok_, 1, 0), {0: [onext], 1: [errv]})

    def h_args(eng, st1, a, callee):
        calls['args'] = (st1.g, list(a), eng.deref(st1, a[0]))
        return E(RESULT, zite(ak == 2, 1, 0), {0: [E(OPTION, zite(ak == 0, 1, 0), {0: [], 1: [argv]})], 1: [errv]})
    e.hooks['parser::find_label'] = h_label; e.hooks['parser::find_output_and_command'] = h_oc; e.hooks['parser::parse_arguments'] = h_args
    rs, rv = e.run('core', 'parser::parse_command_line', [bufv, meta, start], State(True, {}))
    obs = []
    nothing = zor(zeq(buf.len, 0), start >= buf.len)
    ins = rv.p[0][0] if 0 in rv.p else None
    err_passed = zand(zeq(rv.d, 1), zeq(rv.p[1][0].d, ek), _meta_is(rv.p[1][0].p[ek][0], eline)) if 1 in rv.p and ek in rv.p[1][0].p else False
    if part == 'C01':
        obs.append((zand(rs.g, nothing), False if ins is None else zand(zeq(rv.d, 0), zeq(ins.f[1].d, 0), deep_eq(ins.f[0], meta)), 'nothing to read: an empty instruction with the meta info of the caller'))
        if 'label' in calls:
            g_, a, m_ = calls['label']; obs.append((g_, zand(zeq(a[2], start), deep_eq(m_, meta), znot(nothing)), 'the label search starts at the start index with the meta info of the caller'))
        if 'oc' in calls:
            g_, a, m_, i_ = calls['oc']
            obs.append((g_, zand(zeq(a[2], lnext), deep_eq(m_, meta), lk != 2, zeq(i_.f[0].d, zite(lk == 0, 1, 0)), zimp(lk == 0, str_eq(i_.f[0].p[1][0], ltext)) if 1 in i_.f[0].p else (lk != 0),
                             zeq(i_.f[1].d, 0), zeq(i_.f[2].d, 0)), 'output/command search: from where the label search stopped, label already recorded'))
        if 'args' in calls:
            g_, a, m_ = calls['args']; obs.append((g_, zand(zeq(a[2], onext), deep_eq(m_, meta), znot(ok_)), 'arguments are read from where the output/command search stopped'))
        good = zand(rs.g, znot(nothing), lk != 2, znot(ok_), ak != 2)
        allnone = zand(lk != 0, zeq(out_o.d, 0), zeq(cmd_o.d, 0))
        if ins is not None:
            obs.append((good, zand(zeq(rv.d, 0), deep_eq(ins.f[0], meta)), 'the instruction carries the meta info of the caller'))
            obs.append((zand(good, allnone), zeq(ins.f[1].d, 0), 'no label, output or command: an empty instruction'))
            if 2 in ins.f[1].p:
                si = ins.f[1].p[2][0]
                obs.append((zand(good, znot(allnone)), zand(zeq(ins.f[1].d, 2), opt_eq_str(si.f[0], lk == 0, ltext), deep_eq(si.f[1], out_o), deep_eq(si.f[2], cmd_o),
                                                            zeq(si.f[3].d, zite(ak == 0, 1, 0)), zimp(ak == 0, deep_eq(si.f[3].p[1][0], argv)) if 1 in si.f[3].p else (ak != 0)),
                            'label, output, command and arguments are exactly what the callees found'))
            else: obs.append((zand(good, znot(allnone)), False, 'a script instruction is produced'))
        else: obs.append((good, False, 'an instruction is produced'))
    else:
        obs.append((zand(rs.g, znot(nothing), zor(lk == 2, zand(lk != 2, ok_), zand(lk != 2, znot(ok_), ak == 2))), err_passed, 'an error of a callee is passed on unchanged (kind and line)'))
        obs.append((zand(rs.g, zeq(rv.d, 1)), zand(znot(nothing), zor(lk == 2, ok_, ak == 2)), 'no error of its own'))

    def extract(m, o=None): return dict(kind='c01_struct', fn='parse_command_line')
    jr.symex_time += time.time() - t0
    _emit(e, jr, part, obs, 'parse_command_line lemma', extract, ('parse_command_line: a full instruction', zand(rs.g, lk == 0, zeq(out_o.d, 1), ak == 0)) if part == 'C01' else None)


# ---------------------------------------------------------------------- parse_line
def job_parse_line(ctx, jr, L, part):
    jr.bounds = dict(line_chars=L, callees='parse_command_line, parse_pre_process_line: arbitrary results', part=part)
    e = ctx.engine(unwind=L + 3); t0 = time.time()
    text = H.sym_str(e, 'line', L)
    line = e.fresh_int('meta.line', 1, 100000)
    meta = T([some(line), none()], 'types::instruction::InstructionMetaInfo')
    rkind = e.fresh_bool('callee.err')
    ek = 6; errv = E(SE, ek, {ek: [meta_new(e.fresh_int('callee.err.line', 1, 1000))]})
    oki = T([meta_new(e.fresh_int('callee.ok.line', 1, 1000)), E(ITYPE, 0, {0: []})], INSTR)
    calls = []

    def h(which):
        def f(eng, st1, a, callee):
            ch = eng.deref(st1, a[0]) if isinstance(a[0], (P, PV)) else a[0]
            calls.append((which, st1.g, ch, a[1], a[2]))
            return E(RESULT, zite(rkind, 1, 0), {0: [oki], 1: [errv]})
        return f
    e.hooks['parser::parse_command_line'] = h('cmd'); e.hooks['parser::parse_pre_process_line'] = h('pre')
    rs, rv = e.run('core', 'parser::parse_line', [text, meta], State(True, {}))
    # the trimmed text, by the definition of trim: first and last non-white-space character
    from mirsym.models import is_ws, str_sub
    n = len(text.ch)
    first = text.len; last = 0
    for i in range(n - 1, -1, -1): first = zite(zand(i < text.len, znot(is_ws(text.ch[i]))), i, first)
    for i in range(n): last = zite(zand(i < text.len, znot(is_ws(text.ch[i]))), i + 1, last)
    blank = zeq(first, text.len)
    tr = str_sub(text, simp(first), simp(zite(blank, first, last)))
    c0 = sel(tr.ch, 0, 0)
    obs = []
    ins = rv.p[0][0] if 0 in rv.p else None
    empty = zor(blank, zeq(c0, HASH))
    obs.append((zand(rs.g, empty), False if ins is None else zand(zeq(rv.d, 0), zeq(ins.f[1].d, 0), deep_eq(ins.f[0], meta)), 'a blank or comment line is an empty instruction with the meta info of the caller'))
    obs.append((zand(rs.g, znot(empty)), zor(*[g_ for _, g_, _, _, _ in calls]) if calls else False, 'any other line is handed to exactly one of the two line readers'))
    for which, g_, ch, m_, st_ in calls:
        want_pre = zeq(c0, BANG)
        obs.append((g_, zand(znot(empty), want_pre if which == 'pre' else znot(want_pre), zeq(st_, 1 if which == 'pre' else 0), deep_eq(m_, meta), str_eq(S(ch.len, ch.it), tr)),
                    'the %s reader gets the trimmed characters, the meta info of the caller and start index %d' % (which, 1 if which == 'pre' else 0)))
    obs.append((zand(rs.g, znot(empty)), deep_eq(rv, E(RESULT, zite(rkind, 1, 0), {0: [oki], 1: [errv]})), 'the result of the line reader is passed on unchanged'))

    def extract(m, o=None): return dict(kind='c01_struct', fn='parse_line', text=solve.model_str(m, text))
    jr.symex_time += time.time() - t0
    _emit(e, jr, part, obs, 'parse_line lemma', extract, ('parse_line: a pre-processor line', zand(rs.g, znot(empty), zeq(c0, BANG))))


# ---------------------------------------------------------------------- parse_lines
def job_parse_lines(ctx, jr, NL, K, part):
    jr.bounds = dict(lines_in_the_iterator=NL, instructions_so_far=K, line_reader='arbitrary result', preprocessor='arbitrary result (0..2 added instructions or an error)', part=part)
    e = ctx.engine(unwind=3); t0 = time.time()
    nl = e.fresh_int('lines', 0, NL)
    lines = [H.sym_str(e, 'line%d' % i, 2) for i in range(NL)]
    src = E(OPTION, zite(e.fresh_bool('meta.source.present'), 1, 0), {0: [], 1: [H.sym_str(e, 'meta.source', 2)]})
    meta = T([none(), src], 'types::instruction::InstructionMetaInfo')
    # a text whose lines() is the list above (the model of str::lines uses the hint)
    text = S(0, [], hint=('lines', nl, lines))
    rerr = e.fresh_bool('line.err'); rtype = e.fresh_int('line.type', 0, 2)
    ek = 6; eline = e.fresh_int('line.err.line', 1, 1000); errv = E(SE, ek, {ek: [meta_new(eline)]})
    perr = e.fresh_bool('pre.err'); added = V(e.fresh_int('pre.added', 0, 2), [T([meta_new(e.fresh_int('added%d.line' % i, 1, 9)), E(ITYPE, 0, {0: []})], INSTR) for i in range(2)])
    pre_i = T([some(mk_str('p')), none()], 'types::instruction::PreProcessInstruction')
    scr_i = T([none(), none(), some(mk_str('c')), none()], SINSTR)
    calls = []

    def h_line(eng, st1, a, callee):
        calls.append((st1.g, a[0], a[1]))
        ins = T([a[1], E(ITYPE, rtype, {0: [], 1: [pre_i], 2: [scr_i]})], INSTR)      # contract (job_parse_line / job_command_line): the meta info is the one passed in
        return E(RESULT, zite(rerr, 1, 0), {0: [ins], 1: [errv]})
    pcalls = []

    def h_pre(eng, st1, a, callee):
        pcalls.append((st1.g, eng.deref(st1, a[0]) if isinstance(a[0], (P, PV)) else a[0]))
        return E(RESULT, zite(perr, 1, 0), {0: [added], 1: [errv]})
    e.hooks['parser::parse_line'] = h_line; e.hooks['preprocessor::run'] = h_pre
    fr = induct.capture(e, 'core', 'parser::parse_lines', [text, meta], State(True, {}))
    fr.require(['instructions', 'line_number', 'iter'])
    it0 = fr.get(fr.st, 'iter')
    obs = [(fr.st.g, zand(zeq(fr.get(fr.st, 'instructions').len, 0), zeq(fr.get(fr.st, 'line_number'), 1), zeq(it0.f[1], 0)), 'entry: no instruction, line number 1, first line')]
    k = e.fresh_int('k', 0, NL); e.assume(k <= nl)
    IV = V(e.fresh_int('so_far', 0, K), [T([meta_new(e.fresh_int('iv%d.line' % i, 1, 1000)), E(ITYPE, 0, {0: []})], INSTR) for i in range(K)])
    ln = e.fresh_int('line_number', 1, 100000)
    calls.clear(); pcalls.clear()
    st1 = fr.state(True, instructions=IV, line_number=ln, iter=T([it0.f[0], k], it0.ty))
    exits, back = fr.step(st1)
    goes_on = back.g if back is not None else False
    rets = fr.returns(exits)
    more = k < nl
    is_pre = zeq(rtype, 1)
    cont = zand(more, znot(rerr), zor(znot(is_pre), znot(perr)))
    obs.append((cont, goes_on, 'a readable line: the loop goes on'))
    obs.append((znot(cont), znot(goes_on), 'end of the text or an error: the loop ends'))
    for g_, ltxt, m_ in calls:
        obs.append((g_, zand(more, zeq(m_.f[0].d, 1), zeq(m_.f[0].p[1][0], ln), deep_eq(m_.f[1], src)), 'the line reader gets line number = number of lines read so far + 1 and the source of the caller'))
    obs.append((more, zor(*[g_ for g_, _, _ in calls]) if calls else False, 'every line is handed to the line reader'))
    obs.append((True, len(calls) <= 1, 'one line per iteration'))
    if back is not None:
        iv2 = fr.get(back, 'instructions'); it2 = fr.get(back, 'iter')
        base = zand(zeq(fr.get(back, 'line_number'), ln + 1), zeq(it2.f[1], k + 1))
        obs.append((back.g, base, 'the line counter and the line iterator advance by one'))
        obs.append((zand(back.g, znot(is_pre)), zeq(iv2.len, IV.len + 1), 'exactly one instruction is appended for a line without directive'))
        obs.append((zand(back.g, is_pre), zeq(iv2.len, IV.len + 1 + added.len), 'a directive line appends itself and what the pre-processor returns'))
        # the appended instruction carries the line number; earlier instructions are untouched
        for i in range(K + 1):
            if i < len(iv2.it):
                obs.append((zand(back.g, zeq(IV.len, i)), zand(zeq(iv2.it[i].f[0].f[0].d, 1), zeq(iv2.it[i].f[0].f[0].p[1][0], ln), zeq(iv2.it[i].f[1].d, rtype)) if 1 in iv2.it[i].f[0].f[0].p else False,
                            'the appended instruction is the one the line reader returned (line number %s)' % 'k+1'))
        for i in range(K):
            if i < len(iv2.it): obs.append((zand(back.g, IV.len > i), deep_eq(iv2.it[i], IV.it[i]), 'earlier instructions are untouched'))
    for rs, rv in rets:
        obs.append((zand(rs.g, znot(more)), zand(zeq(rv.d, 0), deep_eq(rv.p[0][0], IV)) if 0 in rv.p else False, 'end of the text: exactly the collected instructions are returned'))
        er = rv.p[1][0] if 1 in rv.p else None
        passed = zand(zeq(rv.d, 1), zeq(er.d, ek), _meta_is(er.p[ek][0], eline)) if er is not None and ek in er.p else False
        obs.append((zand(rs.g, more, zor(rerr, zand(is_pre, perr))), passed, 'an error of the line reader or the pre-processor ends the parse and is passed on unchanged'))

    def extract(m, o=None): return dict(kind='c01_struct', fn='parse_lines', lines=solve.model_int(m, nl), k=solve.model_int(m, k))
    jr.symex_time += time.time() - t0
    _emit(e, jr, part, obs, 'parse_lines lemma', extract, ('parse_lines: a directive line adds two instructions', zand(goes_on, is_pre, zeq(added.len, 2))))
