"""C16 - text and comparison commands compute the documented function (reduced scope: calc, float compare, case mapping n/a)."""
import time
import z3
from mirsym import harness as H, solve
from mirsym.values import *
from mirsym.engine import State, Obligation, some, none, OPTION
from mirsym.harness import process_failed, witness, discharge_known
from mirsym.models import (byte_len, byte_offsets, find_first, byte_of_char_index, match_at, trim_bounds, str_sub, int_to_str, str_parse_int,
                           str_concat, map_lookup)
from .common import *
from .c06 import invocation_context, run_command
from .c11 import hook_put_handle

PID = 'C16'
TY = 'sdk::std::string::%s::CommandImpl'
CONT, ERR = 0, 2


def ends_with_spec(s, p):
    cs = [p.len <= s.len]
    for i in range(len(p.ch)): cs.append(zimp(i < p.len, zeq(sel(s.ch, s.len - p.len + i, -1), p.ch[i])))
    return zand(*cs)


def bstr(b): return merge(b, mk_str('true'), mk_str('false'))


def spec_simple(e, st, cmd, a):
    """expected (kind, Option<String> as (present, S)) for the wrapper commands"""
    n = len(a)
    need = {'length': 1, 'indexof': 2, 'last_indexof': 2, 'contains': 2, 'starts_with': 2, 'ends_with': 2, 'equals': 2}
    if cmd in need and n < need[cmd]: return ERR, None
    if cmd == 'length': return CONT, (True, int_to_str(e, st, byte_len(a[0])))
    if cmd in ('indexof', 'last_indexof'):
        found, idx = find_first(a[0], a[1], reverse=(cmd == 'last_indexof'))
        return CONT, (found, int_to_str(e, st, byte_of_char_index(a[0], idx)))
    if cmd == 'contains': return CONT, (True, bstr(find_first(a[0], a[1])[0]))
    if cmd == 'starts_with': return CONT, (True, bstr(match_at(a[0], a[1], 0)))
    if cmd == 'ends_with': return CONT, (True, bstr(ends_with_spec(a[0], a[1])))
    if cmd == 'equals': return CONT, (True, bstr(str_eq(a[0], a[1])))
    if cmd == 'is_empty': return CONT, (True, mk_str('true') if n == 0 else bstr(zeq(a[0].len, 0)))
    if cmd in ('trim', 'trim_start', 'trim_end'):
        if n == 0: return CONT, (False, S(0, []))
        start, end = trim_bounds(a[0], left=cmd != 'trim_end', right=cmd != 'trim_start')
        if cmd == 'trim_start': end = a[0].len
        return CONT, (True, str_sub(a[0], start, end))
    raise Abort('no spec for ' + cmd)


def check_result(rv, kind, out):
    cs = [zeq(rv.d, kind)]
    if kind == CONT and CONT in rv.p:
        o = rv.p[CONT][0]; present, val = out
        cs.append(zeq(o.d, zite(present, 1, 0)))
        if 1 in o.p: cs.append(zimp(present, str_eq(o.p[1][0], val)))
        else: cs.append(znot(present))
    return zand(*cs)


def job_wrappers(ctx, jr, cmds, cap):
    jr.bounds = dict(commands=cmds, argument_chars=cap, argument_counts='0..2', alphabet='all Unicode scalar values (byte-accurate lengths/offsets)')
    for cmd in cmds:
        for n in range(0, 3):
            e = ctx.engine(unwind=cap + 3); e.int_digits = 2
            t0 = time.time()
            args = [H.sym_str(e, 'arg%d' % i, cap) for i in range(n)]
            ctxv, st = invocation_context(e, V(n, args))
            rs, rv = run_command(e, TY % cmd, ctxv, st)
            jr.symex_time += time.time() - t0
            if rs is None: raise Abort('%s never returns' % cmd)
            kind, out = spec_simple(e, rs, cmd, args)
            e.obligations.append(Obligation(rs.g, check_result(rv, kind, out), 'C16 %s/%d: result equals the plain string operation' % (cmd, n), 'assert', 'oracle'))

            def extract(m, o=None): return dict(kind='c16', cmd=cmd, args=[solve.model_str(m, x) for x in args])
            res = discharge_known(e, jr, PID, {}, extract)
            if n == 2 and cmd in ('indexof', 'last_indexof'):
                witness(jr, e, '%s behind a multi-byte char' % cmd, zand(rs.g, args[0].len >= 3, args[0].ch[0] >= 0x800, zeq(rv.d, CONT), zeq(rv.p[CONT][0].d, 1), args[1].len >= 1, args[0].ch[0] != args[1].ch[0]), extract)
            H.finish_job(jr, e, res)


def num_str(e, name, cap=3):
    """a numeric-looking argument: arbitrary string over digits, sign and one junk letter"""
    s = H.sym_str(e, name, cap)
    e.assume(all_chars(s, lambda c: zor(zand(c >= 48, c <= 57), zeq(c, 45), zeq(c, 43), zeq(c, 120))))
    return s


def job_substring(ctx, jr, cap):
    jr.bounds = dict(text_chars=cap, numeric_arguments='<= 3 chars over digits, +, -, x', arities='1..3')
    for n in (1, 2, 3):
        e = ctx.engine(unwind=cap + 4); e.int_digits = 2
        t0 = time.time()
        s = H.sym_str(e, 'text', cap)
        nums = [num_str(e, 'num%d' % i) for i in range(n - 1)]
        ctxv, st = invocation_context(e, V(n, [s] + nums))
        rs, rv = run_command(e, TY % 'substring', ctxv, st)
        jr.symex_time += time.time() - t0
        L = byte_len(s); off = byte_offsets(s)
        def boundary(b): return zor(*[zand(zeq(off[i], b), i <= s.len) for i in range(len(s.ch) + 1)])
        def char_idx(b):
            r = 0
            for i in range(len(s.ch), -1, -1): r = zite(zand(zeq(off[i], b), i <= s.len), i, r)
            return r
        parsed = [str_parse_int(e, rs, x, 'isize') for x in nums]
        okn = [zeq(p.d, 0) for p in parsed]; val = [p.p[0][0] for p in parsed]
        if n == 1:
            dom = True; lo, hi = 0, L; unconstrained = False
        elif n == 2:
            v = val[0]
            dom = zand(okn[0], zite(v >= 0, v <= L - 1, L + v >= 0))
            lo = zite(v >= 0, v, 0); hi = zite(v >= 0, L, L + v); unconstrained = False
        else:
            a, b = val
            dom = zand(okn[0], okn[1], a >= 0, a <= L - 1, b >= a, b <= L - 1)
            lo, hi = a, b
            unconstrained = zand(okn[0], okn[1], zeq(b, L))         # end index == length: left open by the property
        dom = zand(dom, boundary(lo), boundary(hi))
        exp = str_sub(s, char_idx(lo), char_idx(hi))
        cont = zeq(rv.d, CONT)
        checks = [('in-domain input gives the byte-range substring', zimp(dom, zand(cont, zeq(rv.p[CONT][0].d, 1), str_eq(rv.p[CONT][0].p[1][0], exp))) if CONT in rv.p else znot(dom)),
                  ('out-of-domain input gives the error result', zimp(zand(znot(dom), znot(unconstrained)), zeq(rv.d, ERR)))]
        for msg, c in checks: e.obligations.append(Obligation(rs.g, c, 'C16 substring/%d: %s' % (n, msg), 'assert', 'oracle'))

        def extract(m, o=None): return dict(kind='c16', cmd='substring', args=[solve.model_str(m, s)] + [solve.model_str(m, x) for x in nums])
        res = discharge_known(e, jr, PID, {}, extract)
        witness(jr, e, 'substring/%d inside a multi-byte text' % n, zand(rs.g, dom, s.len >= 2, s.ch[0] >= 128, *( [lo > 0] if n > 1 else [])), extract)
        H.finish_job(jr, e, res)


def job_relation(ctx, jr, cap):
    """substring(s, 0, indexof(s, t)) followed by t is a prefix of s (units of indexof and substring agree)"""
    jr.bounds = dict(text_chars=cap, needle_chars=2)
    e = ctx.engine(unwind=cap + 4); e.int_digits = 2
    t0 = time.time()
    s = H.sym_str(e, 'text', cap); t = H.sym_str(e, 'needle', 2)
    ctxv, st = invocation_context(e, V(2, [s, t]))
    rs, rv = run_command(e, TY % 'indexof', ctxv, st)
    found = zand(zeq(rv.d, CONT), zeq(rv.p[CONT][0].d, 1))
    idx_s = rv.p[CONT][0].p[1][0]
    st2 = State(zand(rs.g, found), dict(rs.m))
    ctxv2, st2b = invocation_context(e, V(3, [s, mk_str('0'), idx_s]))
    st2b.g = st2.g
    rs2, rv2 = run_command(e, TY % 'substring', ctxv2, st2b)
    jr.symex_time = time.time() - t0
    ok2 = zeq(rv2.d, CONT)
    sub = rv2.p[CONT][0].p[1][0] if CONT in rv2.p and 1 in rv2.p[CONT][0].p else S(0, [])
    e.obligations.append(Obligation(rs2.g, zimp(ok2, match_at(s, str_concat(sub, t), 0)), 'C16 relation: substring(s,0,indexof(s,t)) + t is a prefix of s', 'assert', 'oracle'))
    e.obligations.append(Obligation(rs2.g, zimp(zand(t.len >= 1), ok2), 'C16 relation: the index returned by indexof is accepted by substring', 'assert', 'oracle'))

    def extract(m, o=None): return dict(kind='c16_relation', text=solve.model_str(m, s), needle=solve.model_str(m, t))
    res = discharge_known(e, jr, PID, {}, extract)
    witness(jr, e, 'needle behind multi-byte chars', zand(rs2.g, ok2, s.ch[0] >= 0x10000, sub.len >= 1), extract)
    H.finish_job(jr, e, res)


def job_compare(ctx, jr, cap):
    """less_than / greater_than on plain integer literals agree with numeric order; a non-numeric operand is the error result"""
    from mirsym.models import f64_int_literal
    jr.bounds = dict(operand_chars=cap, operands='plain integer literals [+-]?digits (leading zeros, +0 / -0 included) or strings containing a character that no number literal has',
                     outside='fractions, exponents, inf, nan (floating point is outside the theories used)')
    for cmd, ty in (('less_than', 'sdk::std::math::less_than::CommandImpl'), ('greater_than', 'sdk::std::math::greater_than::CommandImpl')):
        for n in (1, 2, 3):
            e = ctx.engine(unwind=cap + 4); t0 = time.time()
            args = [H.sym_str(e, 'arg%d' % i, cap) for i in range(n)]
            lits = [f64_int_literal(x) for x in args]
            for isint, v, foreign in lits: e.assume(zor(isint, foreign))
            ctxv, st = invocation_context(e, V(n, args))
            rs, rv = run_command(e, ty, ctxv, st)
            jr.symex_time += time.time() - t0
            if n != 2:
                e.obligations.append(Obligation(rs.g, zeq(rv.d, ERR), 'C16 %s: a wrong number of operands is the error result' % cmd, 'assert', 'oracle'))
            else:
                (ia, va, _), (ib, vb, _) = lits
                both = zand(ia, ib)
                exp = (va < vb) if cmd == 'less_than' else (va > vb)
                e.obligations.append(Obligation(rs.g, zimp(znot(both), zeq(rv.d, ERR)), 'C16 %s: a non-numeric operand is the error result' % cmd, 'assert', 'oracle'))
                e.obligations.append(Obligation(rs.g, zimp(both, check_result(rv, CONT, (True, bstr(exp)))), 'C16 %s agrees with numeric order' % cmd, 'assert', 'oracle'))

            def extract(m, o=None, cmd=cmd): return dict(kind='c16_compare', cmd=cmd, args=[solve.model_str(m, x) for x in args])
            res = discharge_known(e, jr, PID, {}, extract)
            if n == 2: witness(jr, e, '%s with a leading zero' % cmd, zand(rs.g, lits[0][0], lits[1][0], args[0].len >= 2, args[0].ch[0] == 48), extract)
            H.finish_job(jr, e, res)


def job_split_replace(ctx, jr, cap):
    """split and replace (plumbing + the relation of the statement): the pieces of split joined by the separator give back the
    text; replace = the pieces joined by the replacement; wrong argument counts are the error result"""
    from mirsym.models import split_general
    jr.bounds = dict(text_chars=cap, pattern_chars='1..2 (non-empty: an empty separator / pattern is outside the model)', replacement_chars=2)
    vs = ctx.types.enums['types::runtime::StateValue']; STRK, LIST, SUB = vs.index('String'), vs.index('List'), vs.index('SubState')
    for cmd in ('split', 'replace'):
        for n in ((1, 2) if cmd == 'split' else (2, 3)):
            e = ctx.engine(unwind=cap + 6); e.int_digits = 2
            e.hooks['utils::state::put_handle'] = hook_put_handle
            t0 = time.time()
            text = H.sym_str(e, 'text', cap); pat = H.sym_str(e, 'pattern', 2); rep = H.sym_str(e, 'replacement', 2)
            e.assume(pat.len >= 1)
            args = [text, pat, rep][:n]
            ctxv, st = invocation_context(e, V(n, args))
            rs, rv = run_command(e, TY % cmd, ctxv, st)
            jr.symex_time += time.time() - t0
            full = n == (2 if cmd == 'split' else 3)
            obs = []
            if not full: obs.append((rs.g, zeq(rv.d, ERR), 'too few arguments give the error result'))
            elif cmd == 'replace':
                pieces = split_general(e, rs, text, pat)
                exp = S(0, [])
                for i, x in enumerate(pieces.it):
                    c = simp(i < pieces.len)
                    if c is False: break
                    nxt = str_concat(str_concat(exp, rep), x) if i > 0 else x
                    exp = nxt if c is True else merge(c, nxt, exp)
                obs.append((rs.g, check_result(rv, CONT, (True, exp)), 'replace returns the text with every occurrence of the pattern (from the left, non-overlapping) replaced'))
            else:
                out = rv.p[CONT][0] if CONT in rv.p else None
                key = out.p[1][0] if out is not None and 1 in out.p else S(0, [])
                post = e.read(rs, ('mem', 0, 'state', []))
                hf, hsub, _ = map_lookup(e, rs, post, mk_str('handles'))
                tab = hsub.p[SUB][0] if isinstance(hsub, E) and SUB in hsub.p else M([])
                nf, nv, _ = map_lookup(e, rs, tab, key)
                lst = nv.p[LIST][0] if isinstance(nv, E) and LIST in nv.p else V(0, [])
                obs.append((rs.g, zand(zeq(rv.d, CONT), nf, zeq(nv.d, LIST) if isinstance(nv, E) else False), 'split returns the handle of a new array'))
                joined = S(0, [])
                for i, x in enumerate(lst.it):
                    c = simp(i < lst.len)
                    if c is False: break
                    piece = x.p[STRK][0] if isinstance(x, E) and STRK in x.p else S(0, [])
                    nxt = str_concat(str_concat(joined, pat), piece) if i > 0 else piece
                    joined = nxt if c is True else merge(c, nxt, joined)
                    obs.append((zand(rs.g, c), znot(find_first(piece, pat)[0]), 'no piece contains the separator'))
                obs.append((rs.g, str_eq(joined, text), 'the pieces joined by the separator give back the text'))
            for g, cnd, msg in obs: e.obligations.append(Obligation(g, cnd, 'C16 %s: %s' % (cmd, msg), 'assert', 'oracle'))

            def extract(m, o=None, cmd=cmd): return dict(kind='c16_split', cmd=cmd, args=[solve.model_str(m, x) for x in args])
            res = discharge_known(e, jr, PID, {}, extract)
            if full: witness(jr, e, '%s with two occurrences' % cmd, zand(rs.g, text.len >= 3, match_at(text, pat, 0), zor(*[match_at(text, pat, i) for i in range(1, cap)])), extract, optional=True)
            H.finish_job(jr, e, res)


def job_range(ctx, jr):
    jr.bounds = dict(operands='<= 3 chars over digits, sign, x', span='end - start <= 4')
    e = ctx.engine(unwind=8); e.int_digits = 3; e.range_cap = 4
    e.hooks['utils::state::put_handle'] = hook_put_handle
    t0 = time.time()
    a = num_str(e, 'start'); b = num_str(e, 'end')
    pa = str_parse_int(e, State(True, {}), a, 'i64'); pb = str_parse_int(e, State(True, {}), b, 'i64')
    e.assume(zimp(zand(zeq(pa.d, 0), zeq(pb.d, 0)), pb.p[0][0] - pa.p[0][0] <= 4))
    ctxv, st = invocation_context(e, V(2, [a, b]))
    rs, rv = run_command(e, 'sdk::std::collections::range::CommandImpl', ctxv, st)
    jr.symex_time = time.time() - t0
    dom = zand(zeq(pa.d, 0), zeq(pb.d, 0), pa.p[0][0] <= pb.p[0][0])
    lo, hi = pa.p[0][0], pb.p[0][0]
    checks = [('out-of-domain operands give the error result', zimp(znot(dom), zeq(rv.d, ERR))), ('valid operands give a handle', zimp(dom, zand(zeq(rv.d, CONT), zeq(rv.p[CONT][0].d, 1))) if CONT in rv.p else znot(dom))]
    # the stored list is the half-open interval
    state = e.read(rs, ('mem', 0, 'state', []))
    hf, hsub, _ = map_lookup(e, rs, state, mk_str('handles'))
    if hf is not False and CONT in rv.p and 1 in rv.p[CONT][0].p:
        sub = hsub.p[hsub.d][0] if isinstance(hsub, E) and not is_sym(hsub.d) else None
        if isinstance(hsub, E):
            SUB = ctx.types.enums['types::runtime::StateValue'].index('SubState'); LIST = ctx.types.enums['types::runtime::StateValue'].index('List'); N64 = ctx.types.enums['types::runtime::StateValue'].index('Number64Bit')
            if SUB in hsub.p:
                lf, lst, _ = map_lookup(e, rs, hsub.p[SUB][0], rv.p[CONT][0].p[1][0])
                checks.append(('the handle is stored', zimp(dom, lf)))
                if lf is not False and isinstance(lst, E) and LIST in lst.p:
                    items = lst.p[LIST][0]
                    cs = [zeq(lst.d, LIST), zeq(items.len, hi - lo)]
                    for k, it in enumerate(items.it):
                        if isinstance(it, E) and N64 in it.p: cs.append(zimp(k < items.len, zand(zeq(it.d, N64), zeq(it.p[N64][0], lo + k))))
                    checks.append(('the list is start, start+1, ..., end-1', zimp(dom, zand(*cs))))
    for msg, c in checks: e.obligations.append(Obligation(rs.g, c, 'C16 range: ' + msg, 'assert', 'oracle'))

    def extract(m, o=None): return dict(kind='c16', cmd='range', args=[solve.model_str(m, a), solve.model_str(m, b)])
    res = discharge_known(e, jr, PID, {}, extract)
    witness(jr, e, 'negative start', zand(rs.g, dom, lo < 0, hi - lo >= 2), extract)
    H.finish_job(jr, e, res)


# ---------------------------------------------------------------------- native replay
def py_expected(cmd, a):
    def b(x): return 'true' if x else 'false'
    try:
        if cmd == 'length': return ('err', None) if not a else ('val', str(len(a[0].encode())))
        if cmd in ('indexof', 'last_indexof'):
            if len(a) < 2: return ('err', None)
            i = a[0].find(a[1]) if cmd == 'indexof' else a[0].rfind(a[1])
            return ('none', None) if i < 0 else ('val', str(len(a[0][:i].encode())))
        if cmd == 'contains': return ('err', None) if len(a) < 2 else ('val', b(a[1] in a[0]))
        if cmd == 'starts_with': return ('err', None) if len(a) < 2 else ('val', b(a[0].startswith(a[1])))
        if cmd == 'ends_with': return ('err', None) if len(a) < 2 else ('val', b(a[0].endswith(a[1])))
        if cmd == 'equals': return ('err', None) if len(a) < 2 else ('val', b(a[0] == a[1]))
        if cmd == 'is_empty': return ('val', b(not a or a[0] == ''))
        if cmd in ('less_than', 'greater_than'):
            import re
            if len(a) != 2: return ('err', None)
            if not all(re.fullmatch(r'[+-]?[0-9]+', x) for x in a):
                return ('err', None) if any(ch not in '0123456789+-.eE_infatyINFATY' for x in a if not re.fullmatch(r'[+-]?[0-9]+', x) for ch in (x or '?')) or '' in a else ('skip', None)
            return ('val', b(int(a[0]) < int(a[1]) if cmd == 'less_than' else int(a[0]) > int(a[1])))
        if cmd == 'substring':
            raw = a[0].encode(); L = len(raw)
            def num(x):
                import re
                if not re.fullmatch(r'[+-]?\d+', x): raise ValueError
                return int(x)
            if len(a) == 1: lo, hi = 0, L
            elif len(a) == 2:
                v = num(a[1])
                if v >= 0:
                    if v > L - 1: return ('err', None)
                    lo, hi = v, L
                else:
                    if L + v < 0: return ('err', None)
                    lo, hi = 0, L + v
            else:
                s_, e_ = num(a[1]), num(a[2])
                if e_ == L and 0 <= s_ <= L - 1: return ('open', None)
                if s_ < 0 or s_ > L - 1 or e_ < s_ or e_ > L - 1: return ('err', None)
                lo, hi = s_, e_
            try: return ('val', raw[lo:hi].decode('utf-8')) if (raw[:lo].decode() is not None and raw[:hi].decode() is not None) else None
            except UnicodeDecodeError: return ('err', None)
    except ValueError:
        return ('err', None)
    return ('skip', None)


def replayer(v):
    def run(cmd, args):
        vars_ = {'a%d' % i: x for i, x in enumerate(args)}
        script = 'r = %s %s' % (cmd, ' '.join('${a%d}' % i for i in range(len(args))))
        return H.replay(dict(mode='sdk', script=script + '\ne = get_last_error', vars=vars_))
    if v['kind'] == 'c16_split':
        a = v['args']
        if v['cmd'] == 'replace':
            out = run('replace', a); v['native'] = out
            if out.get('panic'): return (True, 'native panic')
            got = out['vars'].get('r'); err = out['vars'].get('e')
            if len(a) < 3: return (not (got == 'false' and err), 'native %r' % got)
            return (got != a[0].replace(a[1], a[2]), 'native %r, reference %r' % (got, a[0].replace(a[1], a[2])))
        vars_ = {'a%d' % i: x for i, x in enumerate(a)}
        script = 'r = split %s\ne = get_last_error\nn = array_length ${r}\n' % ' '.join('${a%d}' % i for i in range(len(a))) + '\n'.join('p%d = array_get ${r} %d' % (i, i) for i in range(8))
        out = H.replay(dict(mode='sdk', script=script, vars=vars_)); v['native'] = out
        if out.get('panic'): return (True, 'native panic')
        if len(a) < 2: return (not (out['vars'].get('r') == 'false' and out['vars'].get('e')), 'native %r' % out['vars'].get('r'))
        exp = a[0].split(a[1]); n_ = out['vars'].get('n')
        got = [out['vars'].get('p%d' % i, '') for i in range(min(len(exp), 8))]
        return (n_ != str(len(exp)) or got != exp[:8], 'native pieces %r (%s), reference %r' % (got, n_, exp))
    if v['kind'] == 'c16_relation':
        o1 = run('indexof', [v['text'], v['needle']]); v['native'] = o1
        if o1.get('panic'): return (True, 'native panic')
        i = o1['vars'].get('r')
        if i is None: return (False, 'needle not found natively')
        o2 = run('substring', [v['text'], '0', i]); v['native2'] = o2
        if o2.get('panic'): return (True, 'native panic in substring')
        sub = o2['vars'].get('r')
        if sub == 'false' and o2['vars'].get('e'): return (v['needle'] != '', 'substring rejected index %s' % i)
        return (not v['text'].startswith((sub or '') + v['needle']), 'native substring %r' % sub)
    out = run(v['cmd'], v['args']); v['native'] = out
    if out.get('panic'): return (True, 'native panic')
    kind, val = py_expected(v['cmd'], v['args'])
    got = out['vars'].get('r'); err = out['vars'].get('e')
    if kind in ('skip', 'open'): return (None, 'no independent reference for this case')
    if kind == 'err': return (not (got == 'false' and err), 'native %r (error %r), reference: error' % (got, err))
    if kind == 'none': return (got is not None, 'native %r, reference: no value' % got)
    return (got != val, 'native %r, reference %r' % (got, val))


def main(tier, seed):
    chk = H.Check(PID, tier, seed)
    chk.replayer = replayer
    cap = 6 if tier == 'quick' else 9
    cmds = ['length', 'indexof', 'last_indexof', 'contains', 'starts_with', 'ends_with', 'equals', 'is_empty', 'trim', 'trim_start', 'trim_end']
    for c in cmds: chk.job(job_wrappers, c, cmds=[c], cap=cap)
    chk.job(job_substring, 'substring', cap=cap)
    chk.job(job_relation, 'relation', cap=cap)
    chk.job(job_range, 'range')
    chk.job(job_compare, 'compare', cap=4 if tier == 'quick' else 7)
    chk.job(job_split_replace, 'split+replace', cap=5 if tier == 'quick' else 7)
    chk.bounds = dict(argument_chars=cap, numeric_arguments='<= 3 chars', range_span='<= 4')
    chk.assumptions = ['for one-line wrappers around a std function the engine model and the oracle are the same specification: the check covers the command plumbing '
                       '(argument order/count, error paths, output formatting) and the unit consistency relation, not std itself',
                       'n/a parts: calc (evalexpr), less_than/greater_than on operands that are not plain integer literals (f64), uppercase/lowercase (Unicode tables), concat (script-implemented; its body is run by C19 in the thorough tier), split/replace with an empty pattern',
                       'substring with end index == length is left unconstrained as the property says']
    results = chk.run()
    return chk.finish(results, 'every obligation is a solver query over all argument strings within the bounds')
