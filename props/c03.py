"""C03 - the runner executes exactly what the command results dictate (also drives C13: halt flag)."""
import time
import z3
from mirsym import harness as H, solve
from mirsym.values import *
from mirsym.engine import State, Obligation, some, none, OPTION
from mirsym.harness import process_failed, witness, discharge_known
from mirsym.models import map_lookup, str_concat
from .common import *

PID = 'C03'
CR = 'types::command::CommandResult'; GV = 'types::command::GoToValue'
CONT, GOTO, ERROR, CRASH, EXIT = 0, 1, 2, 3, 4
LABELS = [':a', ':b']; TARGETS = [':a', ':b', ':zz']; OUTS = ['x', 'y']; VALUES = ['0', '1', '7', 'v']
CMDS = ['c', 'nope']; ARGS = ['k', '${x}']; MSGS = ['e1', 'e2']


def choose(idx, options):
    """merge of concrete strings selected by a symbolic index"""
    r = mk_str(options[-1])
    for j in range(len(options) - 2, -1, -1): r = merge(idx == j, mk_str(options[j]), r)
    return r


def opt_choose(idx, options):
    """Option<String>: index 0 = None, k = Some(options[k-1])"""
    return E(OPTION, zite(idx == 0, 0, 1), {0: [], 1: [choose(idx - 1, options)]})


class Program:
    def __init__(s, e, n):
        s.n = n
        s.kind = [e.fresh_int('i%d.kind' % i, 0, 1) for i in range(n)]         # 0 empty, 1 script
        s.label = [e.fresh_int('i%d.label' % i, 0, len(LABELS)) for i in range(n)]
        s.out = [e.fresh_int('i%d.out' % i, 0, len(OUTS)) for i in range(n)]
        s.cmd = [e.fresh_int('i%d.cmd' % i, 0, len(CMDS)) for i in range(n)]
        s.arg = [e.fresh_int('i%d.arg' % i, 0, len(ARGS) - 1) for i in range(n)]
        s.line = [e.fresh_int('i%d.line' % i, 1, 9) for i in range(n)]
        s.src = [e.fresh_bool('i%d.hassrc' % i) for i in range(n)]

    def value(s):
        items = []
        for i in range(s.n):
            meta = T([some(s.line[i]), E(OPTION, zite(s.src[i], 1, 0), {0: [], 1: [mk_str('f.ds')]})], 'types::instruction::InstructionMetaInfo')
            si = T([opt_choose(s.label[i], LABELS), opt_choose(s.out[i], OUTS), opt_choose(s.cmd[i], CMDS),
                    some(V(1, [choose(s.arg[i], ARGS)]))], 'types::instruction::ScriptInstruction')
            ity = E('types::instruction::InstructionType', zite(s.kind[i] == 0, 0, 2), {0: [], 2: [si]})
            items.append(T([meta, ity], 'types::instruction::Instruction'))
        return V(s.n, items)

    def text(s, m):
        lines = []
        for i in range(s.n):
            if solve.model_int(m, s.kind[i]) == 0: lines.append(''); continue
            l = solve.model_int(m, s.label[i]); o = solve.model_int(m, s.out[i]); c = solve.model_int(m, s.cmd[i]); a = solve.model_int(m, s.arg[i])
            parts = []
            if l: parts.append(LABELS[l - 1])
            if o: parts.append(OUTS[o - 1] + ' =')
            if c: parts.append(CMDS[c - 1] + ' ' + ARGS[a])
            lines.append(' '.join(parts))
        return lines


class Results:
    """one symbolic command result per fetch/execute iteration, and one for on_error"""

    def __init__(s, e, J, n, tag, kinds):
        s.kind = [e.fresh_int('%s%d.kind' % (tag, j), 0, len(kinds) - 1) for j in range(J)]
        s.kinds = kinds
        s.out = [e.fresh_int('%s%d.out' % (tag, j), 0, len(VALUES)) for j in range(J)]
        s.target = [e.fresh_int('%s%d.target' % (tag, j), 0, len(TARGETS) - 1) for j in range(J)]
        s.bylabel = [e.fresh_bool('%s%d.bylabel' % (tag, j)) for j in range(J)]
        s.gline = [e.fresh_int('%s%d.line' % (tag, j), 0, n + 1) for j in range(J)]
        s.msg = [e.fresh_int('%s%d.msg' % (tag, j), 0, len(MSGS) - 1) for j in range(J)]

    def k(s, j):
        """CommandResult variant index at iteration j"""
        r = s.kinds[-1]
        for q in range(len(s.kinds) - 2, -1, -1): r = zite(s.kind[j] == q, s.kinds[q], r)
        return r

    def value(s, j):
        out = opt_choose(s.out[j], VALUES); msg = choose(s.msg[j], MSGS)
        gv = E(GV, zite(s.bylabel[j], 0, 1), {0: [choose(s.target[j], TARGETS)], 1: [s.gline[j]]})
        return E(CR, s.k(j), {CONT: [out], GOTO: [out, gv], ERROR: [msg], CRASH: [msg], EXIT: [out]})

    def describe(s, m, j):
        k = solve.model_int(m, s.k(j)); o = solve.model_int(m, s.out[j])
        d = {'kind': ['continue', 'goto', 'error', 'crash', 'exit'][k]}
        if k in (CONT, GOTO, EXIT) and o: d['output'] = VALUES[o - 1]
        if k == GOTO:
            if solve.model_bool(m, s.bylabel[j]): d['kind'] = 'goto_label'; d['label'] = TARGETS[solve.model_int(m, s.target[j])]
            else: d['kind'] = 'goto_line'; d['line'] = solve.model_int(m, s.gline[j])
        if k in (ERROR, CRASH): d['message'] = MSGS[solve.model_int(m, s.msg[j])]
        return d


def setup(ctx, e, n, J, halting):
    prog = Program(e, n)
    res = Results(e, J, n, 'r', [CONT, GOTO, ERROR, CRASH, EXIT])
    oer = Results(e, J, n, 'oe', [CONT, EXIT, CRASH, ERROR])
    has_on_error = e.fresh_bool('has_on_error')
    halt = [e.fresh_bool('halt%d' % j) for j in range(J + 1)] if halting else [False] * (J + 1)
    if halting:
        for j in range(J): e.assume(z3.Implies(halt[j], halt[j + 1]))       # monotone: once raised it stays raised
    x0 = e.fresh_int('x0', 0, len(VALUES)); y0 = e.fresh_int('y0', 0, len(VALUES))
    st = State(True, {})
    log = {'it': -1, 'cmd': {}, 'oe': {}}

    def h_load(eng, st1, a, callee):
        log['it'] += 1
        j = log['it']
        if j > J: st1.g = False; return False          # runs of more than J iterations are outside the claim
        return halt[j]

    def h_run(eng, st1, a):
        j = log['it']; ctxv = a[1]
        if j >= J: st1.g = False; return POISON          # cut: more than J fetch/execute iterations
        log['cmd'][j] = (st1.g, ctxv.f[6], ctxv.f[0], ctxv.f[3])
        return res.value(j)

    def h_oe(eng, st1, a):
        j = log['it']; ctxv = a[1]
        if j >= J: st1.g = False; return POISON
        log['oe'][j] = (st1.g, ctxv.f[0])
        return oer.value(j)
    e.hooks['std::sync::atomic::Atomic::<bool>::load'] = h_load
    e.dyn_impls[('harness::Scripted', 'run')] = h_run
    e.dyn_impls[('harness::OnError', 'run')] = h_oe
    for ty in ('harness::Scripted', 'harness::OnError'):
        e.dyn_impls[(ty, 'clone_and_box')] = lambda eng, st1, a: eng.alloc(st1, a[0])
    c_box = e.alloc(st, T([], 'harness::Scripted')); oe_box = e.alloc(st, T([], 'harness::OnError'))
    commands = T([M([(True, mk_str('c'), c_box), (has_on_error, mk_str('on_error'), oe_box)]), M([])], 'types::command::Commands')
    variables = M([(x0 > 0, mk_str('x'), choose(x0 - 1, VALUES)), (y0 > 0, mk_str('y'), choose(y0 - 1, VALUES))])
    context = T([variables, M([]), commands], 'types::runtime::Context')
    env = some(T([Opaque('out'), Opaque('err'), e.alloc(st, False)], 'types::env::Env'))
    return prog, res, oer, has_on_error, halt, (x0, y0), st, context, env, log


def spec_run(prog, res, oer, has_on_error, halt, init, J):
    """the abstract machine of the property statement, in lockstep with the runner's fetch/execute iterations"""
    n = prog.n
    label_line = []
    for t in range(len(LABELS)):           # later duplicates win
        ln = -1
        for i in range(n): ln = zite(zand(prog.kind[i] == 1, prog.label[i] == t + 1), i, ln)
        label_line.append(simp(ln))
    pc = 0; ended = False; okres = True; err_i = -1; halted_at = -1
    store = [init[0], init[1]]            # index into VALUES+1 (0 = undefined); 5 = the text "false"
    FALSE = len(VALUES) + 1
    inv = []; oei = []
    for j in range(J + 1):
        live = simp(znot(ended))
        h = zand(live, halt[j]) if halt[j] is not False else False
        ended = zor(ended, h); live = zand(live, znot(h))
        atend = zand(live, pc >= n)
        ended = zor(ended, atend); live = zand(live, znot(atend))
        if j == J:
            cut = live; break
        kind = sel(prog.kind, pc, 0); cmd = sel(prog.cmd, pc, 0); out = sel(prog.out, pc, 0); arg = sel(prog.arg, pc, 0)
        is_script = zand(live, zeq(kind, 1))
        nocmd = zand(is_script, zeq(cmd, 0)); unknown = zand(is_script, zeq(cmd, 2)); invoked = zand(is_script, zeq(cmd, 1))
        seen_arg = zite(zeq(arg, 0), -1, store[0])     # -1 = the literal k ; else current value index of x
        inv.append((simp(invoked), pc, seen_arg, out))
        rk = res.k(j)
        # output variable update
        def upd(store, cond, val):
            return [zite(zand(cond, zeq(out, 1)), val, store[0]), zite(zand(cond, zeq(out, 2)), val, store[1])]
        c_cont = zand(invoked, zeq(rk, CONT)); c_goto = zand(invoked, zeq(rk, GOTO)); c_err = zand(invoked, zeq(rk, ERROR))
        c_crash = zand(invoked, zeq(rk, CRASH)); c_exit = zand(invoked, zeq(rk, EXIT))
        store = upd(store, zor(c_cont, c_goto, c_exit), res.out[j])
        store = upd(store, nocmd, 0)
        store = upd(store, c_err, FALSE)
        # goto target
        tl = sel(label_line + [-1], res.target[j], -1)
        bad_label = zand(c_goto, res.bylabel[j], tl < 0)
        newpc = zite(zand(c_goto, res.bylabel[j]), tl, zite(c_goto, res.gline[j], pc + 1))
        # exit with non-zero integer code fails ("0" ok; "1","7" fail; "v" / none ok)
        exit_fail = zand(c_exit, zor(zeq(res.out[j], 2), zeq(res.out[j], 3)))
        # error: on_error
        oe_inv = zand(c_err, has_on_error)
        oei.append((simp(oe_inv), res.msg[j], pc))
        oek = oer.k(j)
        oe_fail = zand(oe_inv, zor(zeq(oek, EXIT), zeq(oek, CRASH)))
        fail = zor(unknown, c_crash, bad_label, exit_fail, oe_fail)
        err_i = zite(fail, pc, err_i)
        okres = zand(okres, znot(fail))
        ended = zor(ended, fail, c_exit)
        pc = simp(zite(zand(live, znot(fail)), newpc, pc))
    return dict(inv=inv, oe=oei, ok=simp(okres), err_i=err_i, store=store, cut=simp(cut), FALSE=FALSE)


def val_text(idx, FALSE):
    """String for a store index (1..4 -> VALUES, FALSE -> 'false')"""
    r = mk_str('false')
    for k in range(len(VALUES) - 1, -1, -1): r = merge(zeq(idx, k + 1), mk_str(VALUES[k]), r)
    return r


def job_run(ctx, jr, n, J, halting=False, pid='C03'):
    jr.bounds = dict(program_lines=n, iterations=J, labels=LABELS, goto_targets=TARGETS + ['line 0..n+1'], outputs=OUTS, values=VALUES,
                     commands=CMDS, on_error='registered or not, result continue/exit/crash/error', halt='symbolic monotone flag per load' if halting else 'never raised')
    e = ctx.engine(unwind=J + 2); e.int_digits = 2
    t0 = time.time()
    prog, res, oer, has_on_error, halt, init, st, context, env, log = setup(ctx, e, n, J, halting)
    rs, rv = e.run('core', 'runner::run', [prog.value(), context, env], st)
    jr.symex_time = time.time() - t0
    if rs is None: raise Abort('runner::run never returns')
    sp = spec_run(prog, res, oer, has_on_error, halt, init, J)
    g = zand(rs.g, znot(sp['cut']))
    checks = []
    okc = simp(zeq(rv.d, 0))
    checks.append(('run succeeds iff the abstract machine does', zeq(okc, sp['ok'])))
    # final variables
    if 0 in rv.p:
        vars_ = rv.p[0][0].f[0]
        for vi, name in enumerate(OUTS):
            found, val, _ = map_lookup(e, rs, vars_, mk_str(name))
            exp = sp['store'][vi]
            checks.append(('final variable %s defined' % name, zimp(okc, zeq(found, exp > 0))))
            if found is not False: checks.append(('final variable %s value' % name, zimp(zand(okc, found), str_eq(val, val_text(exp, sp['FALSE'])))))
    # failing instruction's line and source
    if 1 in rv.p:
        errv = rv.p[1][0]
        RUNTIME = ctx.types.enums['types::error::ScriptError'].index('Runtime')
        checks.append(('failure is a Runtime error', zimp(znot(okc), zeq(errv.d, RUNTIME))))
        if RUNTIME in errv.p:
            meta_o = errv.p[RUNTIME][1]
            if 1 in meta_o.p:
                meta = meta_o.p[1][0]
                checks.append(('error carries the failing line', zimp(znot(okc), zand(zeq(meta_o.d, 1), zeq(meta.f[0].d, 1), zeq(meta.f[0].p[1][0], sel(prog.line, sp['err_i'], -1))))))
                checks.append(('error carries the failing source', zimp(znot(okc), zeq(zeq(meta.f[1].d, 1), sel(prog.src, sp['err_i'], False)))))
    # invocation log, iteration by iteration
    for j in range(J):
        invoked, pc, seen, out = sp['inv'][j]
        lg = log['cmd'].get(j)
        checks.append(('iteration %d: command invoked iff the machine invokes it' % j, zeq(lg[0] if lg else False, invoked) if not halting else zimp(lg[0] if lg else False, invoked)))
        if lg:
            gq, line, args, outvar = lg
            both = zand(gq, invoked)
            checks.append(('iteration %d: command sees its instruction index' % j, zimp(both, zeq(line, pc))))
            exp_arg = merge(zeq(seen, -1), mk_str('k'), merge(zeq(seen, 0), S(0, []), val_text(seen, sp['FALSE'])))
            checks.append(('iteration %d: command sees the bound argument' % j, zimp(both, zand(zeq(args.len, 1), str_eq(args.it[0], exp_arg)))))
            checks.append(('iteration %d: command sees the output variable' % j, zimp(both, zeq(outvar.d, zite(out > 0, 1, 0)))))
        oinv, msg, opc = sp['oe'][j]
        lo = log['oe'].get(j)
        checks.append(('iteration %d: on_error invoked iff an error is reported and it exists' % j, zeq(lo[0] if lo else False, oinv) if not halting else zimp(lo[0] if lo else False, oinv)))
        if lo:
            gq, args = lo
            both = zand(gq, oinv)
            from mirsym.models import int_to_str
            checks.append(('iteration %d: on_error receives message, line, source' % j, zimp(both, zand(
                zeq(args.len, 3), str_eq(args.it[0], choose(msg, MSGS)),
                str_eq(args.it[1], S(1, [sel(prog.line, opc, 0) + 48])),
                str_eq(args.it[2], merge(sel(prog.src, opc, False), mk_str('f.ds'), S(0, [])))))))
    if halting:
        # C13: nothing is started at or after the first load that returned true; the run succeeds with the store of that instant
        for j in range(J):
            lg = log['cmd'].get(j)
            if lg: checks.append(('no command starts once the halt flag was seen raised (iteration %d)' % j, zimp(halt[j], znot(lg[0]))))
    for msg, c in checks: e.obligations.append(Obligation(g, c, '%s: %s' % (pid, msg), 'assert', 'oracle'))

    def extract(m, o=None):
        lines = prog.text(m)
        results = [res.describe(m, j) for j in range(J)]
        oes = [oer.describe(m, j) for j in range(J)]
        return dict(kind='c03', script='\n'.join(lines), lines=[solve.model_int(m, l) for l in prog.line], results=results, on_error_results=oes,
                    has_on_error=solve.model_bool(m, has_on_error), vars={k: VALUES[solve.model_int(m, v) - 1] for k, v in zip(OUTS, init) if solve.model_int(m, v) > 0},
                    halt=[solve.model_bool(m, h) for h in halt] if halting else None, n=n, J=J)
    resd = discharge_known(e, jr, pid, {}, extract)
    witness(jr, e, 'backward goto by label then exit', zand(g, *( [zeq(res.k(0), GOTO), res.bylabel[0]] + ([zeq(res.k(J - 1), EXIT)] if not halting else []))), extract, optional=True)
    witness(jr, e, 'error reported to on_error', zand(g, sp['oe'][0][0]), extract)
    if halting: witness(jr, e, 'halt raised in the middle of a looping run', zand(g, znot(halt[1]), halt[J - 1], zeq(res.k(0), GOTO)), extract, optional=True)
    H.finish_job(jr, e, resd)


# ---------------------------------------------------------------------- native replay
def py_machine(v):
    """concrete abstract machine on the replayed case (iteration-indexed results)"""
    lines = v['script'].split('\n'); n = v['n']
    prog = []
    for l in lines:
        toks = l.split()
        d = dict(label=None, out=None, cmd=None, arg=None, empty=(l == ''))
        if toks and toks[0].startswith(':'): d['label'] = toks.pop(0)
        if len(toks) >= 2 and toks[1] == '=': d['out'] = toks[0]; toks = toks[2:]
        if toks: d['cmd'] = toks[0]; d['arg'] = toks[1]
        prog.append(d)
    labels = {}
    for i, d in enumerate(prog):
        if d['label']: labels[d['label']] = i
    store = dict(v['vars']); pc = 0; log = []; ok = True; err = None
    halt = v.get('halt') or [False] * (v['J'] + 1)
    for j in range(v['J'] + 1):
        if halt[j] or pc >= n: break
        if j == v['J']: return None
        d = prog[pc]
        if d['empty']: pc += 1; continue
        out = d['out']
        if d['cmd'] is None:
            if out: store.pop(out, None)
            pc += 1; continue
        if d['cmd'] == 'nope': ok = False; err = pc; break
        arg = 'k' if d['arg'] == 'k' else store.get('x', '')
        log.append(dict(command='c', line=pc, arguments=[arg]))
        r = v['results'][j]; k = r['kind']
        def setout(val):
            if out:
                if val is None: store.pop(out, None)
                else: store[out] = val
        if k == 'continue': setout(r.get('output')); pc += 1
        elif k in ('goto_label', 'goto_line'):
            setout(r.get('output'))
            if k == 'goto_label':
                if r['label'] not in labels: ok = False; err = pc; break
                pc = labels[r['label']]
            else: pc = r['line']
        elif k == 'exit':
            setout(r.get('output'))
            if r.get('output') in ('1', '7'): ok = False; err = pc
            break
        elif k == 'crash': ok = False; err = pc; break
        elif k == 'error':
            setout('false')
            if v['has_on_error']:
                log.append(dict(command='on_error', arguments=[r['message'], str(v['lines'][pc]), '']))
                ok_ = v['on_error_results'][j]['kind']
                if ok_ in ('exit', 'crash'): ok = False; err = pc; break
            pc += 1
    return dict(ok=ok, err_line=(err + 1) if err is not None else None, vars=store, log=log)


def replayer(v):
    # iteration-indexed results -> invocation-ordered queues for the native scripted commands
    sp = py_machine(v)
    if sp is None: return (None, 'counterexample exceeds the iteration bound')
    lines = v['script'].split('\n'); n = v['n']
    # walk the machine again to know which iterations invoke
    q = []; oq = []; halt = v.get('halt') or [False] * (v['J'] + 1)
    # simple re-simulation to collect the result of each invoking iteration in order
    import copy
    prog = lines
    state = dict(pc=0)
    sim = copy.deepcopy(v)
    # reuse py_machine by instrumenting: collect indices
    inv_iters = []
    def collect():
        lines_ = v['script'].split('\n'); labels = {}
        progd = []
        for l in lines_:
            toks = l.split(); d = dict(label=None, out=None, cmd=None, empty=(l == ''))
            if toks and toks[0].startswith(':'): d['label'] = toks.pop(0)
            if len(toks) >= 2 and toks[1] == '=': d['out'] = toks[0]; toks = toks[2:]
            if toks: d['cmd'] = toks[0]
            progd.append(d)
        for i, d in enumerate(progd):
            if d['label']: labels[d['label']] = i
        pc = 0
        for j in range(v['J']):
            if halt[j] or pc >= n: break
            d = progd[pc]
            if d['empty'] or d['cmd'] is None: pc += 1; continue
            if d['cmd'] == 'nope': break
            inv_iters.append(j); r = v['results'][j]; k = r['kind']
            if k == 'continue' or k == 'error': pc += 1
            elif k == 'goto_label':
                if r['label'] not in labels: break
                pc = labels[r['label']]
            elif k == 'goto_line': pc = r['line']
            else: break
            if k == 'error' and v['has_on_error'] and v['on_error_results'][j]['kind'] in ('exit', 'crash'): break
    collect()
    first_halt = next((j for j, h in enumerate(halt) if h), None)
    for j in inv_iters:
        r = dict(v['results'][j]); q.append(r)
        if r['kind'] == 'error': oq.append(dict(v['on_error_results'][j]))
    if first_halt is not None:
        # raise the native flag from inside the last command that runs before the halting load
        prev = [j for j in inv_iters if j < first_halt]
        if prev: q[len(prev) - 1]['halt'] = True
        elif first_halt == 0: return (None, 'halt before the first instruction: not replayable through a command')
        else: return (None, 'halt raised in an iteration without command: not replayable through a command')
        q = q[:len(prev)]
    cmds = ['c'] + (['on_error'] if v['has_on_error'] else [])
    out = H.replay(dict(mode='scripted', script=v['script'], commands=cmds, results=q, on_error_results=oq, vars=v['vars']))
    v['native'] = out; v['spec'] = sp
    if out.get('panic'): return (True, 'native panic')
    if bool(out.get('ok')) != sp['ok']: return (True, 'native ok=%r, machine ok=%r' % (out.get('ok'), sp['ok']))
    nlog = [dict(command=l['command'], arguments=l['arguments'], **({'line': l['line']} if l['command'] == 'c' else {})) for l in out.get('log', [])]
    if nlog != sp['log']: return (True, 'native log %r, machine log %r' % (nlog, sp['log']))
    if out.get('ok'):
        if out['vars'] != sp['vars']: return (True, 'native vars %r, machine vars %r' % (out['vars'], sp['vars']))
    else:
        if out['error'].get('line') != sp['err_line']: return (True, 'native error line %r, machine %r' % (out['error'].get('line'), sp['err_line']))
    return (False, 'native agrees with the abstract machine')


def main(tier, seed, pid='C03', halting=False):
    chk = H.Check(pid, tier, seed, crates=('core',))
    chk.replayer = replayer
    if tier == 'quick':
        chk.job(job_run, 'run:3lines,5iter', n=3, J=5, halting=halting, pid=pid)
        chk.job(job_run, 'run:4lines,4iter', n=4, J=4, halting=halting, pid=pid)
        chk.bounds = dict(programs='<= 3 lines x 5 fetch/execute iterations and <= 4 lines x 4 iterations')
    else:
        chk.job(job_run, 'run:3lines,7iter', n=3, J=7, halting=halting, pid=pid)
        chk.job(job_run, 'run:4lines,6iter', n=4, J=6, halting=halting, pid=pid)
        chk.job(job_run, 'run:5lines,5iter', n=5, J=5, halting=halting, pid=pid)
        chk.bounds = dict(programs='<= 3 lines x 7 iterations, <= 4 x 6, <= 5 x 5')
    chk.assumptions = ['programs are given as instruction vectors to runner::run (run_script = parse_text + run; the parser half is C01/C08)',
                       'scripted commands are harness models returning a fully symbolic CommandResult per fetch/execute iteration',
                       'runs that need more iterations than the bound are outside the claim', 'REPL mode not covered',
                       'source line numbers 1..9 symbolic per instruction, source file none or f.ds']
    results = chk.run()
    return chk.finish(results, 'every obligation is a solver query over all programs, command results and initial variables within the bounds')
