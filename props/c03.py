"""C03 - the runner executes exactly what the command results dictate (also drives C13: halt flag)."""
import time
import z3
from mirsym import harness as H, solve
from mirsym.values import *
from mirsym.engine import State, Obligation, some, none, OPTION
from mirsym.harness import process_failed, witness, discharge_known
from mirsym.models import map_lookup, str_concat
from .common import *

PID = 'C03'
CR = 'types::command::CommandResult'; GV = 'types::command::GoToValue'
CONT, GOTO, ERROR, CRASH, EXIT = 0, 1, 2, 3, 4
LABELS = [':a', ':b']; TARGETS = [':a', ':b', ':zz']; OUTS = ['x', 'y']; VALUES = ['0', '1', '7', 'v']
CMDS = ['c', 'nope']; ARGS = ['k', '${x}']; MSGS = ['e1', 'e2']


def choose(idx, options):
    """merge of concrete strings selected by a symbolic index"""
    r = mk_str(options[-1])
    for j in range(len(options) - 2, -1, -1): r = merge(idx == j, mk_str(options[j]), r)
    return r


def opt_choose(idx, options):
    """Option<String>: index 0 = None, k = Some(options[k-1])"""
    return E(OPTION, zite(idx == 0, 0, 1), {0: [], 1: [choose(idx - 1, options)]})


class Program:
    def __init__(s, e, n):
        s.n = n
        s.kind = [e.fresh_int('i%d.kind' % i, 0, 1) for i in range(n)]         # 0 empty, 1 script
        s.label = [e.fresh_int('i%d.label' % i, 0, len(LABELS)) for i in range(n)]
        s.out = [e.fresh_int('i%d.out' % i, 0, len(OUTS)) for i in range(n)]
        s.cmd = [e.fresh_int('i%d.cmd' % i, 0, len(CMDS)) for i in range(n)]
        s.arg = [e.fresh_int('i%d.arg' % i, 0, len(ARGS) - 1) for i in range(n)]
        s.line = [e.fresh_int('i%d.line' % i, 1, 9) for i in range(n)]
        s.src = [e.fresh_bool('i%d.hassrc' % i) for i in range(n)]

    def value(s):
        items = []
        for i in range(s.n):
            meta = T([some(s.line[i]), E(OPTION, zite(s.src[i], 1, 0), {0: [], 1: [mk_str('f.ds')]})], 'types::instruction::InstructionMetaInfo')
            si = T([opt_choose(s.label[i], LABELS), opt_choose(s.out[i], OUTS), opt_choose(s.cmd[i], CMDS),
                    some(V(1, [choose(s.arg[i], ARGS)]))], 'types::instruction::ScriptInstruction')
            ity = E('types::instruction::InstructionType', zite(s.kind[i] == 0, 0, 2), {0: [], 2: [si]})
            items.append(T([meta, ity], 'types::instruction::Instruction'))
        return V(s.n, items)

    def text(s, m):
        lines = []
        for i in range(s.n):
            if solve.model_int(m, s.kind[i]) == 0: lines.append(''); continue
            l = solve.model_int(m, s.label[i]); o = solve.model_int(m, s.out[i]); c = solve.model_int(m, s.cmd[i]); a = solve.model_int(m, s.arg[i])
            parts = []
            if l: parts.append(LABELS[l - 1])
            if o: parts.append(OUTS[o - 1] + ' =')
            if c: parts.append(CMDS[c - 1] + ' ' + ARGS[a])
            lines.append(' '.join(parts))
        return lines


class Results:
    """one symbolic command result per fetch/execute iteration, and one for on_error"""

    def __init__(s, e, J, n, tag, kinds):
        s.kind = [e.fresh_int('%s%d.kind' % (tag, j), 0, len(kinds) - 1) for j in range(J)]
        s.kinds = kinds
        s.out = [e.fresh_int('%s%d.out' % (tag, j), 0, len(VALUES)) for j in range(J)]
        s.target = [e.fresh_int('%s%d.target' % (tag, j), 0, len(TARGETS) - 1) for j in range(J)]
        s.bylabel = [e.fresh_bool('%s%d.bylabel' % (tag, j)) for j in range(J)]
        s.gline = [e.fresh_int('%s%d.line' % (tag, j), 0, n + 1) for j in range(J)]
        s.msg = [e.fresh_int('%s%d.msg' % (tag, j), 0, len(MSGS) - 1) for j in range(J)]

    def k(s, j):
        """CommandResult variant index at iteration j"""
        r = s.kinds[-1]
        for q in range(len(s.kinds) - 2, -1, -1): r = zite(s.kind[j] == q, s.kinds[q], r)
        return r

    def value(s, j):
        out = opt_choose(s.out[j], VALUES); msg = choose(s.msg[j], MSGS)
        gv = E(GV, zite(s.bylabel[j], 0, 1), {0: [choose(s.target[j], TARGETS)], 1: [s.gline[j]]})
        return E(CR, s.k(j), {CONT: [out], GOTO: [out, gv], ERROR: [msg], CRASH: [msg], EXIT: [out]})

    def describe(s, m, j):
        k = solve.model_int(m, s.k(j)); o = solve.model_int(m, s.out[j])
        d = {'kind': ['continue', 'goto', 'error', 'crash', 'exit'][k]}
        if k in (CONT, GOTO, EXIT) and o: d['output'] = VALUES[o - 1]
        if k == GOTO:
            if solve.model_bool(m, s.bylabel[j]): d['kind'] = 'goto_label'; d['label'] = TARGETS[solve.model_int(m, s.target[j])]
            else: d['kind'] = 'goto_line'; d['line'] = solve.model_int(m, s.gline[j])
        if k in (ERROR, CRASH): d['message'] = MSGS[solve.model_int(m, s.msg[j])]
        return d


def setup(ctx, e, n, J, halting):
    prog = Program(e, n)
    res = Results(e, J, n, 'r', [CONT, GOTO, ERROR, CRASH, EXIT])
    oer = Results(e, J, n, 'oe', [CONT, EXIT, CRASH, ERROR])
    has_on_error = e.fresh_bool('has_on_error')
    halt = [e.fresh_bool('halt%d' % j) for j in range(J + 1)] if halting else [False] * (J + 1)
    if halting:
        for j in range(J): e.assume(z3.Implies(halt[j], halt[j + 1]))       # monotone: once raised it stays raised
    x0 = e.fresh_int('x0', 0, len(VALUES)); y0 = e.fresh_int('y0', 0, len(VALUES))
    st = State(True, {})
    log = {'it': -1, 'cmd': {}, 'oe': {}}

    def h_load(eng, st1, a, callee):
        log['it'] += 1
        j = log['it']
        if j > J: st1.g = False; return False          # runs of more than J iterations are outside the claim
        return halt[j]

    def h_run(eng, st1, a):
        j = log['it']; ctxv = a[1]
        if j >= J: st1.g = False; return POISON          # cut: more than J fetch/execute iterations
        log['cmd'][j] = (st1.g, ctxv.f[6], ctxv.f[0], ctxv.f[3])
        return res.value(j)

    def h_oe(eng, st1, a):
        j = log['it']; ctxv = a[1]
        if j >= J: st1.g = False; return POISON
        log['oe'][j] = (st1.g, ctxv.f[0])
        return oer.value(j)
    e.hooks['std::sync::atomic::Atomic::<bool>::load'] = h_load
    e.dyn_impls[('harness::Scripted', 'run')] = h_run
    e.dyn_impls[('harness::OnError', 'run')] = h_oe
    for ty in ('harness::Scripted', 'harness::OnError'):
        e.dyn_impls[(ty, 'clone_and_box')] = lambda eng, st1, a: eng.alloc(st1, a[0])
    c_box = e.alloc(st, T([], 'harness::Scripted')); oe_box = e.alloc(st, T([], 'harness::OnError'))
    commands = T([M([(True, mk_str('c'), c_box), (has_on_error, mk_str('on_error'), oe_box)]), M([])], 'types::command::Commands')
    variables = M([(x0 > 0, mk_str('x'), choose(x0 - 1, VALUES)), (y0 > 0, mk_str('y'), choose(y0 - 1, VALUES))])
    context = T([variables, M([]), commands], 'types::runtime::Context')
    env = some(T([Opaque('out'), Opaque('err'), e.alloc(st, False)], 'types::env::Env'))
    return prog, res, oer, has_on_error, halt, (x0, y0), st, context, env, log


def spec_run(prog, res, oer, has_on_error, halt, init, J):
    """the abstract machine of the property statement, in lockstep with the runner's fetch/execute iterations"""
    n = prog.n
    label_line = []
    for t in range(len(LABELS)):           # later duplicates win
        ln = -1
        for i in range(n): ln = zite(zand(prog.kind[i] == 1, prog.label[i] == t + 1), i, ln)
        label_line.append(simp(ln))
    pc = 0; ended = False; okres = True; err_i = -1; halted_at = -1
    store = [init[0], init[1]]            # index into VALUES+1 (0 = undefined); 5 = the text "false"
    FALSE = len(VALUES) + 1
    inv = []; oei = []
    for j in range(J + 1):
        live = simp(znot(ended))
        h = zand(live, halt[j]) if halt[j] is not False else False
        ended = zor(ended, h); live = zand(live, znot(h))
        atend = zand(live, pc >= n)
        ended = zor(ended, atend); live = zand(live, znot(atend))
        if j == J:
            cut = live; break
        kind = sel(prog.kind, pc, 0); cmd = sel(prog.cmd, pc, 0); out = sel(prog.out, pc, 0); arg = sel(prog.arg, pc, 0)
        is_script = zand(live, zeq(kind, 1))
        nocmd = zand(is_script, zeq(cmd, 0)); unknown = zand(is_script, zeq(cmd, 2)); invoked = zand(is_script, zeq(cmd, 1))
        seen_arg = zite(zeq(arg, 0), -1, store[0])     # -1 = the literal k ; else current value index of x
        inv.append((simp(invoked), pc, seen_arg, out))
        rk = res.k(j)
        # output variable update
        def upd(store, cond, val):
            return [zite(zand(cond, zeq(out, 1)), val, store[0]), zite(zand(cond, zeq(out, 2)), val, store[1])]
        c_cont = zand(invoked, zeq(rk, CONT)); c_goto = zand(invoked, zeq(rk, GOTO)); c_err = zand(invoked, zeq(rk, ERROR))
        c_crash = zand(invoked, zeq(rk, CRASH)); c_exit = zand(invoked, zeq(rk, EXIT))
        store = upd(store, zor(c_cont, c_goto, c_exit), res.out[j])
        store = upd(store, nocmd, 0)
        store = upd(store, c_err, FALSE)
        # goto target
        tl = sel(label_line + [-1], res.target[j], -1)
        bad_label = zand(c_goto, res.bylabel[j], tl < 0)
        newpc = zite(zand(c_goto, res.bylabel[j]), tl, zite(c_goto, res.gline[j], pc + 1))
        # exit with non-zero integer code fails ("0" ok; "1","7" fail; "v" / none ok)
        exit_fail = zand(c_exit, zor(zeq(res.out[j], 2), zeq(res.out[j], 3)))
        # error: on_error
        oe_inv = zand(c_err, has_on_error)
        oei.append((simp(oe_inv), res.msg[j], pc))
        oek = oer.k(j)
        oe_fail = zand(oe_inv, zor(zeq(oek, EXIT), zeq(oek, CRASH)))
        fail = zor(unknown, c_crash, bad_label, exit_fail, oe_fail)
        err_i = zite(fail, pc, err_i)
        okres = zand(okres, znot(fail))
        ended = zor(ended, fail, c_exit)
        pc = simp(zite(zand(live, znot(fail)), newpc, pc))
    return dict(inv=inv, oe=oei, ok=simp(okres), err_i=err_i, store=store, cut=simp(cut), FALSE=FALSE)


def val_text(idx, FALSE):
    """String for a store index (1..4 -> VALUES, FALSE -> 'false')"""
    r = mk_str('false')
    for k in range(len(VALUES) - 1, -1, -1): r = merge(zeq(idx, k + 1), mk_str(VALUES[k]), r)
    return r


def job_run(ctx, jr, n, J, halting=False, pid='C03'):
    jr.bounds = dict(program_lines=n, iterations=J, labels=LABELS, goto_targets=TARGETS + ['line 0..n+1'], outputs=OUTS, values=VALUES,
                     commands=CMDS, on_error='registered or not, result continue/exit/crash/error', halt='symbolic monotone flag per load' if halting else 'never raised')
    e = ctx.engine(unwind=J + 2); e.int_digits = 2
    t0 = time.time()
    prog, res, oer, has_on_error, halt, init, st, context, env, log = setup(ctx, e, n, J, halting)
    rs, rv = e.run('core', 'runner::run', [prog.value(), context, env], st)
    jr.symex_time = time.time() - t0
    if rs is None: raise Abort('runner::run never returns')
    sp = spec_run(prog, res, oer, has_on_error, halt, init, J)
    g = zand(rs.g, znot(sp['cut']))
    checks = []
    okc = simp(zeq(rv.d, 0))
    checks.append(('run succeeds iff the abstract machine does', zeq(okc, sp['ok'])))
    # final variables
    if 0 in rv.p:
        vars_ = rv.p[0][0].f[0]
        for vi, name in enumerate(OUTS):
            found, val, _ = map_lookup(e, rs, vars_, mk_str(name))
            exp = sp['store'][vi]
            checks.append(('final variable %s defined' % name, zimp(okc, zeq(found, exp > 0))))
            if found is not False: checks.append(('final variable %s value' % name, zimp(zand(okc, found), str_eq(val, val_text(exp, sp['FALSE'])))))
    # failing instruction's line and source
    if 1 in rv.p:
        errv = rv.p[1][0]
        RUNTIME = ctx.types.enums['types::error::ScriptError'].index('Runtime')
        checks.append(('failure is a Runtime error', zimp(znot(okc), zeq(errv.d, RUNTIME))))
        if RUNTIME in errv.p:
            meta_o = errv.p[RUNTIME][1]
            if 1 in meta_o.p:
                meta = meta_o.p[1][0]
                checks.append(('error carries the failing line', zimp(znot(okc), zand(zeq(meta_o.d, 1), zeq(meta.f[0].d, 1), zeq(meta.f[0].p[1][0], sel(prog.line, sp['err_i'], -1))))))
                checks.append(('error carries the failing source', zimp(znot(okc), zeq(zeq(meta.f[1].d, 1), sel(prog.src, sp['err_i'], False)))))
    # invocation log, iteration by iteration
    for j in range(J):
        invoked, pc, seen, out = sp['inv'][j]
        lg = log['cmd'].get(j)
        checks.append(('iteration %d: command invoked iff the machine invokes it' % j, zeq(lg[0] if lg else False, invoked) if not halting else zimp(lg[0] if lg else False, invoked)))
        if lg:
            gq, line, args, outvar = lg
            both = zand(gq, invoked)
            checks.append(('iteration %d: command sees its instruction index' % j, zimp(both, zeq(line, pc))))
            exp_arg = merge(zeq(seen, -1), mk_str('k'), merge(zeq(seen, 0), S(0, []), val_text(seen, sp['FALSE'])))
            checks.append(('iteration %d: command sees the bound argument' % j, zimp(both, zand(zeq(args.len, 1), str_eq(args.it[0], exp_arg)))))
            checks.append(('iteration %d: command sees the output variable' % j, zimp(both, zeq(outvar.d, zite(out > 0, 1, 0)))))
        oinv, msg, opc = sp['oe'][j]
        lo = log['oe'].get(j)
        checks.append(('iteration %d: on_error invoked iff an error is reported and it exists' % j, zeq(lo[0] if lo else False, oinv) if not halting else zimp(lo[0] if lo else False, oinv)))
        if lo:
            gq, args = lo
            both = zand(gq, oinv)
            from mirsym.models import int_to_str
            checks.append(('iteration %d: on_error receives message, line, source' % j, zimp(both, zand(
                zeq(args.len, 3), str_eq(args.it[0], choose(msg, MSGS)),
                str_eq(args.it[1], S(1, [sel(prog.line, opc, 0) + 48])),
                str_eq(args.it[2], merge(sel(prog.src, opc, False), mk_str('f.ds'), S(0, [])))))))
    if halting:
        # C13: nothing is started at or after the first load that returned true; the run succeeds with the store of that instant
        for j in range(J):
            lg = log['cmd'].get(j)
            if lg: checks.append(('no command starts once the halt flag was seen raised (iteration %d)' % j, zimp(halt[j], znot(lg[0]))))
    for msg, c in checks: e.obligations.append(Obligation(g, c, '%s: %s' % (pid, msg), 'assert', 'oracle'))

    def extract(m, o=None):
        lines = prog.text(m)
        results = [res.describe(m, j) for j in range(J)]
        oes = [oer.describe(m, j) for j in range(J)]
        return dict(kind='c03', script='\n'.join(lines), lines=[solve.model_int(m, l) for l in prog.line], results=results, on_error_results=oes,
                    has_on_error=solve.model_bool(m, has_on_error), vars={k: VALUES[solve.model_int(m, v) - 1] for k, v in zip(OUTS, init) if solve.model_int(m, v) > 0},
                    halt=[solve.model_bool(m, h) for h in halt] if halting else None, n=n, J=J)
    resd = discharge_known(e, jr, pid, {}, extract)
    witness(jr, e, 'backward goto by label then exit', zand(g, *( [zeq(res.k(0), GOTO), res.bylabel[0]] + ([zeq(res.k(J - 1), EXIT)] if not halting else []))), extract, optional=True)
    witness(jr, e, 'error reported to on_error', zand(g, sp['oe'][0][0]), extract)
    if halting: witness(jr, e, 'halt raised in the middle of a looping run', zand(g, znot(halt[1]), halt[J - 1], zeq(res.k(0), GOTO)), extract, optional=True)
    H.finish_job(jr, e, resd)


# ---------------------------------------------------------------------- native replay
def exit_code_fails(out):
    """str::parse::<i32> succeeds with a non-zero value"""
    import re
    if out is None or not re.fullmatch(r'[+-]?[0-9]+', out): return False
    n_ = int(out)
    return -2**31 <= n_ < 2**31 and n_ != 0


def py_machine(v):
    """concrete abstract machine on the replayed case (iteration-indexed results)"""
    lines = v['script'].split('\n'); n = v['n']
    prog = []
    for l in lines:
        toks = l.split()
        d = dict(label=None, out=None, cmd=None, arg=None, empty=(l == ''))
        if toks and toks[0].startswith(':'): d['label'] = toks.pop(0)
        if len(toks) >= 2 and toks[1] == '=': d['out'] = toks[0]; toks = toks[2:]
        if toks: d['cmd'] = toks[0]; d['arg'] = toks[1]
        prog.append(d)
    labels = {}
    for i, d in enumerate(prog):
        if d['label']: labels[d['label']] = i
    store = dict(v['vars']); pc = 0; log = []; ok = True; err = None
    halt = v.get('halt') or [False] * (v['J'] + 1)
    for j in range(v['J'] + 1):
        if halt[j] or pc >= n: break
        if j == v['J']: return None
        d = prog[pc]
        if d['empty']: pc += 1; continue
        out = d['out']
        if d['cmd'] is None:
            if out: store.pop(out, None)
            pc += 1; continue
        if d['cmd'] == 'nope': ok = False; err = pc; break
        arg = 'k' if d['arg'] == 'k' else store.get('x', '')
        log.append(dict(command='c', line=pc, arguments=[arg]))
        r = v['results'][j]; k = r['kind']
        def setout(val):
            if out:
                if val is None: store.pop(out, None)
                else: store[out] = val
        if k == 'continue': setout(r.get('output')); pc += 1
        elif k in ('goto_label', 'goto_line'):
            setout(r.get('output'))
            if k == 'goto_label':
                if r['label'] not in labels: ok = False; err = pc; break
                pc = labels[r['label']]
            else: pc = r['line']
        elif k == 'exit':
            setout(r.get('output'))
            if exit_code_fails(r.get('output')): ok = False; err = pc
            break
        elif k == 'crash': ok = False; err = pc; break
        elif k == 'error':
            setout('false')
            if v['has_on_error']:
                log.append(dict(command='on_error', arguments=[r['message'], str(v['lines'][pc]), '']))
                ok_ = v['on_error_results'][j]['kind']
                if ok_ in ('exit', 'crash'): ok = False; err = pc; break
            pc += 1
    return dict(ok=ok, err_line=(err + 1) if err is not None else None, vars=store, log=log)


def lemma_panel(halting=False):
    """concrete runs used to confirm a failed step lemma natively (the verdict came from the solver): every result kind at the
    first and at a later iteration, with and without error handler, over a program with labels, outputs and a reference to x"""
    script = ':a x = c k\ny = c ${x}\n:b c k\nx =\ny = c k'
    cont = {'kind': 'continue', 'output': 'v'}
    kinds = [{'kind': 'continue'}, cont, {'kind': 'goto_label', 'label': ':b', 'output': '1'}, {'kind': 'goto_label', 'label': ':a'}, {'kind': 'goto_label', 'label': ':zz'},
             {'kind': 'goto_line', 'line': 2, 'output': '7'}, {'kind': 'goto_line', 'line': 9}, {'kind': 'goto_line', 'line': 0}, {'kind': 'error', 'message': 'e1'},
             {'kind': 'crash', 'message': 'e2'}, {'kind': 'exit'}, {'kind': 'exit', 'output': '0'}, {'kind': 'exit', 'output': '7'}, {'kind': 'exit', 'output': 'v'}, {'kind': 'exit', 'output': '-1'}]
    oes = [{'kind': 'continue'}, {'kind': 'exit'}, {'kind': 'crash', 'message': 'e2'}, {'kind': 'error', 'message': 'e1'}]
    J = 6; cases = []
    for pos in (0, 1, 2):
        for k in kinds:
            for has in ((False, True) if k['kind'] == 'error' else (False,)):
                for oe in (oes if has else oes[:1]):
                    res = [dict(cont) for _ in range(J)]; res[pos] = dict(k)
                    if k['kind'].startswith('goto') and pos < J - 1: res[pos + 1] = {'kind': 'exit'}       # ends loops
                    for j in range(pos + 2, J): res[j] = {'kind': 'exit'}
                    cases.append(dict(kind='c03', script=script, lines=[1, 2, 3, 4, 5], results=res, on_error_results=[dict(oe) for _ in range(J)], has_on_error=has,
                                      vars={'x': '0', 'y': '1'} if pos else {}, halt=None, n=5, J=J))
                    if halting and not has:
                        cases.append(dict(cases[-1], halt=[j > pos for j in range(J + 1)], results=[dict(r) for r in res]))
    dup = ':a c k\n:a x = c k\n:a y = c k\nc k'
    for tgt in (':a', ':b'):
        cases.append(dict(kind='c03', script=dup, lines=[1, 2, 3, 4], results=[{'kind': 'goto_label', 'label': tgt}, {'kind': 'exit', 'output': 'v'}, {'kind': 'exit'}, {'kind': 'exit'}],
                          on_error_results=[oes[0]] * 4, has_on_error=False, vars={}, halt=None, n=4, J=4))
    cases.append(dict(kind='c03', script='x = c k\nnope k\ny = c k', lines=[1, 2, 3], results=[dict(cont)] * 4, on_error_results=[oes[0]] * 4, has_on_error=False, vars={}, halt=None, n=3, J=4))
    return cases


def replayer(v):
    if v.get('kind') == 'lemma':
        last = None
        for case in lemma_panel(v.get('halting', False)):
            got = replayer(case)
            if got[0]: v['native'] = case.get('native'); v['case'] = {k: x for k, x in case.items() if k not in ('native', 'spec')}; return (True, 'run %r: %s' % (case['results'][:3], got[1]))
            if got[0] is False: last = got
        return (False, 'the panel of runs behaves as the abstract machine natively') if last else (None, 'panel not replayable')
    # iteration-indexed results -> invocation-ordered queues for the native scripted commands
    sp = py_machine(v)
    if sp is None: return (None, 'counterexample exceeds the iteration bound')
    lines = v['script'].split('\n'); n = v['n']
    # walk the machine again to know which iterations invoke
    q = []; oq = []; halt = v.get('halt') or [False] * (v['J'] + 1)
    # simple re-simulation to collect the result of each invoking iteration in order
    import copy
    prog = lines
    state = dict(pc=0)
    sim = copy.deepcopy(v)
    # reuse py_machine by instrumenting: collect indices
    inv_iters = []
    def collect():
        lines_ = v['script'].split('\n'); labels = {}
        progd = []
        for l in lines_:
            toks = l.split(); d = dict(label=None, out=None, cmd=None, empty=(l == ''))
            if toks and toks[0].startswith(':'): d['label'] = toks.pop(0)
            if len(toks) >= 2 and toks[1] == '=': d['out'] = toks[0]; toks = toks[2:]
            if toks: d['cmd'] = toks[0]
            progd.append(d)
        for i, d in enumerate(progd):
            if d['label']: labels[d['label']] = i
        pc = 0
        for j in range(v['J']):
            if halt[j] or pc >= n: break
            d = progd[pc]
            if d['empty'] or d['cmd'] is None: pc += 1; continue
            if d['cmd'] == 'nope': break
            inv_iters.append(j); r = v['results'][j]; k = r['kind']
            if k == 'continue' or k == 'error': pc += 1
            elif k == 'goto_label':
                if r['label'] not in labels: break
                pc = labels[r['label']]
            elif k == 'goto_line': pc = r['line']
            else: break
            if k == 'error' and v['has_on_error'] and v['on_error_results'][j]['kind'] in ('exit', 'crash'): break
    collect()
    first_halt = next((j for j, h in enumerate(halt) if h), None)
    for j in inv_iters:
        r = dict(v['results'][j]); q.append(r)
        if r['kind'] == 'error': oq.append(dict(v['on_error_results'][j]))
    if first_halt is not None:
        # raise the native flag from inside the last command that runs before the halting load
        prev = [j for j in inv_iters if j < first_halt]
        if prev: q[len(prev) - 1]['halt'] = True
        elif first_halt == 0: return (None, 'halt before the first instruction: not replayable through a command')
        else: return (None, 'halt raised in an iteration without command: not replayable through a command')
        q = q[:len(prev)]
    cmds = ['c'] + (['on_error'] if v['has_on_error'] else [])
    out = H.replay(dict(mode='scripted', script=v['script'], commands=cmds, results=q, on_error_results=oq, vars=v['vars']))
    v['native'] = out; v['spec'] = sp
    if out.get('panic'): return (True, 'native panic')
    if bool(out.get('ok')) != sp['ok']: return (True, 'native ok=%r, machine ok=%r' % (out.get('ok'), sp['ok']))
    nlog = [dict(command=l['command'], arguments=l['arguments'], **({'line': l['line']} if l['command'] == 'c' else {})) for l in out.get('log', [])]
    if nlog != sp['log']: return (True, 'native log %r, machine log %r' % (nlog, sp['log']))
    if out.get('ok'):
        if out['vars'] != sp['vars']: return (True, 'native vars %r, machine vars %r' % (out['vars'], sp['vars']))
    else:
        if out['error'].get('line') != sp['err_line']: return (True, 'native error line %r, machine %r' % (out['error'].get('line'), sp['err_line']))
    return (False, 'native agrees with the abstract machine')


def main(tier, seed, pid='C03', halting=False, extra_jobs=(), replayer_fn=None):
    chk = H.Check(pid, tier, seed, crates=('core',))
    chk.replayer = replayer_fn or replayer
    if tier == 'quick':
        chk.job(job_run, 'run:3lines,5iter', n=3, J=5, halting=halting, pid=pid)
        chk.job(job_run, 'run:4lines,4iter', n=4, J=4, halting=halting, pid=pid)
        chk.bounds = dict(programs='<= 3 lines x 5 fetch/execute iterations and <= 4 lines x 4 iterations')
    else:
        chk.job(job_run, 'run:3lines,7iter', n=3, J=7, halting=halting, pid=pid)
        chk.job(job_run, 'run:4lines,6iter', n=4, J=6, halting=halting, pid=pid)
        chk.job(job_run, 'run:5lines,5iter', n=5, J=5, halting=halting, pid=pid)
        chk.bounds = dict(programs='<= 3 lines x 7 iterations, <= 4 x 6, <= 5 x 5')
    N = 5 if tier == 'quick' else 8
    chk.job(job_runner_step, 'step:run_instructions lemma', n=N, pid=pid, halting=halting)
    chk.job(job_run_instruction_lemma, 'step:run_instruction lemma', pid=pid)
    chk.job(job_on_error_lemma, 'step:on_error lemma', pid=pid)
    chk.job(job_create_runtime_lemma, 'step:label-table lemma', n=N, pid=pid)
    for fn_, name_, kw_ in extra_jobs: chk.job(fn_, name_, **kw_)
    chk.bounds['step_lemmas'] = 'one fetch/execute iteration from an arbitrary state over programs of 0..%d symbolic lines; callees as arbitrary results (DESIGN.md 8.7)' % N
    chk.assumptions = ['programs are given as instruction vectors to runner::run (run_script = parse_text + run; the parser half is C01/C08)',
                       'scripted commands are harness models returning a fully symbolic CommandResult per fetch/execute iteration',
                       'runs that need more iterations than the bound are outside the claim', 'REPL mode not covered',
                       'source line numbers 1..9 symbolic per instruction, source file none or f.ds']
    results = chk.run()
    return chk.finish(results, 'every obligation is a solver query over all programs, command results and initial variables within the bounds')


# ---------------------------------------------------------------------- step lemmas: programs and runs of any length
EXITS = ['0', '1', '7', 'v', '-1', '00', '']


def job_runner_step(ctx, jr, n, pid='C03', halting=False, only=None):
    """One fetch/execute iteration of run_instructions from an ARBITRARY state (instruction index, variables, label table, shared
    state), with run_instruction and run_on_error_instruction replaced by arbitrary results and arbitrary effects on the
    variables. A run is the iteration of this step, so the lemma covers programs and runs of any length."""
    from mirsym import induct
    from .c12 import map_eq
    jr.bounds = dict(program_lines='0..%d (symbolic length and content)' % n, instruction_index='any (0..n+2)', variables='x, y arbitrary before and after the command',
                     labels=LABELS, command='arbitrary result and output variable', on_error='arbitrary result', halt='symbolic',
                     claim='one-iteration lemma from an arbitrary state; a run is its iteration (DESIGN.md 8.7)')
    e = ctx.engine(unwind=3); e.int_digits = 2
    t0 = time.time()
    prog = Program(e, n); nlen = e.fresh_int('program.len', 0, n)
    instrs = prog.value(); instrs = V(nlen, instrs.it)
    st = State(True, {})
    def sym_vars(tag): return M([(e.fresh_bool('%s.%s.present' % (tag, k)), mk_str(k), H.sym_str(e, '%s.%s' % (tag, k), 2)) for k in OUTS])
    V0 = sym_vars('before'); VA = sym_vars('after_cmd'); VB = sym_vars('after_on_error')
    lab = M([(e.fresh_bool('label%d.present' % i), mk_str(l), e.fresh_int('label%d.line' % i, 0, n + 2)) for i, l in enumerate(LABELS)])
    SVT = 'types::runtime::StateValue'; k_ = ctx.types.enums[SVT].index('String')
    def sym_state(tag): return M([(e.fresh_bool('%s.present' % tag), mk_str('k'), E(SVT, k_, {k_: [H.sym_str(e, tag, 2)]}))])
    S0 = sym_state('state.before'); SA = sym_state('state.after_cmd')
    # the halt flag is a monotone function of time sampled by the loads: `halt` is its value at the instruction boundary that
    # opens the iteration; every load of the iteration returns a value that is at least that and at least the previous load
    halt = e.fresh_bool('halt_at_boundary') if halting else False
    loads = []

    def h_load(eng, st1, a, callee):
        if not halting: return False
        h = eng.fresh_bool('load%d' % len(loads))
        eng.assume(z3.Implies(halt, h))
        if loads: eng.assume(z3.Implies(loads[-1][1], h))
        loads.append((st1.g, h)); return h
    L = e.fresh_int('L', 0, n + 2)
    # command result
    rk = e.fresh_int('r.kind', 0, 4); rout = e.fresh_int('r.out', 0, len(EXITS)); rmsg = H.sym_str(e, 'r.msg', 2)
    bylabel = e.fresh_bool('r.bylabel'); target = e.fresh_int('r.target', 0, len(TARGETS) - 1); gline = e.fresh_int('r.line', 0, n + 3)
    ov = e.fresh_int('outvar', 0, len(OUTS))
    out_o = opt_choose(rout, EXITS)
    gv = E(GV, zite(bylabel, 0, 1), {0: [choose(target, TARGETS)], 1: [gline]})
    result = E(CR, rk, {CONT: [out_o], GOTO: [out_o, gv], ERROR: [rmsg], CRASH: [rmsg], EXIT: [out_o]})
    oe_err = e.fresh_bool('on_error.fails'); oe_msg = H.sym_str(e, 'on_error.msg', 2)
    calls = {'cmd': [], 'oe': []}

    def h_cmd(eng, st1, a, callee):
        calls['cmd'].append((st1.g, a[4], a[5], eng.deref(st1, a[1]), eng.deref(st1, a[2])))
        eng.store(st1, a[1], VA); eng.store(st1, a[2], SA)
        return T([result, opt_choose(ov, OUTS)])

    def h_oe(eng, st1, a, callee):
        calls['oe'].append((st1.g, a[4], a[5], eng.deref(st1, a[1])))
        eng.store(st1, a[1], VB)
        return E('std::result::Result', zite(oe_err, 1, 0), {0: [UNIT], 1: [oe_msg]})
    e.hooks['runner::run_instruction'] = h_cmd; e.hooks['runner::run_on_error_instruction'] = h_oe
    e.hooks['std::sync::atomic::Atomic::<bool>::load'] = h_load
    commands = T([M([]), M([])], 'types::command::Commands')
    context = T([V0, S0, commands], 'types::runtime::Context')
    env = T([Opaque('out'), Opaque('err'), e.alloc(st, False)], 'types::env::Env')
    runtime = T([some(instrs), lab, context, env], 'types::runtime::Runtime')
    fr = induct.capture(e, 'core', 'runner::run_instructions', [runtime, L, False], st)
    fr.require(['runtime', 'line', 'state'])
    ER = ctx.types.enums['runner::EndReason']
    obs = [(fr.st.g, zand(zeq(fr.get(fr.st, 'line'), L), zeq(fr.get(fr.st, 'end_reason').d, ER.index('ReachedEnd'))), 'entry: the run starts at the given instruction, end reason "reached end"')]
    loads.clear()
    exits, back = fr.step(fr.st.copy())
    goes_on = back.g if back is not None else False
    rets = fr.returns(exits)
    jr.symex_time += time.time() - t0
    # ---- the step of the abstract machine of the property statement
    # quiet: no load of this iteration sees the flag raised -> the machine step must happen in full. Otherwise the iteration may
    # only end the run *before* starting the instruction (obligations marked C13 below).
    quiet = zand(*[znot(h) for _, h in loads]) if loads else True
    live = quiet; fetch = zand(live, L < nlen)
    meta_L = T([some(sel(prog.line, L, 0)), E(OPTION, zite(sel(prog.src, L, False), 1, 0), {0: [], 1: [mk_str('f.ds')]})], 'types::instruction::InstructionMetaInfo')

    def upd(mv, val_o):
        """expected variables: mv with the output variable set to val_o (Option<String>) / removed"""
        ents = []
        for i, (p, k, v) in enumerate(mv.ents):
            hit = zeq(ov, i + 1)
            ents.append((zite(hit, zeq(val_o.d, 1), p), k, merge(hit, val_o.p[1][0], v) if 1 in val_o.p else v))
        return M(ents)
    c_cont = zand(fetch, zeq(rk, CONT)); c_goto = zand(fetch, zeq(rk, GOTO)); c_err = zand(fetch, zeq(rk, ERROR)); c_crash = zand(fetch, zeq(rk, CRASH)); c_exit = zand(fetch, zeq(rk, EXIT))
    lf, lline, _ = map_lookup(e, fr.st, lab, choose(target, TARGETS))
    bad_label = zand(c_goto, bylabel, znot(lf))
    exit_fail = zand(c_exit, zor(*[zeq(rout, i + 1) for i, x in enumerate(EXITS) if x in ('1', '7', '-1')]))
    oe_fail = zand(c_err, oe_err)
    fail = zor(c_crash, bad_label, exit_fail, oe_fail)
    cont = zand(fetch, znot(fail), znot(c_exit))
    obs.append((quiet, zeq(goes_on, cont), 'the run goes on exactly when the machine does'))
    for g_, ins, ln, vbefore, sbefore in calls['cmd']:
        obs.append((g_, zand(L < nlen, zeq(ln, L), deep_eq(ins, sel_item(instrs, L)), map_eq(e, fr.st, vbefore, V0), map_eq(e, fr.st, sbefore, S0)),
                    'the command is started only for an existing instruction, with that instruction, its index and the current variables and state'))
        if halting: obs.append((g_, znot(halt), 'C13: no instruction is started once the flag is up at the instruction boundary'))
    obs.append((fetch, zor(*[g_ for g_, *_ in calls['cmd']]) if calls['cmd'] else False, 'every fetched instruction is executed'))
    obs.append((True, len(calls['cmd']) <= 1, 'one instruction per iteration'))
    for g_, msg, mt, vb in calls['oe']:
        obs.append((g_, zand(c_err, str_eq(msg, rmsg), deep_eq(mt, meta_L), map_eq(e, fr.st, vb, upd(VA, some(mk_str('false'))))),
                    'the error handler runs only for a reported error, with its message, the position of the failing instruction and the output variable already set to false'))
    obs.append((c_err, zor(*[g_ for g_, *_ in calls['oe']]) if calls['oe'] else False, 'every reported error reaches the error handler'))
    if back is not None:
        rt2 = fr.get(back, 'runtime'); v2 = rt2.f[2].f[0]
        newline = zite(zand(c_goto, bylabel), lline if lline is not POISON else 0, zite(c_goto, gline, L + 1))
        obs.append((back.g, zeq(fr.get(back, 'line'), newline), 'next instruction: target of a goto, otherwise the following one'))
        exp_vars = merge(c_err, VB, upd(VA, out_o))
        obs.append((back.g, map_eq(e, back, v2, exp_vars), 'variables: what the command left, with the output variable set to the output (removed when none)'))
        obs.append((back.g, map_eq(e, back, fr.get(back, 'state'), SA), 'the shared state is what the command left'))
        obs.append((back.g, zand(deep_eq(rt2.f[0], some(instrs)), map_eq(e, back, rt2.f[1], lab)), 'program and label table are unchanged'))
    RUNTIME = ctx.types.enums['types::error::ScriptError'].index('Runtime')
    for rs, rv in rets:
        okc = zeq(rv.d, 0)
        obs.append((zand(rs.g, quiet), zeq(okc, znot(fail)), 'the run fails exactly when the machine does'))
        if 0 in rv.p:
            cx, er = rv.p[0][0].f
            if halting:
                obs.append((zand(rs.g, halt), zand(okc, zeq(er.d, ER.index('Halted'))), 'C13: flag up at the boundary: the run ends as halted'))
                is_h = zand(rs.g, okc, zeq(er.d, ER.index('Halted')))
                obs.append((is_h, zand(znot(quiet), map_eq(e, rs, cx.f[0], V0), map_eq(e, rs, cx.f[1], S0)),
                            'C13: a halted run ends only after seeing the flag, with variables and state of the instruction boundary (no half-applied instruction)'))
                for g_, *_ in calls['cmd']: obs.append((zand(is_h, g_), False, 'C13: the iteration that ends the run as halted has not started its instruction'))
            else: obs.append((rs.g, zeq(er.d, ER.index('Halted')) == False if False else znot(zeq(er.d, ER.index('Halted'))), 'never halted when the flag stays down'))
            obs.append((zand(rs.g, live, L >= nlen), zand(okc, zeq(er.d, ER.index('ReachedEnd')), map_eq(e, rs, cx.f[0], V0), map_eq(e, rs, cx.f[1], S0)), 'past the last instruction: the run ends normally'))
            obs.append((zand(rs.g, c_exit, znot(exit_fail)), zand(okc, zeq(er.d, ER.index('ExitCalled')), map_eq(e, rs, cx.f[0], upd(VA, out_o)), map_eq(e, rs, cx.f[1], SA)), 'exit: the run ends with the output stored'))
        if 1 in rv.p and RUNTIME in rv.p[1][0].p:
            msg, meta_o = rv.p[1][0].p[RUNTIME]
            obs.append((zand(rs.g, fail), zand(zeq(rv.p[1][0].d, RUNTIME), zeq(meta_o.d, 1), deep_eq(meta_o.p[1][0], meta_L) if 1 in meta_o.p else False),
                        'a failure is a Runtime error carrying line and source of the failing instruction'))
            obs.append((zand(rs.g, c_crash), str_eq(msg, rmsg), 'a crash carries the message of the command'))
            obs.append((zand(rs.g, oe_fail), str_eq(msg, oe_msg), 'a failing error handler ends the run with its message'))
    if only is not None:      # another property claims only the obligations that concern it (panic / unwinding obligations stay with C03)
        obs = [x for x in obs if any(w in x[2] for w in only)]; e.obligations = []
    for g, cnd, msg in obs: e.obligations.append(Obligation(g, cnd, '%s runner step: %s' % (pid, msg), 'assert', 'oracle'))

    def extract(m, o=None):
        return dict(kind='lemma', fn='run_instructions', L=solve.model_int(m, L), program_len=solve.model_int(m, nlen), result_kind=solve.model_int(m, rk), halt=solve.model_bool(m, halt), halting=halting)
    res = discharge_known(e, jr, pid, {}, extract)
    witness(jr, e, 'runner step: goto by label continues', zand(goes_on, c_goto, bylabel), extract)
    witness(jr, e, 'runner step: exit with a non-zero code fails', exit_fail, extract)
    H.finish_job(jr, e, res)


def sel_item(v, idx):
    """v[idx] for a symbolic index (merge over the cells)"""
    r = v.it[-1]
    for i in range(len(v.it) - 2, -1, -1): r = merge(zeq(idx, i), v.it[i], r)
    return r


def job_run_instruction_lemma(ctx, jr, pid='C03'):
    """run_instruction (straight-line) on an arbitrary instruction, with argument binding replaced by an arbitrary list."""
    jr.bounds = dict(instruction='arbitrary (empty / directive / script with optional label, output, command c | nope | none)', binding='arbitrary list of 0..2 values', command='arbitrary result')
    e = ctx.engine(unwind=3); t0 = time.time()
    prog = Program(e, 1)
    kind3 = e.fresh_int('kind', 0, 2)      # 0 empty, 1 directive, 2 script
    ins0 = prog.value().it[0]
    si = ins0.f[1].p[2][0]
    pre = T([some(mk_str('p')), none()], 'types::instruction::PreProcessInstruction')
    ins = T([ins0.f[0], E('types::instruction::InstructionType', kind3, {0: [], 1: [pre], 2: [si]})], 'types::instruction::Instruction')
    argv = V(e.fresh_int('bound.n', 0, 2), [H.sym_str(e, 'bound%d' % i, 2) for i in range(2)])
    L = e.fresh_int('L', 0, 1000)
    rk = e.fresh_int('r.kind', 0, 4); rmsg = H.sym_str(e, 'r.msg', 2)
    out_o = E(OPTION, zite(e.fresh_bool('r.out.present'), 1, 0), {0: [], 1: [H.sym_str(e, 'r.out', 2)]})
    result = E(CR, rk, {CONT: [out_o], GOTO: [out_o, E(GV, 1, {1: [e.fresh_int('r.line', 0, 9)]})], ERROR: [rmsg], CRASH: [rmsg], EXIT: [out_o]})
    calls = {'bind': [], 'run': []}
    st = State(True, {})

    def h_bind(eng, st1, a, callee):
        calls['bind'].append((st1.g, eng.deref(st1, a[1]), eng.deref(st1, a[2]))); return argv

    def h_run(eng, st1, a):
        c = a[1]; calls['run'].append((st1.g, c.f[0], c.f[3], c.f[6], c.f[2], c.f[1])); return result
    e.hooks['runner::bind_command_arguments'] = h_bind
    e.dyn_impls[('harness::Scripted', 'run')] = h_run
    e.dyn_impls[('harness::Scripted', 'clone_and_box')] = lambda eng, st1, a: eng.alloc(st1, a[0])
    c_box = e.alloc(st, T([], 'harness::Scripted'))
    st.m[(0, 'commands')] = T([M([(True, mk_str('c'), c_box)]), M([])], 'types::command::Commands')
    st.m[(0, 'vars')] = M([(e.fresh_bool('x.present'), mk_str('x'), H.sym_str(e, 'x', 2))])
    st.m[(0, 'state')] = M([]); st.m[(0, 'env')] = T([Opaque('out'), Opaque('err'), e.alloc(st, False)], 'types::env::Env')
    rs, rv = e.run('core', 'runner::run_instruction', [P(0, 'commands'), P(0, 'vars'), P(0, 'state'), V(0, []), ins, L, P(0, 'env')], st)
    jr.symex_time += time.time() - t0
    res_, outv = rv.f
    is_script = zeq(kind3, 2); cmd = prog.cmd[0]
    invoked = zand(is_script, zeq(cmd, 1))
    obs = []
    obs.append((zand(rs.g, znot(is_script)), zand(zeq(res_.d, CONT), zeq(res_.p[CONT][0].d, 0), zeq(outv.d, 0)), 'an empty line or a directive does nothing and has no output variable'))
    obs.append((zand(rs.g, is_script), deep_eq(outv, si.f[1]), 'the output variable is the one written on the line'))
    obs.append((zand(rs.g, is_script, zeq(cmd, 0)), zand(zeq(res_.d, CONT), zeq(res_.p[CONT][0].d, 0)), 'a line without command continues with no output'))
    obs.append((zand(rs.g, is_script, zeq(cmd, 2)), zand(zeq(res_.d, CRASH), str_eq(res_.p[CRASH][0], mk_str('Command: nope not found.'))), 'an unknown command is a crash naming it'))
    obs.append((zand(rs.g, invoked), deep_eq(res_, result), 'the result of the command is passed on unchanged'))
    obs.append((invoked, zor(*[g_ for g_, *_ in calls['run']]) if calls['run'] else False, 'a known command is invoked'))
    obs.append((True, len(calls['run']) <= 1 and len(calls['bind']) <= 1, 'at most one invocation'))
    for g_, args, ovar, ln, vars_p, state_p in calls['run']:
        obs.append((g_, zand(invoked, deep_eq(args, argv), deep_eq(ovar, si.f[1]), zeq(ln, L)), 'the command sees the bound arguments, the output variable name and its own instruction index'))
        obs.append((g_, isinstance(vars_p, P) and vars_p.loc == 'vars' and isinstance(state_p, P) and state_p.loc == 'state', 'the command works on the variables and state of the caller'))
    for g_, sinst, meta in calls['bind']:
        obs.append((g_, zand(invoked, deep_eq(sinst, si), deep_eq(meta, ins.f[0])), 'arguments are bound from this instruction'))
    for g, cnd, msg in obs: e.obligations.append(Obligation(g, cnd, '%s run_instruction lemma: %s' % (pid, msg), 'assert', 'oracle'))

    def extract(m, o=None): return dict(kind='lemma', fn='run_instruction', instruction_kind=solve.model_int(m, kind3))
    res = discharge_known(e, jr, pid, {}, extract)
    witness(jr, e, 'run_instruction: a known command is invoked', zand(rs.g, invoked), extract)
    H.finish_job(jr, e, res)


def job_on_error_lemma(ctx, jr, pid='C03'):
    """run_on_error_instruction (straight-line) with run_instruction replaced by an arbitrary result."""
    jr.bounds = dict(on_error='registered or not', handler_result='arbitrary', message='<= 3 chars', position='arbitrary line (or none) and source (or none)')
    e = ctx.engine(unwind=3); e.int_digits = 3; t0 = time.time()
    has = e.fresh_bool('has_on_error')
    msg = H.sym_str(e, 'error', 3)
    line_o = E(OPTION, zite(e.fresh_bool('line.present'), 1, 0), {0: [], 1: [e.fresh_int('line', 0, 999)]})
    src_o = E(OPTION, zite(e.fresh_bool('source.present'), 1, 0), {0: [], 1: [H.sym_str(e, 'source', 3)]})
    meta = T([line_o, src_o], 'types::instruction::InstructionMetaInfo')
    rk = e.fresh_int('r.kind', 0, 4); rmsg = H.sym_str(e, 'r.msg', 2)
    out_o = E(OPTION, zite(e.fresh_bool('r.out.present'), 1, 0), {0: [], 1: [H.sym_str(e, 'r.out', 2)]})
    result = E(CR, rk, {CONT: [out_o], GOTO: [out_o, E(GV, 1, {1: [0]})], ERROR: [rmsg], CRASH: [rmsg], EXIT: [out_o]})
    ov = E(OPTION, zite(e.fresh_bool('outvar.present'), 1, 0), {0: [], 1: [mk_str('x')]})
    calls = []
    st = State(True, {})

    def h_cmd(eng, st1, a, callee):
        calls.append((st1.g, a[4], a[5])); return T([result, ov])
    e.hooks['runner::run_instruction'] = h_cmd
    box = e.alloc(st, T([], 'harness::OnError'))
    st.m[(0, 'commands')] = T([M([(has, mk_str('on_error'), box)]), M([])], 'types::command::Commands')
    V0 = M([(e.fresh_bool('x.present'), mk_str('x'), H.sym_str(e, 'x', 2))])
    st.m[(0, 'vars')] = V0; st.m[(0, 'state')] = M([]); st.m[(0, 'env')] = T([Opaque('out'), Opaque('err'), e.alloc(st, False)], 'types::env::Env')
    rs, rv = e.run('core', 'runner::run_on_error_instruction', [P(0, 'commands'), P(0, 'vars'), P(0, 'state'), V(0, []), msg, meta, P(0, 'env')], st)
    jr.symex_time += time.time() - t0
    from mirsym.models import int_to_str
    from .c12 import map_eq
    obs = [(has, zor(*[g_ for g_, _, _ in calls]) if calls else False, 'a registered error handler is invoked'), (True, len(calls) <= 1, 'once')]
    for g_, ins, ln in calls:
        si = ins.f[1].p[2][0] if 2 in ins.f[1].p else None
        exp_line = int_to_str(e, rs, zite(zeq(line_o.d, 1), line_o.p[1][0], 0))
        exp_src = merge(zeq(src_o.d, 1), src_o.p[1][0], S(0, []))
        obs.append((g_, False if si is None else zand(has, zeq(ins.f[1].d, 2), opt_eq_str(si.f[2], True, mk_str('on_error')), zeq(si.f[3].d, 1), zeq(si.f[3].p[1][0].len, 3),
                                                      str_eq(si.f[3].p[1][0].it[0], msg), str_eq(si.f[3].p[1][0].it[1], exp_line), str_eq(si.f[3].p[1][0].it[2], exp_src)),
                    'the handler is invoked only when registered, as on_error <message> <line or 0> <source or empty>'))
    vars_after = e.read(rs, ('mem', 0, 'vars', []))
    is_exit = zand(has, zeq(rk, EXIT)); is_crash = zand(has, zeq(rk, CRASH))
    obs.append((zand(rs.g, znot(has)), zand(zeq(rv.d, 0), map_eq(e, rs, vars_after, V0)), 'no handler: nothing happens'))
    obs.append((zand(rs.g, has, znot(is_exit), znot(is_crash)), zeq(rv.d, 0), 'a handler that continues (or reports an error itself) lets the script go on'))
    if 1 in rv.p:
        obs.append((zand(rs.g, is_exit), zand(zeq(rv.d, 1), str_eq(rv.p[1][0], mk_str('Exiting Script.'))), 'a handler that exits ends the script'))
        obs.append((zand(rs.g, is_crash), zand(zeq(rv.d, 1), str_eq(rv.p[1][0], rmsg)), 'a handler that crashes ends the script with its message'))
    else: obs.append((zand(rs.g, zor(is_exit, is_crash)), False, 'exit / crash of the handler end the script'))
    for g, cnd, m_ in obs: e.obligations.append(Obligation(g, cnd, '%s on_error lemma: %s' % (pid, m_), 'assert', 'oracle'))

    def extract(m, o=None): return dict(kind='lemma', fn='run_on_error_instruction', has_on_error=solve.model_bool(m, has), result_kind=solve.model_int(m, rk))
    res = discharge_known(e, jr, pid, {}, extract)
    witness(jr, e, 'on_error lemma: handler exits', zand(rs.g, is_exit), extract)
    H.finish_job(jr, e, res)


def job_create_runtime_lemma(ctx, jr, n, pid='C03'):
    """the label table: one iteration of the loop of create_runtime from an arbitrary table and position"""
    from mirsym import induct
    from .c12 import map_eq
    jr.bounds = dict(program_lines='0..%d' % n, position='any', label_table='arbitrary before the iteration', labels=LABELS)
    e = ctx.engine(unwind=3); t0 = time.time()
    prog = Program(e, n); nlen = e.fresh_int('program.len', 0, n)
    instrs = V(nlen, prog.value().it)
    st = State(True, {})
    context = T([M([]), M([]), T([M([]), M([])], 'types::command::Commands')], 'types::runtime::Context')
    env = some(T([Opaque('out'), Opaque('err'), e.alloc(st, False)], 'types::env::Env'))
    fr = induct.capture(e, 'core', 'runner::create_runtime', [instrs, context, env], st)
    fr.require(['runtime', 'line', 'iter'])
    it0 = fr.get(fr.st, 'iter'); rt0 = fr.get(fr.st, 'runtime')
    obs = [(fr.st.g, zand(zeq(fr.get(fr.st, 'line'), 0), zeq(it0.f[1], 0), map_eq(e, fr.st, rt0.f[1], M([]))), 'entry: empty label table, position 0')]
    k = e.fresh_int('k', 0, n); e.assume(k <= nlen)
    lab = M([(e.fresh_bool('label%d.present' % i), mk_str(l), e.fresh_int('label%d.line' % i, 0, n)) for i, l in enumerate(LABELS)])
    st1 = fr.state(True, line=k, iter=T([it0.f[0], k] + list(it0.f[2:]), it0.ty), runtime=T([rt0.f[0], lab] + list(rt0.f[2:]), rt0.ty))
    exits, back = fr.step(st1)
    goes_on = back.g if back is not None else False
    obs.append((True, zeq(goes_on, k < nlen), 'one iteration per instruction'))
    if back is not None:
        lab2 = fr.get(back, 'runtime').f[1]
        kind = sel(prog.kind, k, 0); lb = sel(prog.label, k, 0)
        ents = []
        for i, (p, key, v) in enumerate(lab.ents):
            hit = zand(zeq(kind, 1), zeq(lb, i + 1))
            ents.append((zor(p, hit), key, zite(hit, k, v)))
        obs.append((back.g, zand(map_eq(e, back, lab2, M(ents)), zeq(fr.get(back, 'line'), k + 1), zeq(fr.get(back, 'iter').f[1], k + 1)),
                    'a labelled instruction at position k maps its label to k (a later duplicate wins); nothing else changes'))
    for rs, rv in fr.returns(exits):
        obs.append((rs.g, zand(deep_eq(rv.f[0], some(instrs)), map_eq(e, rs, rv.f[1], lab)), 'the runtime holds the program and the table built so far'))
    for g, cnd, m_ in obs: e.obligations.append(Obligation(g, cnd, '%s label-table lemma: %s' % (pid, m_), 'assert', 'oracle'))

    def extract(m, o=None): return dict(kind='lemma', fn='create_runtime', k=solve.model_int(m, k), program_len=solve.model_int(m, nlen))
    jr.symex_time += time.time() - t0
    res = discharge_known(e, jr, pid, {}, extract)
    witness(jr, e, 'label-table lemma: a duplicate label is overwritten', zand(goes_on, lab.ents[0][0], zeq(sel(prog.kind, k, 0), 1), zeq(sel(prog.label, k, 0), 1)), extract)
    H.finish_job(jr, e, res)
