"""C02 - variable binding is verbatim, single-pass and never changes the argument count."""
import time, itertools
import z3
from mirsym import harness as H, solve
from mirsym.values import *
from mirsym.engine import State, Obligation, some, none
from mirsym.models import is_ws, str_concat, str_sub
from .common import *
from mirsym.harness import process_failed, witness, discharge_known

from .c01 import job_token_inductive, job_arglist_inductive, replayer as lemma_replayer
PID = 'C02'
DOLLAR, PERCENT, LBRACE, RBRACE = 36, 37, 123, 125


def name_ok2(sv):
    """variable names: non-empty, free of white space (space, tab, CR, LF), '=' and '}'"""
    return zand(sv.len >= 1, all_chars(sv, lambda c: zand(c != SP, c != TAB, c != LF, c != CR, c != EQ, c != RBRACE)))


def make_env(e, nvars, key_cap, val_cap):
    keys = [H.sym_str(e, 'key%d' % i, key_cap) for i in range(nvars)]
    vals = [H.sym_str(e, 'val%d' % i, val_cap) for i in range(nvars)]
    present = [e.fresh_bool('defined%d' % i) for i in range(nvars)]
    cons = [name_ok2(k) for k in keys]
    for i in range(nvars):
        for j in range(i): cons.append(znot(str_eq(keys[i], keys[j])))
    return M([(present[i], keys[i], vals[i]) for i in range(nvars)]), keys, vals, present, zand(*cons)


def lookup(keys, vals, present, name):
    """(defined, value) of name in the environment"""
    found = False; v = S(0, [])
    for k, x, p in zip(keys, vals, present):
        c = zand(p, str_eq(k, name))
        v = merge(c, x, v); found = zor(found, c)
    return found, v


def split_words(sv):
    """space separated non-empty words of sv: (count, [S])"""
    n = len(sv.ch)
    nonsp = [zand(i < sv.len, sv.ch[i] != SP) for i in range(n)]
    start = [zand(nonsp[i], znot(nonsp[i - 1]) if i > 0 else True) for i in range(n)]
    wi = [0]
    for i in range(n): wi.append(wi[-1] + zite(start[i], 1, 0))      # wi[i+1] = words started up to and including i
    count = wi[n]
    words = []
    for k in range((n + 1) // 2):
        st = sv.len; en = sv.len
        for i in range(n - 1, -1, -1): st = zite(zand(start[i], zeq(wi[i + 1], k + 1)), i, st)
        # end: first position >= st that is not nonsp
        en = sv.len
        for i in range(n - 1, -1, -1): en = zite(zand(i >= st, znot(nonsp[i])), i, en)
        words.append(str_sub(sv, simp(st), simp(en)))
    return simp(count), words


def has_escape_pair(name):
    """name contains a backslash immediately followed by $ or %, or a $ or % immediately followed by {"""
    cs = []
    for i in range(len(name.ch) - 1):
        a, b = name.ch[i], name.ch[i + 1]
        cs.append(zand(i + 1 < name.len, zor(zand(zeq(a, BS), zor(zeq(b, DOLLAR), zeq(b, PERCENT))), zand(zor(zeq(a, DOLLAR), zeq(a, PERCENT)), zeq(b, LBRACE)))))
    return zor(*cs)


def job_single(ctx, jr, shapes, name_cap, val_cap, nvars):
    """written argument = concatenation of segments with the given kinds: 'l' literal char, 'v' ${name}, 'e' \\${name}"""
    jr.bounds = dict(shapes=shapes, name_chars=name_cap, value_chars=val_cap, variables=nvars, neighbours='0..2 concrete arguments around it')
    for shape in shapes:
        e = ctx.engine(unwind=3 * (name_cap + 4) + 4)
        t0 = time.time()
        env, keys, vals, present, econs = make_env(e, nvars, name_cap, val_cap)
        buf = Buf((len(shape) // 2) * (name_cap + 4)); oracle = S(0, []); cons = [econs]; segs = []; known_b = False
        for si, (kind, nlen) in enumerate(zip(shape[0::2], shape[1::2])):
            if kind == 'l':
                c = e.fresh_int('lit', 0, 0x10FFFF)
                cons.append(zand(zor(c < 0xD800, c > 0xDFFF), c != DOLLAR, c != PERCENT, c != BS))
                buf.push(c); oracle = str_concat(oracle, S(1, [c])); segs.append(('l', c))
            else:
                name = H.sym_str(e, 'name', name_cap); cons.append(name_ok2(name))
                e.assume(name.len == int(nlen)); name = S(int(nlen), name.ch[:int(nlen)])    # case split on the name length
                if kind == 'e': buf.push(BS)
                buf.push(DOLLAR); buf.push(LBRACE); buf.append(name); buf.push(RBRACE)
                if kind == 'v':
                    found, v = lookup(keys, vals, present, name)
                    oracle = str_concat(oracle, v)
                else:
                    oracle = str_concat(str_concat(str_concat(oracle, mk_str('${')), name), mk_str('}'))
                    known_b = zor(known_b, has_escape_pair(name))
                segs.append((kind, name))
        written = buf.s
        pos = e.fresh_int('pos', 0, 2); nn = e.fresh_int('neighbours', 0, 2)
        cons.append(pos <= nn)
        nb = [mk_str('n0'), mk_str('n1')]
        items = []
        for i in range(3):
            before = nb[i] if i < 2 else nb[1]
            after = nb[i - 1] if i >= 1 else nb[0]
            items.append(merge(pos == i, written, merge(pos > i, before, after)))
        argv = V(nn + 1, items)
        e.assume(zand(*cons))
        si_ = T([none(), none(), some(mk_str('cmd')), some(argv)], 'types::instruction::ScriptInstruction')
        st = State(True, {(0, 'meta'): meta_new(1)})
        rs, rv = e.run('core', 'runner::bind_command_arguments', [PV(env), PV(si_), P(0, 'meta')], st)
        jr.symex_time += time.time() - t0
        g = rs.g
        checks = [('argument count is preserved', zeq(rv.len, nn + 1))]
        for i in range(3):
            if i >= len(rv.it): checks.append(('argument %d exists' % i, znot(nn + 1 > i))); continue
            got = rv.it[i]
            before = nb[i] if i < 2 else nb[1]
            after = nb[i - 1] if i >= 1 else nb[0]
            exp = merge(pos == i, oracle, merge(pos > i, before, after))
            checks.append(('argument %d text (shape %s)' % (i, shape), zimp(nn + 1 > i, str_eq(got, exp))))
        for msg, c in checks: e.obligations.append(Obligation(g, c, 'C02 single: ' + msg, 'assert', 'oracle:' + shape))

        def extract(m, o=None):
            envd = {solve.model_str(m, k): solve.model_str(m, v) for k, v, p in zip(keys, vals, present) if solve.model_bool(m, p)}
            return dict(kind='c02_single', shape=shape, written=solve.model_str(m, written), env=envd, expected=solve.model_str(m, oracle),
                        pos=solve.model_int(m, pos), neighbours=solve.model_int(m, nn))
        classes = {'escaped-name-scanned-as-text': (known_b, ('assert',))} if known_b is not False else {}
        res = discharge_known(e, jr, PID, classes, extract)
        if segs[-1][0] == 'v':
            witness(jr, e, 'value that looks like a template is inserted verbatim (%s)' % shape,
                    zand(g, present[0], vals[0].len >= 4, vals[0].ch[0] == DOLLAR, vals[0].ch[1] == LBRACE, str_eq(segs[-1][1], keys[0])), extract)
        else:
            witness(jr, e, 'shape %s reachable' % shape, g, extract)
        H.finish_job(jr, e, res)


def job_spread(ctx, jr, name_cap, val_cap, nvars):
    jr.bounds = dict(template='%{name}', name_chars=name_cap, value_chars=val_cap, variables=nvars, value_alphabet='all Unicode except " and #')
    e = ctx.engine(unwind=val_cap + name_cap + 8)
    t0 = time.time()
    env, keys, vals, present, econs = make_env(e, nvars, name_cap, val_cap)
    name = H.sym_str(e, 'name', name_cap)
    buf = Buf(name_cap + 3); buf.push(PERCENT); buf.push(LBRACE); buf.append(name); buf.push(RBRACE)
    written = buf.s
    cons = [econs, name_ok2(name)]
    for v in vals: cons.append(no_char(v, [DQ, HASH]))
    pos = e.fresh_int('pos', 0, 1); nn = e.fresh_int('neighbours', 0, 1); cons.append(pos <= nn)
    n0 = mk_str('n0')
    argv = V(nn + 1, [merge(pos == 0, written, n0), merge(pos == 1, written, n0)])
    e.assume(zand(*cons))
    si_ = T([none(), none(), some(mk_str('cmd')), some(argv)], 'types::instruction::ScriptInstruction')
    st = State(True, {(0, 'meta'): meta_new(1)})
    rs, rv = e.run('core', 'runner::bind_command_arguments', [PV(env), PV(si_), P(0, 'meta')], st)
    jr.symex_time = time.time() - t0
    found, v = lookup(keys, vals, present, name)
    wc, words = split_words(v)
    wc = zite(found, wc, 0)
    checks = [('argument count = neighbours + words', zeq(rv.len, nn + wc))]
    # expected list: [n0 if pos==1] + words + [n0 if pos==0 and nn==1]
    lead = zite(pos == 1, 1, 0)
    for i in range(len(rv.it)):
        got = rv.it[i]
        exp = n0
        for k in range(len(words) - 1, -1, -1):
            exp = merge(zand(zeq(i - lead, k), k < wc), words[k], exp)
        checks.append(('received argument %d' % i, zimp(rv.len > i, str_eq(got, exp))))
    for msg, c in checks: e.obligations.append(Obligation(rs.g, c, 'C02 spread: ' + msg, 'assert', 'oracle'))

    def extract(m, o=None):
        envd = {solve.model_str(m, k): solve.model_str(m, x) for k, x, p in zip(keys, vals, present) if solve.model_bool(m, p)}
        nm = solve.model_str(m, name)
        return dict(kind='c02_spread', written=solve.model_str(m, written), env=envd, pos=solve.model_int(m, pos), neighbours=solve.model_int(m, nn),
                    expected_words=[w for w in envd.get(nm, '').split(' ') if w])
    res = discharge_known(e, jr, PID, {}, extract)
    witness(jr, e, 'two words', zand(rs.g, found, wc == 2), extract)
    witness(jr, e, 'undefined name gives no argument', zand(rs.g, znot(found), nn == 1), extract)
    H.finish_job(jr, e, res)


def replayer(v):
    if v.get('kind') in ('c01_lemma', 'c01_arglist'): return lemma_replayer(v)
    if v.get('kind') == 'c02_lemma':
        # rebuild templates that bring the scan into the loop-head state of the counterexample and continue inside the template grammar
        if v['phase'] == 'BASE': return (None, 'base-case lemma: no template to rebuild')
        if not all('a' <= ch <= 'z' for ch in v['OUT'] + v['K']): return (None, 'loop-head state with non-plain output/key: not rebuilt')
        sig = '$' if v['single'] else '%'
        lead = {'B': v['OUT'], 'END': v['OUT'], 'D': v['OUT'] + sig, 'K': v['OUT'] + sig + '{' + v['K'], 'F': v['OUT'] + '\\'}[v['phase']]
        if not v['single']: lead = lead[len(v['OUT']):]      # a spread template has nothing before the %
        c = v['template'][v['p']:v['p'] + 1]
        env = dict(v['env']); env.setdefault('a', 'x y'); env.setdefault(v['K'] or 'b', 'p  q')
        cands = [(lead + c + tail, env) for tail in ('', 'z', '}', '}z', '{a}', '{a}z', 'a}', 'a}z', '${a}', 'z${a}')]
        if v['phase'] == 'END' and not v['single']:
            # the state "spread value OUT collected": reached by %{b} with b = OUT; the documented words depend on the blanks around them
            cands = [('%{b}', dict(env, b=val)) for val in (v['OUT'], v['OUT'] + '  z', ' ' + v['OUT'], v['OUT'] + ' ', 'z ' + v['OUT'])]
        last = None
        for t, env_ in cands:
            r = ref_expand(t, env_)
            if r is None: continue
            case = dict(kind='c02_single' if r[0] == 'text' else 'c02_spread', written=t, env=env_, pos=0, neighbours=0)
            if r[0] == 'text': case['expected'] = r[1]
            else: case['expected_words'] = r[1]
            got = replayer(case); last = (t, got)
            if got[0]:
                v['native'] = case.get('native'); v['written'] = t; v['env'] = env_
                return (True, 'template %r with %r: %s' % (t, env_, got[1]))
        if last is None: return (None, 'no continuation inside the template grammar')
        return (False, 'templates through this state behave as documented natively (last: %r)' % (last,))
    # public route: a scripted command that logs what it receives; the written argument sits in an instruction
    # built by the parser, so the replay writes it in quotes with the parser's escapes
    def q(s): return '"' + s.replace('\\', '\\\\').replace('"', '\\"').replace('\n', '\\n').replace('\r', '\\r').replace('\t', '\\t') + '"'
    written = v['written']
    # the parser keeps "\${" as-is, so undo the generic escaping of the backslash for that form
    wq = q(written).replace('\\\\${', '\\${')
    n = v['neighbours']; pos = v['pos']
    args = ['n%d' % i for i in range(n)]
    args.insert(pos, None)
    line = 'cmd ' + ' '.join(wq if a is None else a for a in args)
    out = H.replay(dict(mode='scripted', script=line, commands=['cmd'], results=[{'kind': 'continue'}], vars=v['env']))
    v['native'] = out
    if out.get('panic'): return (True, 'native panic')
    if not out.get('log'): return (None, 'command not invoked: %r' % out)
    got = out['log'][0]['arguments']
    if v['kind'] == 'c02_single':
        exp = list(args); exp[pos] = v['expected']
        j = 0
        for i, a in enumerate(exp):
            if a is not None and a.startswith('n') and i != pos: pass
        return (got != exp, 'native received %r, oracle %r' % (got, exp))
    exp = []
    for i, a in enumerate(args):
        if a is None: exp.extend(v['expected_words'])
        else: exp.append(a)
    return (got != exp, 'native received %r, oracle %r' % (got, exp))


def main(tier, seed):
    chk = H.Check(PID, tier, seed, crates=('core',))
    chk.replayer = replayer
    seg = ['l0'] + ['%s%d' % (k, n) for k in 've' for n in (1, 2)]      # literal char, ${name} / \\${name} with name length 1..2
    shapes1 = list(seg)
    shapes2 = [a + b for a in seg for b in seg]
    shapes3 = [a + b + c for a in seg for b in seg for c in seg]
    import random
    rnd = random.Random(seed)
    def groups(lst, k): return [lst[i::k] for i in range(k)]
    if tier == 'quick':
        pick3 = rnd.sample([x for x in shapes3 if x.count('e') <= 1 and x.count('2') <= 2], 10)
        for gi, g in enumerate(groups(shapes1 + shapes2, 6)): chk.job(job_single, 'single:1-2seg/%d' % gi, shapes=g, name_cap=2, val_cap=4, nvars=2)
        for gi, g in enumerate(groups(pick3, 5)): chk.job(job_single, 'single:3seg/%d' % gi, shapes=g, name_cap=2, val_cap=4, nvars=2)
        chk.job(job_spread, 'spread', name_cap=2, val_cap=4, nvars=2)
        chk.job(job_token_inductive, 'parser keeps backslash-dollar-brace', N=24, C=12, part='C02')
        chk.job(job_token_inductive, 're-split scanner lemmas', N=24, C=12, part='C02r')
        chk.job(job_arglist_inductive, 're-split word-list lemma', K=3, control_as_char=True, pid='C02')
        chk.job(job_expand_inductive, 'expansion lemmas', N=24, OC=24, KC=8, nvars=2, key_cap=7, val_cap=8)
        chk.bounds = dict(templates='all shapes of <= 2 segments (30) + 10 seeded shapes of 3 segments (at most one escaped segment); one solver run per shape', names='<= 2 chars', values='<= 4 chars', variables=2)
    else:
        for gi, g in enumerate(groups(shapes1 + shapes2 + shapes3, 14)): chk.job(job_single, 'single:1-3seg/%d' % gi, shapes=g, name_cap=2, val_cap=5, nvars=2)
        # (values of 5 characters: 25 minutes before the last engine changes, more than 55 minutes after them; the thorough tier keeps the
        #  spread job at the quick bound and deepens the single-binding jobs and the lemmas instead)
        chk.job(job_spread, 'spread', name_cap=2, val_cap=4, nvars=2)
        chk.job(job_token_inductive, 'parser keeps backslash-dollar-brace', N=64, C=32, part='C02')
        chk.job(job_token_inductive, 're-split scanner lemmas', N=64, C=32, part='C02r')
        chk.job(job_arglist_inductive, 're-split word-list lemma', K=6, control_as_char=True, pid='C02')
        chk.job(job_expand_inductive, 'expansion lemmas', N=64, OC=64, KC=16, nvars=3, key_cap=15, val_cap=24)
        chk.bounds = dict(templates='all 155 shapes of <= 3 segments; one solver run per shape', names='<= 2 chars', values='<= 5 chars (single binding), <= 4 chars (spread binding); lemma jobs: values <= 24, names <= 15, templates <= 64', variables=2)
    chk.assumptions = ['std models for String/Vec/HashMap/Chars', 'spread (%{name}) values exclude " and # (README: "acts the same as writing the words on the line")',
                       'names: non-empty, no space/tab/CR/LF, =, }', 'the written argument is given in parsed form; that the parser keeps \\${ as these three characters is decided by the scanner lemmas CTL+$ and VAR+{ (DESIGN 8.6)']
    results = chk.run()
    return chk.finish(results, 'every obligation is a solver query over all templates/environments within the bounds')


# ---------------------------------------------------------------------- inductive lemmas: templates, names and values of any length
EV_SINGLE, EV_MULTI, EV_NONE = 0, 1, 2


def job_expand_inductive(ctx, jr, N, OC, KC, nvars, key_cap, val_cap):
    """One iteration of the character loop of expand_by_wrapper from an arbitrary loop-head state of each phase:
    B boundary between segments (output OUT so far), D after '$' or '%', K inside {name (key K so far), F after a backslash."""
    from mirsym import induct
    from mirsym.models import str_push
    jr.bounds = dict(template_chars=N, position='any', output_so_far_chars=OC, key_so_far_chars=KC, variables=nvars, variable_name_chars=key_cap, value_chars=val_cap,
                     claim='per-iteration lemmas; composition over the segments of a template is the induction of DESIGN.md 8.6')
    fname = 'expansion::expand_by_wrapper'
    EVT = None
    lem = 0
    for phase in ('BASE', 'B', 'D', 'K', 'F', 'END'):
        e = ctx.engine(unwind=3)
        t0 = time.time()
        env, keys, vals, present, econs = make_env(e, nvars, key_cap, val_cap); e.assume(econs)
        tmpl = H.sym_str(e, 'template', N)
        reparse_seen = []
        rp_kind = e.fresh_int('reparse.kind', 0, 2)
        rp_words = V(e.fresh_int('reparse.n', 1, 2), [H.sym_str(e, 'reparse.w%d' % i, 2) for i in range(2)])

        def h_reparse(eng, st1, a, callee):
            reparse_seen.append((st1.g, eng.deref(st1, a[1]) if isinstance(a[1], (P, PV)) else a[1], a[2]))
            okv = E('std::option::Option', zite(rp_kind == 0, 1, 0), {0: [], 1: [rp_words]})
            return E('std::result::Result', zite(rp_kind == 2, 1, 0), {0: [okv], 1: [E('types::error::ScriptError', 0, {0: [mk_str('f'), mk_str('m')]})]})
        e.hooks['parser::reparse_arguments'] = h_reparse
        st = State(True, {(0, 'meta'): meta_new(1), (0, 'vars'): env})
        fr = induct.capture(e, 'core', fname, [tmpl, P(0, 'meta'), P(0, 'vars')], st)
        fr.require(['value_string', 'prefix_index', 'found_prefix', 'key', 'force_push', 'single_type', 'iter'])
        it0 = fr.get(fr.st, 'iter')
        obs = []
        single = e.fresh_bool('single')
        OUT = H.sym_str(e, 'OUT', OC); K = H.sym_str(e, 'K', KC)
        p = e.fresh_int('p', 0, N); e.assume(p <= tmpl.len)
        e.assume(zand(OUT.len <= OC - 2 - val_cap, K.len <= KC - 1))
        c = sel(tmpl.ch, p, 0); atend = zeq(p, tmpl.len); inb = znot(atend)

        def head(ph, single_, OUT_, K_, p_):
            return fr.state(True, value_string=OUT_, prefix_index=1 if ph == 'D' else 0, found_prefix=ph == 'K', key=K_ if ph == 'K' else S(0, []),
                            force_push=ph == 'F', single_type=single_, iter=T([tmpl, p_], it0.ty))

        def is_head(st1, ph, single_, OUT_, K_, p_):
            g = lambda n: fr.get(st1, n)
            it = g('iter')
            cs = [str_eq(g('value_string'), OUT_), zeq(g('prefix_index'), 1 if ph == 'D' else 0), zeq(g('found_prefix'), ph == 'K'), zeq(g('force_push'), ph == 'F'),
                  zeq(g('single_type'), single_), zeq(it.f[1], p_)]
            cs.append(str_eq(g('key'), K_) if ph == 'K' else zeq(g('key').len, 0))
            return zand(*cs)
        if phase == 'BASE':
            obs.append((fr.st.g, is_head(fr.st, 'B', True, S(0, []), None, 0), 'entry establishes the boundary phase with empty output'))
            back = None
        else:
            if phase == 'END':
                st1 = head('B', single, OUT, None, p); e.assume(atend)
            else:
                st1 = head(phase, single, OUT, K, p); e.assume(inb)
            exits, back = fr.step(st1)
            goes_on = back.g if back is not None else False
            exp = []     # (condition, phase', single', OUT', K')
            if phase == 'B':
                # single stays as it is on literal characters only when it is true (spread templates consist of %{name} alone)
                e.assume(zimp(znot(single), False))
                exp += [(zand(c != DOLLAR, c != PERCENT, c != BS), 'B', True, str_push(OUT, c), None),
                        (zeq(c, DOLLAR), 'D', True, OUT, None), (zeq(c, BS), 'F', True, OUT, None),
                        (zand(zeq(c, PERCENT), zeq(OUT.len, 0), zeq(p, 0)), 'D', False, OUT, None)]
            elif phase == 'D':
                exp += [(zeq(c, LBRACE), 'K', single, OUT, S(0, []))]
            elif phase == 'K':
                found, v = lookup(keys, vals, present, K)
                brk = zor(zeq(c, SP), zeq(c, LF), zeq(c, TAB), zeq(c, CR), zeq(c, EQ))
                exp += [(zand(c != RBRACE, znot(brk)), 'K', single, OUT, str_push(K, c)),
                        (zeq(c, RBRACE), 'B', single, merge(found, str_concat(OUT, v), OUT), None)]
            elif phase == 'F':
                e.assume(single)
                exp += [(zeq(c, DOLLAR), 'B', True, str_push(OUT, DOLLAR), None)]
            for cnd, ph2, s2, O2, K2 in exp:
                obs.append((cnd, goes_on, '%s: the scan continues' % phase))
                if back is not None:
                    obs.append((zand(back.g, cnd), is_head(back, ph2, s2, O2, K2, p + 1), '%s + char -> %s with the prescribed output and key' % (phase, ph2)))
            if phase == 'END':
                obs.append((True, znot(goes_on), 'the loop ends with the template'))
                for rs, rv in fr.returns(exits):
                    sv = rv.p[EV_SINGLE][0] if EV_SINGLE in rv.p else S(0, [])
                    obs.append((zand(rs.g, single), zite(OUT.len > 0, zand(zeq(rv.d, EV_SINGLE), str_eq(sv, OUT)), zeq(rv.d, EV_NONE)),
                                'a single-type template returns its output as one value (nothing when empty)'))
                    obs.append((zand(rs.g, znot(single), zeq(OUT.len, 0)), zand(zeq(rv.d, EV_MULTI), zeq(rv.p[EV_MULTI][0].len, 0)) if EV_MULTI in rv.p else False,
                                'a spread template with an empty value returns no values'))
                    mv = rv.p[EV_MULTI][0] if EV_MULTI in rv.p else V(0, [])
                    obs.append((zand(rs.g, znot(single), OUT.len > 0, rp_kind == 0), zand(zeq(rv.d, EV_MULTI), deep_eq(mv, rp_words)),
                                'a spread template returns exactly the words of the re-split value'))
                    obs.append((zand(rs.g, znot(single), OUT.len > 0, rp_kind == 1), zand(zeq(rv.d, EV_MULTI), zeq(mv.len, 0)), 'no words -> no values'))
                # the re-split sees exactly the output
                for g_, chars, start_ in reparse_seen:
                    obs.append((g_, zand(zeq(start_, 0), str_eq(S(chars.len, chars.it), OUT)), 'the value handed to the re-split is exactly the output'))
                obs.append((zand(znot(single), OUT.len > 0), zor(*[g_ for g_, _, _ in reparse_seen]) if reparse_seen else False, 'a non-empty spread value is re-split'))
        for g, cnd, msg in obs: e.obligations.append(Obligation(g, cnd, 'C02 expansion lemma (%s): %s' % (phase, msg), 'assert', 'oracle'))
        lem += len(obs)
        jr.symex_time += time.time() - t0

        def extract(m, o=None, phase=phase):
            envd = {solve.model_str(m, k): solve.model_str(m, x) for k, x, pp in zip(keys, vals, present) if solve.model_bool(m, pp)}
            return dict(kind='c02_lemma', phase=phase, template=solve.model_str(m, tmpl), p=solve.model_int(m, p), OUT=solve.model_str(m, OUT), K=solve.model_str(m, K),
                        single=solve.model_bool(m, single), env=envd)
        plain = zand(*[zimp(OUT.len > i, zand(OUT.ch[i] >= 97, OUT.ch[i] <= 122)) for i in range(OC)], *[zimp(K.len > i, zand(K.ch[i] >= 97, K.ch[i] <= 122)) for i in range(KC)])
        res = discharge_known(e, jr, PID, {}, extract, prefer=plain)
        if phase not in ('BASE', 'END'): witness(jr, e, 'expansion lemma %s: the iteration continues' % phase, back.g if back is not None else False, extract)
        if phase == 'END': witness(jr, e, 'expansion lemma END: a spread value is re-split', zand(znot(single), OUT.len > 0, rp_kind == 0), extract)
        H.finish_job(jr, e, res)
    jr.samples.append({'lemmas': lem})


def ref_expand(t, env):
    """the documented binding of one written argument; None when t is outside the template grammar of the property
    (literal text free of $ % backslash, ${name}, \\${name}, whole-argument %{name}) or in the open known-finding class"""
    import re
    name = r'[^ \t\r\n=}]+'
    m = re.fullmatch(r'%\{(' + name + r')\}', t)
    if m: return ('words', [w for w in env.get(m.group(1), '').split(' ') if w]) if not re.search('["#]', env.get(m.group(1), '')) else None
    out = ''; i = 0
    while i < len(t):
        m = re.match(r'\$\{(' + name + r')\}', t[i:])
        if m: out += env.get(m.group(1), ''); i += m.end(); continue
        m = re.match(r'\\\$\{([^ \t\r\n=}$%\\]+)\}', t[i:])
        if m: out += '${' + m.group(1) + '}'; i += m.end(); continue
        if t[i] in '$%\\': return None
        out += t[i]; i += 1
    return ('text', out)
