"""C05 - functions: arguments, return values, early return and scoped isolation (whole runs, control flow concretised)."""
import time, itertools, random
import z3
from mirsym import harness as H, solve
from mirsym.values import *
from mirsym.engine import State, Obligation, some, none, OPTION
from mirsym.harness import process_failed, witness, discharge_known
from mirsym.models import map_lookup, map_insert, str_concat
from .common import *
from .c04 import spellings, IF, ELSEIF, ELSE, ENDIF, WHILE, ENDWHILE, FOR, ENDFOR, FN, ENDFN, END, CRES, ITEMS
from .c11 import hook_put_handle

PID = 'C05'


class Return(Exception):
    def __init__(s, v): s.v = v


# ---------------------------------------------------------------------- program generator
def gen_body(rnd, depth, budget, fnames, in_fn, tagc, scoped=False):
    out = []
    for _ in range(rnd.randint(1, 3)):
        if budget[0] <= 0: break
        budget[0] -= 1
        kinds = ['emit', 'emit', 'call', 'set']
        if depth > 0: kinds += ['if', 'for', 'ifcall']
        if in_fn: kinds += ['return', 'return']
        k = rnd.choice(kinds)
        if k == 'emit':
            out.append(('emit', [rnd.choice([chr(97 + tagc[0] % 26), ('var', '1'), ('var', 'i'), ('var', 'x0'), ('var', 's'), ('var', 'g')])])); tagc[0] += 1
        elif k == 'set': out.append(('set', rnd.choice(['s', 'g'] + (['x0', 'x1'] if scoped else [])), rnd.choice(['k', ('var', 'i'), ('var', '1')])))      # a local named like a caller's output variable only in scoped bodies
        elif k == 'return': out.append(('return', rnd.choice([None, 'r', ('var', 'i'), ('var', '1'), ('var', 's')])))
        elif k == 'call':
            if not fnames: continue
            tagc[0] += 1
            out.append(('call', rnd.choice([None, 'y%d' % tagc[0]]), rnd.choice(fnames), [rnd.choice(['a', ('var', 'i'), ('var', 'c1'), ('var', 'arr'), ('var', '1')]) for _ in range(rnd.randint(0, 2))]))
        elif k == 'if':
            c = ('var', rnd.choice(['c1', 'c2', '1']))
            out.append(('if', [(c, gen_body(rnd, depth - 1, budget, fnames, in_fn, tagc, scoped))], gen_body(rnd, depth - 1, budget, fnames, in_fn, tagc, scoped) if rnd.random() < 0.4 else None))
        elif k == 'for':
            out.append(('for', 'i', rnd.choice(['arr', '1'] if in_fn else ['arr']), gen_body(rnd, depth - 1, budget, fnames, in_fn, tagc, scoped)))
        elif k == 'ifcall':
            if not fnames: continue
            out.append(gen_ifcall(rnd, rnd.choice(fnames), gen_body(rnd, depth - 1, budget, fnames, in_fn, tagc, scoped), gen_body(rnd, depth - 1, budget, fnames, in_fn, tagc, scoped) if rnd.random() < 0.4 else None))
    return out


def gen_ifcall(rnd, fname, then_body, else_body):
    """a call in condition position: if [not] f args ... [else ...] end. The argument values are concrete words (they are re-serialised by
    utils::eval::parse on the way, which is C09's subject)"""
    return ('ifcall', rnd.random() < 0.3, fname, [rnd.choice(['a', 'true', 'false', ('var', 'c1'), ('var', 'c2')]) for _ in range(rnd.randint(0, 2))], then_body, else_body)


def gen_program(rnd, depth, size):
    tagc = [0]; budget = [size]
    nf = rnd.randint(1, 2)
    fns = []
    names = ['f%d' % i for i in range(nf)]
    for i in range(nf):
        callable_ = names[:i] + ([names[i]] if rnd.random() < 0.25 else [])       # earlier functions, sometimes itself (guarded below)
        scoped = rnd.random() < 0.5
        body = gen_body(rnd, depth, budget, callable_, True, tagc, scoped)
        if names[i] in callable_:
            # recursion is guarded by the first argument and always passes false down
            body = [('if', [(('var', '1'), [('call', None, names[i], ['false'])])], None)] + [s for s in body if not (s[0] == 'call' and s[2] == names[i])]
        fns.append((names[i], scoped, body))
    main = gen_body(rnd, depth, [size], names, False, tagc)
    # make sure every function is called at least twice (the second call starts afresh)
    for k_, n in enumerate(names):
        # an output variable that is undefined before the call and shares its name with a local of scoped bodies
        main.append(('call', 'x%d' % k_, n, [rnd.choice(['a', 'false'])])); main.append(('emit', [('var', 'x%d' % k_), 'z']))
        for _ in range(2):
            tagc[0] += 1
            main.append(('call', 'y%d' % tagc[0], n, [rnd.choice(['true', ('var', 'arr'), 'a'])])); main.append(('emit', [('var', 'y%d' % tagc[0])]))
        # the same function in condition position (its value decides the branch; ending without a value is falsy), then called again
        tagc[0] += 1
        main.append(gen_ifcall(rnd, n, [('emit', ['T%d' % k_])], [('emit', ['F%d' % k_])]))
        main.append(('call', 'y%d' % tagc[0], n, [rnd.choice(['true', 'a'])])); main.append(('emit', [('var', 'y%d' % tagc[0])]))
        if not fns[k_][1]:
            # not <scope>: the output variable already holds a value (set by hand, then left by the previous call); a call that ends
            # without a value must leave it undefined (for <scope> functions this corner is left open by the property)
            main.append(('set', 'w%d' % k_, 'k'))
            for arg in ('false', 'a'):
                main.append(('call', 'w%d' % k_, n, [arg])); main.append(('emit', [('var', 'w%d' % k_), 'z']))
    return fns, main


def render(fns, main, sp, rnd):
    lines = []
    def a(x): return '${%s}' % x[1] if isinstance(x, tuple) else x
    def blk(prog):
        for st in prog:
            if st[0] == 'emit': lines.append('emit ' + ' '.join(a(x) for x in st[1]))
            elif st[0] == 'set': lines.append('%s = set %s' % (st[1], a(st[2])))
            elif st[0] == 'return': lines.append('return' + ('' if st[1] is None else ' ' + a(st[1])))
            elif st[0] == 'call': lines.append(('%s = ' % st[1] if st[1] else '') + st[2] + ''.join(' ' + a(x) for x in st[3]))
            elif st[0] == 'if':
                for bi, (c, b) in enumerate(st[1]):
                    lines.append('%s %s' % (rnd.choice(sp[IF] if bi == 0 else sp[ELSEIF]), a(c))); blk(b)
                if st[2] is not None: lines.append(rnd.choice(sp[ELSE])); blk(st[2])
                lines.append(rnd.choice(sp[ENDIF] + sp[END]))
            elif st[0] == 'for':
                lines.append('%s %s in ${%s}' % (rnd.choice(sp[FOR]), st[1], st[2])); blk(st[3]); lines.append(rnd.choice(sp[ENDFOR] + sp[END]))
            elif st[0] == 'ifcall':
                lines.append('%s %s%s%s' % (rnd.choice(sp[IF]), 'not ' if st[1] else '', st[2], ''.join(' ' + a(x) for x in st[3]))); blk(st[4])
                if st[5] is not None: lines.append(rnd.choice(sp[ELSE])); blk(st[5])
                lines.append(rnd.choice(sp[ENDIF] + sp[END]))
    for name, scoped, body in fns:
        lines.append('%s %s%s' % (rnd.choice(sp[FN]), '<scope> ' if scoped else '', name)); blk(body); lines.append(rnd.choice(sp[ENDFN] + sp[END]))
    blk(main)
    return lines


# ---------------------------------------------------------------------- reference interpreter (concrete control, symbolic data)
def truthy_c(sv):
    s = str_concrete(sv)
    if s is None: return True          # symbolic array items p/q are truthy
    return s.lower() not in ('', '0', 'false', 'no')


def interp(fns, main, init, arrays):
    fmap = {n: (sc, b) for n, sc, b in fns}
    trace = [S(0, [])]
    depth = [0]; cond = [0]
    unconstrained = {}; keep = []          # id(env) -> names the property leaves open (see call below)

    def val(env, x):
        if isinstance(x, tuple):
            if x[1] in unconstrained.get(id(env), ()): raise RuntimeError('reads a variable the property leaves open (%s)' % x[1])
            return env.get(x[1], S(0, []))
        return mk_str(x)

    def assign(env, name, v):
        unconstrained.get(id(env), set()).discard(name)
        if v is None: env.pop(name, None)
        else: env[name] = v

    def call(env, out, fname, args):
        sc, body = fmap[fname]
        depth[0] += 1
        if depth[0] > 6: raise RuntimeError('recursion too deep in the reference')
        if out and not cond[0]: assign(env, out, None)              # the call itself yields no value
        fenv = {} if sc else env
        keep.append(fenv)
        for i, v in enumerate(args): assign(fenv, str(i + 1), v)
        rv = None
        try: run(body, fenv)
        except Return as r: rv = r.v
        depth[0] -= 1
        if out:
            if rv is None and cond[0]:
                # left open by the property: inside a function invoked in condition position, the output variable of a call that ends without a value
                env.pop(out, None); unconstrained.setdefault(id(env), set()).add(out); keep.append(env)
            else: assign(env, out, rv)
        return rv

    def run(prog, env):
        for st in prog:
            if st[0] == 'emit':
                for x in st[1]: trace[0] = str_concat(trace[0], val(env, x))
            elif st[0] == 'set': assign(env, st[1], val(env, st[2]))
            elif st[0] == 'return': raise Return(None if st[1] is None else val(env, st[1]))
            elif st[0] == 'call': call(env, st[1], st[2], [val(env, x) for x in st[3]])
            elif st[0] == 'ifcall':
                args = [val(env, x) for x in st[3]]
                cond[0] += 1
                try: rv = call(env, None, st[2], args)
                finally: cond[0] -= 1
                t = rv is not None and truthy_c(rv)
                if st[1]: t = not t
                if t: run(st[4], env)
                elif st[5] is not None: run(st[5], env)
            elif st[0] == 'if':
                done = False
                for c, b in st[1]:
                    if truthy_c(val(env, c)): run(b, env); done = True; break
                if not done and st[2] is not None: run(st[2], env)
            elif st[0] == 'for':
                h = str_concrete(val(env, ('var', st[2])))
                items = arrays.get(h)
                if items is None: raise RuntimeError('for over a non-array in the reference: %r' % h)
                for it in items:
                    assign(env, st[1], it); run(st[3], env)
    env = dict(init)
    run(main, env)
    for n_ in unconstrained.get(id(env), ()): env[n_] = None          # None = left open
    return trace[0], env


def engine_setup(ctx, lines, c1, c2, alen):
    """the real registry (flowcontrol::load), an emit recorder, the variables and the array of one run"""
    vs = ctx.types.enums['types::runtime::StateValue']; STR = vs.index('String'); LIST = vs.index('List'); SUB = vs.index('SubState')
    e = ctx.engine(unwind=1500, max_rec=8); e.int_digits = 2      # a cap on fetch/execute iterations, far above any generated program's run
    e.hooks['utils::state::put_handle'] = hook_put_handle
    e.hooks['std::sync::atomic::Atomic::<bool>::load'] = lambda eng, st1, a, c: False
    st = State(True, {})

    def h_emit(eng, st1, a):
        c = a[1]; vars_p = c.f[2]; mv = eng.deref(st1, vars_p)
        # the trace lives in the state (not in the variables: scoped functions hide variables)
        sp_ = c.f[1]; sm = eng.deref(st1, sp_)
        f, tr, _ = map_lookup(eng, st1, sm, mk_str('harness::trace'))
        old = tr.p[STR][0] if f is not False and isinstance(tr, E) else S(0, [])
        add = S(0, [])
        for i, x in enumerate(c.f[0].it): add = merge(simp(i < c.f[0].len), str_concat(add, x), add)
        m2, _, _ = map_insert(eng, st1, sm, mk_str('harness::trace'), E('types::runtime::StateValue', STR, {STR: [str_concat(old, add)]}))
        eng.store(st1, sp_, m2)
        return E(CRES, 0, {0: [none()]})
    e.dyn_impls[('harness::Emit', 'run')] = h_emit
    e.dyn_impls[('harness::Emit', 'clone_and_box')] = lambda eng, st1, a: eng.alloc(st1, a[0])
    st.m[(0, 'cmds')] = T([M([(True, mk_str('emit'), e.alloc(st, T([], 'harness::Emit'))),
                              (True, mk_str('set'), e.alloc(st, T([mk_str('std')], 'sdk::std::var::set::CommandImpl'))),
                              (True, mk_str('not'), e.alloc(st, T([mk_str('std')], 'sdk::std::not::CommandImpl')))]), M([])], 'types::command::Commands')
    e.run_call('sdk::std::flowcontrol::load', st, [P(0, 'cmds'), mk_str('std')], 'sdk')
    commands = st.m[(0, 'cmds')]
    aitems = [S(1, [e.fresh_int('arr.%d' % k, ord('p'), ord('q'))]) for k in range(alen)]
    lst = E('types::runtime::StateValue', LIST, {LIST: [V(alen, [E('types::runtime::StateValue', STR, {STR: [x]}) for x in aitems])]})
    state = M([(True, mk_str('handles'), E('types::runtime::StateValue', SUB, {SUB: [M([(True, mk_str('handle:arr'), lst)])]}))])
    init = {'arr': mk_str('handle:arr'), 'c1': mk_str(c1), 'c2': mk_str(c2), 'g': mk_str('G')}
    variables = M([(True, mk_str(n_), v_) for n_, v_ in init.items()])
    instrs = []
    for i, l in enumerate(lines):
        toks = l.split(); out = None
        if len(toks) >= 2 and toks[1] == '=': out = toks[0]; toks = toks[2:]
        si = T([none(), some(mk_str(out)) if out else none(), some(mk_str(toks[0])), some(V(len(toks) - 1, [mk_str(t) for t in toks[1:]])) if len(toks) > 1 else none()], 'types::instruction::ScriptInstruction')
        instrs.append(T([meta_new(i + 1), E('types::instruction::InstructionType', 2, {2: [si]})], 'types::instruction::Instruction'))
    context = T([variables, state, commands], 'types::runtime::Context')
    env = some(T([Opaque('out'), Opaque('err'), e.alloc(st, False)], 'types::env::Env'))
    return e, st, instrs, context, env, aitems, init


def job_runs(ctx, jr, seeds, depth, size):
    sp = spellings(ctx)
    jr.bounds = dict(programs=len(seeds), functions='1..2 (scoped or not, 25% self-recursive with a guard)', nesting=depth, statements='<= %d per body' % size,
                     control='exhaustive over c1, c2 in {true,false} and the array length 0..2', data='array items symbolic from %r' % ITEMS)
    vs = ctx.types.enums['types::runtime::StateValue']; STR = vs.index('String'); LIST = vs.index('List'); SUB = vs.index('SubState')
    for sd in seeds:
        rnd = random.Random(sd)
        fns, main = gen_program(rnd, depth, size)
        lines = render(fns, main, sp, rnd)
        jr.samples.append(' | '.join(lines))
        for c1, c2, alen in itertools.product(['true', 'false'], ['true', 'false'], [0, 1, 2]):
            t0 = time.time()
            e, st, instrs, context, env, aitems, init = engine_setup(ctx, lines, c1, c2, alen)
            try:
                exp_trace, exp_env = interp(fns, main, init, {'handle:arr': aitems})
                open_vars = sorted(k for k, v in exp_env.items() if v is None); exp_env = {k: v for k, v in exp_env.items() if v is not None}
            except RuntimeError as ex:
                jr.notes.append('seed %d skipped: %s' % (sd, ex)); break
            rs, rv = e.run('core', 'runner::run', [V(len(instrs), instrs), context, env], st)
            jr.symex_time += time.time() - t0
            if rs is None:
                e.obligations.append(Obligation(True, False, 'C05 run(seed %d): the program never returns' % sd, 'assert', 'oracle'))
                rs = State(True, {}); rv = E('std::result::Result', 1, {})
            checks = [('the program runs to completion', zeq(rv.d, 0))]
            if 0 in rv.p:
                fin = rv.p[0][0].f[0]; fstate = rv.p[0][0].f[1]
                f, tr, _ = map_lookup(e, rs, fstate, mk_str('harness::trace'))
                got = tr.p[STR][0] if f is not False and isinstance(tr, E) else S(0, [])
                checks.append(('the trace of executed commands with their argument values equals the reference interpreter (calls, returns, scopes)', zimp(zeq(rv.d, 0), str_eq(got, exp_trace))))
                # caller variables after all calls: outputs and ordinary variables (positional variables of unscoped calls are not constrained)
                for name in sorted(set(list(exp_env) + ['x0', 'x1', 's', 'g']) - {'i'}):
                    if name.isdigit() or name in open_vars: continue
                    f2, v2, _ = map_lookup(e, rs, fin, mk_str(name))
                    checks.append(('final variable %s defined as in the reference' % name, zimp(zeq(rv.d, 0), zeq(f2, name in exp_env))))
                    if name in exp_env and f2 is not False: checks.append(('final variable %s value' % name, zimp(zand(zeq(rv.d, 0), f2), str_eq(v2, exp_env[name]))))
            for msg, c in checks: e.obligations.append(Obligation(rs.g, c, 'C05 run(seed %d): %s' % (sd, msg), 'assert', 'oracle'))

            got_tr = [got] if 0 in rv.p else []

            def extract(m, o=None):
                return dict(kind='c05', engine_trace=[solve.model_str(m, x) for x in got_tr], script=lines, vars=dict(c1=c1, c2=c2, g='G'), array=[solve.model_str(m, x) for x in aitems], expected_trace=solve.model_str(m, exp_trace), open_vars=open_vars,
                            expected_vars={k: solve.model_str(m, v) for k, v in exp_env.items() if not k.isdigit() and k not in ('i', 'arr')})
            classes = {'forin-left-by-return': (True, ('assert',))} if _has_return_in_for(fns) else {}
            res = discharge_known(e, jr, PID, classes, extract)
            H.finish_job(jr, e, res)
            if jr.violations: break


def _has_return_in_for(fns):
    def walk(prog, infor):
        for s_ in prog:
            if s_[0] == 'return' and infor: return True
            if s_[0] == 'for' and walk(s_[3], True): return True
            if s_[0] == 'if':
                for c, b in s_[1]:
                    if walk(b, infor): return True
                if s_[2] and walk(s_[2], infor): return True
        return False
    return any(walk(b, False) for _, _, b in fns)


def fn_panel(sp_cache={}):
    """concrete programs with functions (generated as for the whole-run jobs, without return-inside-for: that is the open known
    finding) with their reference traces; used to confirm a failed call / return / end lemma natively"""
    cases = []
    sp = {IF: ['if'], ELSEIF: ['elseif'], ELSE: ['else'], ENDIF: ['end_if'], WHILE: ['while'], ENDWHILE: ['end_while'], FOR: ['for'], ENDFOR: ['end_for'], FN: ['fn', 'function'], ENDFN: ['end_fn'], END: ['end']}
    for sd in range(900000, 900400):
        rnd = random.Random(sd)
        fns, main = gen_program(rnd, 2, 6)
        if _has_return_in_for(fns): continue
        lines = render(fns, main, sp, rnd)
        for c1, c2 in (('true', 'false'), ('false', 'true')):
            init = {'arr': mk_str('handle:arr'), 'c1': mk_str(c1), 'c2': mk_str(c2), 'g': mk_str('G')}
            try: tr, env = interp(fns, main, init, {'handle:arr': [mk_str('p'), mk_str('q')]})
            except RuntimeError: continue
            cases.append(dict(kind='c05', script=lines, vars=dict(c1=c1, c2=c2, g='G'), array=['p', 'q'], expected_trace=str_concrete(tr), open_vars=sorted(k for k, v in env.items() if v is None),
                              expected_vars={k: str_concrete(v) for k, v in env.items() if v is not None and not k.isdigit() and k not in ('i', 'arr')}))
    return cases


def replayer(v):
    if v.get('kind') == 'lemma':
        n = 0
        for case in fn_panel():
            got = replayer(case); n += 1
            if got[0]: v['native'] = case.get('native'); v['case'] = {k: x for k, x in case.items() if k != 'native'}; return (True, 'program %r: %s' % (' | '.join(case['script'])[:300], got[1]))
        return (False, '%d generated programs with functions run as the reference interpreter natively' % n)
    script = 'arr = array %s\n' % ' '.join(v['array']) + '\n'.join(v['script'])
    out = H.replay(dict(mode='scripted_sdk', script=script, vars=v['vars'], recorders=['emit'], recorder_output='')); v['native'] = out
    if out.get('panic'): return (True, 'native panic')
    if not out.get('ok'): return (True, 'native run failed: %r' % (out.get('error'),))
    real = out.get('vars', {}).get('arr', 'handle:arr')          # the native handle key is random
    fixh = lambda t: t.replace(real, 'handle:arr') if real else t
    trace = fixh(''.join(''.join(l['arguments']) for l in out.get('log', [])))
    if trace != v['expected_trace']: return (True, 'native trace %r, reference %r' % (trace, v['expected_trace']))
    got = {k: fixh(x) for k, x in out['vars'].items() if (k in v['expected_vars'] or k in ('x0', 'x1', 's', 'g')) and k not in v.get('open_vars', ())}
    exp = dict(v['expected_vars'])
    return (got != exp, 'native vars %r, reference %r' % (got, exp))


def main(tier, seed):
    chk = H.Check(PID, tier, seed)
    chk.replayer = replayer
    nprog = 120 if tier == 'quick' else 500
    seeds = [seed * 100000 + 50000 + i for i in range(nprog)]
    for gi in range(12): chk.job(job_runs, 'programs/%d' % gi, seeds=seeds[gi::12], depth=2, size=5 if tier == 'quick' else 7)
    chk.job(job_fn_steps, 'step/call, return, end of function')
    chk.bounds = dict(step_lemmas='call / return / end of a function from an arbitrary call stack (0..2 entries below), arbitrary variables and scope stack (DESIGN.md 8.18)', programs=nprog, per_program='every assignment of c1, c2 and the array length; array items symbolic')
    chk.assumptions = ['whole runs through the real runner, the real function/return/end commands, scope push/pop and the other flow-control commands (registry built by executing flowcontrol::load) against a reference interpreter with real call frames',
                       'programs are generated (seeded); the control-flow dimension is enumerated exhaustively per program, the data dimension (array items) is decided by the solver',
                       'left open as in the property: positional variables after unscoped calls; scoped call ending without a value into an output variable that already held a value (fresh output names are generated)',
                       'calls in condition position (if [not] f args) are generated with concrete argument words; inside them, output variables of calls that end without a value are left open as in the property (a program that reads one is skipped)']
    results = chk.run()
    return chk.finish(results, 'per program and control assignment: solver query over the symbolic data; control assignments enumerated exhaustively')


# ---------------------------------------------------------------------- step lemmas: calls and returns from an arbitrary call stack
FM = 'sdk::std::flowcontrol::function'
VNAMES = ['x', '1', '2', 'o', 'w']           # caller / callee variables: a plain one, the positional ones, two possible output variables


def _fn_state(ctx, e, depth, scope_depth):
    """function sub-state built by the REAL store_fn_info_in_state / push_to_call_stack from symbolic values: a function F with
    arbitrary start < end and scope flag, and `depth` arbitrary call-stack entries; a scope stack of `scope_depth` arbitrary saved maps"""
    SVT = 'types::runtime::StateValue'; SV = ctx.types.enums[SVT]; SV_LIST, SV_ANY = SV.index('List'), SV.index('Any')
    st = State(True, {})
    saved = []
    for lv in range(scope_depth):
        sd = [e.fresh_bool('saved%d.def.%s' % (lv, n)) for n in VNAMES]; sv_ = [H.sym_str(e, 'saved%d.%s' % (lv, n), 2) for n in VNAMES]
        saved.append((sd, sv_)); 
    stack_items = [E(SVT, SV_ANY, {SV_ANY: [e.alloc(st, M([(sd[i], mk_str(VNAMES[i]), sv_[i]) for i in range(len(VNAMES))]))]}) for sd, sv_ in saved]
    st.m[(0, 'state')] = M([(True, mk_str('scope_stack'), E(SVT, SV_LIST, {SV_LIST: [V(scope_depth, stack_items)]}))]) if scope_depth else M([])
    fs = e.fresh_int('F.start', 0, 50); fe = e.fresh_int('F.end', 0, 60); fb = e.fresh_bool('F.scoped')
    e.assume(fs < fe)
    info = T([mk_str('F'), fs, fe, fb], FM + '::FunctionMetaInfo')
    st.m[(0, 'info')] = info
    e.run_call(FM + '::store_fn_info_in_state', st, [P(0, 'state'), P(0, 'info')], 'sdk')
    entries = []
    for k in range(depth):
        ci = dict(call_line=e.fresh_int('cs%d.call_line' % k, 0, 60), start=e.fresh_int('cs%d.start' % k, 0, 50), end=e.fresh_int('cs%d.end' % k, 0, 60),
                  ctx=merge(e.fresh_bool('cs%d.ctx' % k), mk_str('c'), S(0, [])), out=E(OPTION, zite(e.fresh_bool('cs%d.out.present' % k), 1, 0), {0: [], 1: [merge(e.fresh_bool('cs%d.out.w' % k), mk_str('w'), mk_str('o'))]}),
                  scoped=e.fresh_bool('cs%d.scoped' % k))
        e.assume(ci['start'] < ci['end'])
        entries.append(ci)
        st.m[(0, 'ci')] = T([ci['call_line'], ci['start'], ci['end'], ci['ctx'], ci['out'], ci['scoped']], FM + '::CallInfo')
        e.run_call(FM + '::push_to_call_stack', st, [P(0, 'state'), P(0, 'ci')], 'sdk')
    return st, (fs, fe, fb), entries, saved


def _pop_entries(e, st, n):
    """pop n entries with the REAL pop_from_call_stack; [(present, CallInfo value)]"""
    out = []
    for _ in range(n):
        r = e.run_call(FM + '::pop_from_call_stack', st, [P(0, 'state')], 'sdk')
        out.append(r)
    return out


def _ci_eq(r, ci):
    """Option<CallInfo> r is Some(ci)"""
    if 1 not in r.p: return False
    c = r.p[1][0]
    return zand(zeq(r.d, 1), zeq(c.f[0], ci['call_line']), zeq(c.f[1], ci['start']), zeq(c.f[2], ci['end']), str_eq(c.f[3], ci['ctx']), deep_eq(c.f[4], ci['out']), zeq(c.f[5], ci['scoped']))


def _vars(e, tag):
    d = [e.fresh_bool('%s.def.%s' % (tag, n)) for n in VNAMES]; v = [H.sym_str(e, '%s.%s' % (tag, n), 2) for n in VNAMES]
    return d, v, M([(d[i], mk_str(VNAMES[i]), v[i]) for i in range(len(VNAMES))])


def _vars_are(e, st, mv, d, v, skip=()):
    cs = []; cnt = 0; exp = 0
    for i, n in enumerate(VNAMES):
        f_, x_, _ = map_lookup(e, st, mv, mk_str(n))
        if n not in skip: cs.append(zand(zeq(f_, d[i]), zimp(d[i], str_eq(x_, v[i]) if x_ is not POISON else False)))
    for p_, k_, x_ in mv.ents: cnt = cnt + zite(p_, 1, 0)
    for i, n in enumerate(VNAMES): exp = exp + zite(d[i], 1, 0)
    if not skip: cs.append(zeq(cnt, exp))
    return zand(*cs)


def job_fn_steps(ctx, jr):
    """call, return and end of a function as single steps from an arbitrary call stack (entries pushed by the real push_to_call_stack
    from symbolic values), arbitrary variables and an arbitrary scope stack: recursion of any depth and call sequences of any length
    are iterations of these steps (with the runner step lemma of C03)."""
    from .c12 import map_eq
    jr.bounds = dict(call_stack='0..2 arbitrary entries below the one concerned', variables=VNAMES, scope_stack='0..2 arbitrary saved maps', function='arbitrary start < end, scoped or not',
                     claim='one-step lemmas (DESIGN.md 8.18); the iteration-state of loops left by return is the open known finding and not part of these lemmas')
    CONT, GOTO, ERR = 0, 1, 2
    SVT = 'types::runtime::StateValue'; SV = ctx.types.enums[SVT]; SV_LIST, SV_ANY = SV.index('List'), SV.index('Any')

    def scope_stack_of(e, st):
        f_, ss, _ = map_lookup(e, st, e.read(st, ('mem', 0, 'state', [])), mk_str('scope_stack'))
        return f_, (ss.p[SV_LIST][0] if isinstance(ss, E) and SV_LIST in ss.p else V(0, []))
    # ---- A. the call
    for depth in (0, 1, 2):
        e = ctx.engine(unwind=8, max_rec=6); e.int_digits = 2; t0 = time.time()
        st, (fs, fe, fb), entries, saved = _fn_state(ctx, e, depth, 1)
        d0, v0, V0 = _vars(e, 'caller'); st.m[(0, 'vars')] = V0
        na = e.fresh_int('nargs', 0, 2); a1 = H.sym_str(e, 'a1', 2); a2 = H.sym_str(e, 'a2', 2)
        known = e.fresh_bool('function.known'); L = e.fresh_int('L', 0, 60)
        outv = E(OPTION, zite(e.fresh_bool('out.present'), 1, 0), {0: [], 1: [merge(e.fresh_bool('out.w'), mk_str('w'), mk_str('o'))]})
        st.m[(0, 'args')] = V(na, [a1, a2])
        rv = e.run_call(FM + '::run_call', st, [merge(known, mk_str('F'), mk_str('G')), P(0, 'args'), P(0, 'state'), P(0, 'vars'), outv, L], 'sdk')
        obs = [(znot(known), zeq(rv.d, ERR), 'calling an undefined function is the error result')]
        obs.append((known, zand(zeq(rv.d, GOTO), zeq(rv.p[GOTO][0].d, 0), zeq(rv.p[GOTO][1].d, 1), zeq(rv.p[GOTO][1].p[1][0], fs + 1)) if GOTO in rv.p else False, 'a call jumps to the first line of the body with no output of its own'))
        post_vars = e.read(st, ('mem', 0, 'vars', []))
        exp_d = list(d0); exp_v = list(v0)
        for i_, (nm, av) in enumerate((('1', a1), ('2', a2))):
            k_ = VNAMES.index(nm); exp_d[k_] = zor(zand(znot(fb), d0[k_]), na > i_); exp_v[k_] = merge(na > i_, av, v0[k_])
        for k_, nm in enumerate(VNAMES):
            if nm not in ('1', '2'): exp_d[k_] = zand(znot(fb), d0[k_])
        obs.append((known, _vars_are(e, st, post_vars, exp_d, exp_v), 'the body sees ${1}..${n} bound to the argument values; a <scope> function sees nothing else of the caller, a plain one sees everything'))
        sf, ss = scope_stack_of(e, st)
        if len(ss.it) >= 2:
            top = e.deref(st, ss.it[1].p[SV_ANY][0]) if isinstance(ss.it[1], E) and SV_ANY in ss.it[1].p else M([])
            obs.append((zand(known, fb), zand(zeq(ss.len, 2), _vars_are(e, st, top, d0, v0)), 'a <scope> call saves the variables of the caller on the scope stack'))
        obs.append((zand(known, znot(fb)), zeq(ss.len, 1), 'a plain call leaves the scope stack alone'))
        pops = _pop_entries(e, st, depth + 1)
        newci = dict(call_line=L, start=fs, end=fe, ctx=S(0, []), out=outv, scoped=fb)
        obs.append((known, _ci_eq(pops[0], newci), 'the call is recorded on top of the call stack: call line, body range, output variable, scope flag'))
        for k in range(depth): obs.append((known, _ci_eq(pops[1 + k], entries[depth - 1 - k]), 'the entries below are untouched'))
        for g, cnd, msg in obs: e.obligations.append(Obligation(g, cnd, 'C05 call lemma (stack depth %d): %s' % (depth, msg), 'assert', 'oracle'))
        jr.symex_time += time.time() - t0
        res = discharge_known(e, jr, PID, {}, lambda m, o=None, depth=depth: dict(kind='lemma', level='fn', step='call', depth=depth))
        H.finish_job(jr, e, res)
    # ---- B. return / C. end of function
    for step in ('return', 'end'):
        for below in (0, 1, 2):
            e = ctx.engine(unwind=8, max_rec=6); e.int_digits = 2; t0 = time.time()
            st, _, entries, saved = _fn_state(ctx, e, below + 1, 1)
            top = entries[-1]
            dc, vc, Vc = _vars(e, 'callee'); st.m[(0, 'vars')] = Vc
            L = e.fresh_int('L', 0, 60)
            na = e.fresh_int('nargs', 0, 1); val = H.sym_str(e, 'value', 2)
            argv = V(na if step == 'return' else 0, [val])
            ctxv = T([argv, P(0, 'state'), P(0, 'vars'), none(), PV(V(0, [])), P(0, 'cmds'), L, P(0, 'env')], 'types::command::CommandInvocationContext')
            st.m[(0, 'cmds')] = T([M([]), M([])], 'types::command::Commands'); st.m[(0, 'env')] = T([Opaque('out'), Opaque('err'), e.alloc(st, False)], 'types::env::Env')
            ty = FM + ('::ReturnCommand' if step == 'return' else '::EndFunctionCommand')
            f = e.find_method(ty, 'Command', 'run', 'sdk')
            if f is None: raise NotRecognised('no run impl for ' + ty)
            rs, rv = e.call_fn(f, st, [PV(T([mk_str('std::flowcontrol')], ty)), ctxv])
            if rs is None: raise Abort('%s never returns' % step)
            inside = zand(top['start'] < L, top['end'] > L) if step == 'return' else zeq(top['end'], L)
            match = zand(inside, zeq(top['ctx'].len, 0))          # the current line context name is the default (empty) one
            sd, sv_ = saved[0]
            oname = top['out'].p[1][0]; has_o = zeq(top['out'].d, 1)
            obs = []
            post_vars = e.read(rs, ('mem', 0, 'vars', []))
            obs.append((zand(rs.g, znot(match)), zand(zeq(rv.d, CONT), _vars_are(e, rs, post_vars, dc, vc)), '%s outside the body of the innermost call does nothing' % step))
            with_val = zand(na > 0) if step == 'return' else False
            gv_ok = zand(zeq(rv.d, GOTO), zeq(rv.p[GOTO][1].d, 1), zeq(rv.p[GOTO][1].p[1][0], top['call_line'] + 1), zeq(rv.p[GOTO][0].d, zite(with_val, 1, 0)) if step == 'return' else zeq(rv.p[GOTO][0].d, 0)) if GOTO in rv.p else False
            obs.append((zand(rs.g, match), gv_ok, '%s resumes behind the call line' % step))
            # variables afterwards
            def expected(scoped):
                base_d, base_v = (list(sd), list(sv_)) if scoped else (list(dc), list(vc))
                loose = []
                if step == 'return':
                    for k_, nm in enumerate(VNAMES):
                        if nm in ('o', 'w'):
                            hit = zand(has_o, str_eq(oname, mk_str(nm)))
                            if scoped:
                                base_d[k_] = zor(base_d[k_], zand(hit, with_val)); base_v[k_] = merge(zand(hit, with_val), val, base_v[k_])
                            else:
                                base_d[k_] = zite(hit, with_val, base_d[k_]); base_v[k_] = merge(zand(hit, with_val), val, base_v[k_])
                return base_d, base_v
            for scoped in (False, True):
                bd, bv = expected(scoped)
                g_ = zand(rs.g, match, zeq(top['scoped'], scoped))
                if scoped and step == 'return':
                    # corner left open by the property: a <scope> function that ends without a value into an output variable that already held one
                    for k_, nm in enumerate(VNAMES):
                        f_, x_, _ = map_lookup(e, rs, post_vars, mk_str(nm))
                        open_ = zand(has_o, str_eq(oname, mk_str(nm)), znot(with_val)) if nm in ('o', 'w') else False
                        obs.append((zand(g_, znot(open_)), zand(zeq(f_, bd[k_]), zimp(bd[k_], str_eq(x_, bv[k_]) if x_ is not POISON else False)), 'after a <scope> call the %s of the caller is as before (plus the returned value)' % nm))
                else:
                    obs.append((g_, _vars_are(e, rs, post_vars, bd, bv), ('after a <scope> call the variables of the caller are exactly as before' if scoped else 'a plain function leaves its variables; the output variable gets the value or becomes undefined')))
            sf, ss = scope_stack_of(e, rs)
            obs.append((zand(rs.g, match), zeq(ss.len, zite(top['scoped'], 0, 1)), 'the saved scope is taken off exactly for a <scope> call'))
            obs.append((zand(rs.g, znot(match)), zeq(ss.len, 1), 'otherwise the scope stack is untouched'))
            pops = _pop_entries(e, rs, below + 1)
            for k in range(below): obs.append((zand(rs.g, match), _ci_eq(pops[k], entries[below - 1 - k]), 'the call is taken off the call stack, the entries below are untouched'))
            obs.append((zand(rs.g, match), zeq(pops[below].d, 0), 'nothing else is on the call stack'))
            obs.append((zand(rs.g, znot(match)), _ci_eq(pops[0], top), 'outside the body the call stack is untouched'))
            for g, cnd, msg in obs: e.obligations.append(Obligation(g, cnd, 'C05 %s lemma (%d below): %s' % (step, below, msg), 'assert', 'oracle'))
            jr.symex_time += time.time() - t0
            res = discharge_known(e, jr, PID, {}, lambda m, o=None, step=step, below=below: dict(kind='lemma', level='fn', step=step, depth=below))
            witness(jr, e, '%s lemma: inside the body of a <scope> call with an output variable' % step, zand(rs.g, match, top['scoped'], has_o), lambda m, o=None: dict(kind='lemma', level='fn'))
            H.finish_job(jr, e, res)
