"""C05 - functions: arguments, return values, early return and scoped isolation (whole runs, control flow concretised)."""
import time, itertools, random
import z3
from mirsym import harness as H, solve
from mirsym.values import *
from mirsym.engine import State, Obligation, some, none, OPTION
from mirsym.harness import process_failed, witness, discharge_known
from mirsym.models import map_lookup, map_insert, str_concat
from .common import *
from .c04 import spellings, IF, ELSEIF, ELSE, ENDIF, WHILE, ENDWHILE, FOR, ENDFOR, FN, ENDFN, END, CRES, ITEMS
from .c11 import hook_put_handle

PID = 'C05'


class Return(Exception):
    def __init__(s, v): s.v = v


# ---------------------------------------------------------------------- program generator
def gen_body(rnd, depth, budget, fnames, in_fn, tagc, scoped=False):
    out = []
    for _ in range(rnd.randint(1, 3)):
        if budget[0] <= 0: break
        budget[0] -= 1
        kinds = ['emit', 'emit', 'call', 'set']
        if depth > 0: kinds += ['if', 'for']
        if in_fn: kinds += ['return', 'return']
        k = rnd.choice(kinds)
        if k == 'emit':
            out.append(('emit', [rnd.choice([chr(97 + tagc[0] % 26), ('var', '1'), ('var', 'i'), ('var', 'x0'), ('var', 's'), ('var', 'g')])])); tagc[0] += 1
        elif k == 'set': out.append(('set', rnd.choice(['s', 'g'] + (['x0', 'x1'] if scoped else [])), rnd.choice(['k', ('var', 'i'), ('var', '1')])))      # a local named like a caller's output variable only in scoped bodies
        elif k == 'return': out.append(('return', rnd.choice([None, 'r', ('var', 'i'), ('var', '1'), ('var', 's')])))
        elif k == 'call':
            if not fnames: continue
            tagc[0] += 1
            out.append(('call', rnd.choice([None, 'y%d' % tagc[0]]), rnd.choice(fnames), [rnd.choice(['a', ('var', 'i'), ('var', 'c1'), ('var', 'arr'), ('var', '1')]) for _ in range(rnd.randint(0, 2))]))
        elif k == 'if':
            c = ('var', rnd.choice(['c1', 'c2', '1']))
            out.append(('if', [(c, gen_body(rnd, depth - 1, budget, fnames, in_fn, tagc, scoped))], gen_body(rnd, depth - 1, budget, fnames, in_fn, tagc, scoped) if rnd.random() < 0.4 else None))
        elif k == 'for':
            out.append(('for', 'i', rnd.choice(['arr', '1'] if in_fn else ['arr']), gen_body(rnd, depth - 1, budget, fnames, in_fn, tagc, scoped)))
    return out


def gen_program(rnd, depth, size):
    tagc = [0]; budget = [size]
    nf = rnd.randint(1, 2)
    fns = []
    names = ['f%d' % i for i in range(nf)]
    for i in range(nf):
        callable_ = names[:i] + ([names[i]] if rnd.random() < 0.25 else [])       # earlier functions, sometimes itself (guarded below)
        scoped = rnd.random() < 0.5
        body = gen_body(rnd, depth, budget, callable_, True, tagc, scoped)
        if names[i] in callable_:
            # recursion is guarded by the first argument and always passes false down
            body = [('if', [(('var', '1'), [('call', None, names[i], ['false'])])], None)] + [s for s in body if not (s[0] == 'call' and s[2] == names[i])]
        fns.append((names[i], scoped, body))
    main = gen_body(rnd, depth, [size], names, False, tagc)
    # make sure every function is called at least twice (the second call starts afresh)
    for k_, n in enumerate(names):
        # an output variable that is undefined before the call and shares its name with a local of scoped bodies
        main.append(('call', 'x%d' % k_, n, [rnd.choice(['a', 'false'])])); main.append(('emit', [('var', 'x%d' % k_), 'z']))
        for _ in range(2):
            tagc[0] += 1
            main.append(('call', 'y%d' % tagc[0], n, [rnd.choice(['true', ('var', 'arr'), 'a'])])); main.append(('emit', [('var', 'y%d' % tagc[0])]))
        if not fns[k_][1]:
            # not <scope>: the output variable already holds a value (set by hand, then left by the previous call); a call that ends
            # without a value must leave it undefined (for <scope> functions this corner is left open by the property)
            main.append(('set', 'w%d' % k_, 'k'))
            for arg in ('false', 'a'):
                main.append(('call', 'w%d' % k_, n, [arg])); main.append(('emit', [('var', 'w%d' % k_), 'z']))
    return fns, main


def render(fns, main, sp, rnd):
    lines = []
    def a(x): return '${%s}' % x[1] if isinstance(x, tuple) else x
    def blk(prog):
        for st in prog:
            if st[0] == 'emit': lines.append('emit ' + ' '.join(a(x) for x in st[1]))
            elif st[0] == 'set': lines.append('%s = set %s' % (st[1], a(st[2])))
            elif st[0] == 'return': lines.append('return' + ('' if st[1] is None else ' ' + a(st[1])))
            elif st[0] == 'call': lines.append(('%s = ' % st[1] if st[1] else '') + st[2] + ''.join(' ' + a(x) for x in st[3]))
            elif st[0] == 'if':
                for bi, (c, b) in enumerate(st[1]):
                    lines.append('%s %s' % (rnd.choice(sp[IF] if bi == 0 else sp[ELSEIF]), a(c))); blk(b)
                if st[2] is not None: lines.append(rnd.choice(sp[ELSE])); blk(st[2])
                lines.append(rnd.choice(sp[ENDIF] + sp[END]))
            elif st[0] == 'for':
                lines.append('%s %s in ${%s}' % (rnd.choice(sp[FOR]), st[1], st[2])); blk(st[3]); lines.append(rnd.choice(sp[ENDFOR] + sp[END]))
    for name, scoped, body in fns:
        lines.append('%s %s%s' % (rnd.choice(sp[FN]), '<scope> ' if scoped else '', name)); blk(body); lines.append(rnd.choice(sp[ENDFN] + sp[END]))
    blk(main)
    return lines


# ---------------------------------------------------------------------- reference interpreter (concrete control, symbolic data)
def truthy_c(sv):
    s = str_concrete(sv)
    if s is None: return True          # symbolic array items p/q are truthy
    return s.lower() not in ('', '0', 'false', 'no')


def interp(fns, main, init, arrays):
    fmap = {n: (sc, b) for n, sc, b in fns}
    trace = [S(0, [])]
    depth = [0]
    unconstrained = set()

    def val(env, x):
        if isinstance(x, tuple): return env.get(x[1], S(0, []))
        return mk_str(x)

    def run(prog, env):
        for st in prog:
            if st[0] == 'emit':
                for x in st[1]: trace[0] = str_concat(trace[0], val(env, x))
            elif st[0] == 'set': env[st[1]] = val(env, st[2])
            elif st[0] == 'return': raise Return(None if st[1] is None else val(env, st[1]))
            elif st[0] == 'call':
                out, fname, args = st[1], st[2], [val(env, x) for x in st[3]]
                sc, body = fmap[fname]
                depth[0] += 1
                if depth[0] > 6: raise RuntimeError('recursion too deep in the reference')
                if out: env.pop(out, None)              # the call itself yields no value
                fenv = {} if sc else env
                for i, v in enumerate(args): fenv[str(i + 1)] = v
                rv = None
                try: run(body, fenv)
                except Return as r: rv = r.v
                depth[0] -= 1
                if out:
                    if rv is None: env.pop(out, None)
                    else: env[out] = rv
            elif st[0] == 'if':
                done = False
                for c, b in st[1]:
                    if truthy_c(val(env, c)): run(b, env); done = True; break
                if not done and st[2] is not None: run(st[2], env)
            elif st[0] == 'for':
                h = str_concrete(val(env, ('var', st[2])))
                items = arrays.get(h)
                if items is None: raise RuntimeError('for over a non-array in the reference: %r' % h)
                for it in items:
                    env[st[1]] = it; run(st[3], env)
    env = dict(init)
    run(main, env)
    return trace[0], env


def job_runs(ctx, jr, seeds, depth, size):
    sp = spellings(ctx)
    jr.bounds = dict(programs=len(seeds), functions='1..2 (scoped or not, 25% self-recursive with a guard)', nesting=depth, statements='<= %d per body' % size,
                     control='exhaustive over c1, c2 in {true,false} and the array length 0..2', data='array items symbolic from %r' % ITEMS)
    vs = ctx.types.enums['types::runtime::StateValue']; STR = vs.index('String'); LIST = vs.index('List'); SUB = vs.index('SubState')
    for sd in seeds:
        rnd = random.Random(sd)
        fns, main = gen_program(rnd, depth, size)
        lines = render(fns, main, sp, rnd)
        jr.samples.append(' | '.join(lines))
        for c1, c2, alen in itertools.product(['true', 'false'], ['true', 'false'], [0, 1, 2]):
            e = ctx.engine(unwind=1500, max_rec=8); e.int_digits = 2      # a cap on fetch/execute iterations, far above any generated program's run
            e.hooks['utils::state::put_handle'] = hook_put_handle
            e.hooks['std::sync::atomic::Atomic::<bool>::load'] = lambda eng, st1, a, c: False
            t0 = time.time()
            st = State(True, {})

            def h_emit(eng, st1, a):
                c = a[1]; vars_p = c.f[2]; mv = eng.deref(st1, vars_p)
                # the trace lives in the state (not in the variables: scoped functions hide variables)
                sp_ = c.f[1]; sm = eng.deref(st1, sp_)
                f, tr, _ = map_lookup(eng, st1, sm, mk_str('harness::trace'))
                old = tr.p[STR][0] if f is not False and isinstance(tr, E) else S(0, [])
                add = S(0, [])
                for i, x in enumerate(c.f[0].it): add = merge(simp(i < c.f[0].len), str_concat(add, x), add)
                m2, _, _ = map_insert(eng, st1, sm, mk_str('harness::trace'), E('types::runtime::StateValue', STR, {STR: [str_concat(old, add)]}))
                eng.store(st1, sp_, m2)
                return E(CRES, 0, {0: [none()]})
            e.dyn_impls[('harness::Emit', 'run')] = h_emit
            e.dyn_impls[('harness::Emit', 'clone_and_box')] = lambda eng, st1, a: eng.alloc(st1, a[0])
            st.m[(0, 'cmds')] = T([M([(True, mk_str('emit'), e.alloc(st, T([], 'harness::Emit'))),
                                      (True, mk_str('set'), e.alloc(st, T([mk_str('std')], 'sdk::std::var::set::CommandImpl')))]), M([])], 'types::command::Commands')
            e.run_call('sdk::std::flowcontrol::load', st, [P(0, 'cmds'), mk_str('std')], 'sdk')
            commands = st.m[(0, 'cmds')]
            aitems = [S(1, [e.fresh_int('arr.%d' % k, ord('p'), ord('q'))]) for k in range(alen)]
            lst = E('types::runtime::StateValue', LIST, {LIST: [V(alen, [E('types::runtime::StateValue', STR, {STR: [x]}) for x in aitems])]})
            state = M([(True, mk_str('handles'), E('types::runtime::StateValue', SUB, {SUB: [M([(True, mk_str('handle:arr'), lst)])]}))])
            init = {'arr': mk_str('handle:arr'), 'c1': mk_str(c1), 'c2': mk_str(c2), 'g': mk_str('G')}
            variables = M([(True, mk_str(n_), v_) for n_, v_ in init.items()])
            instrs = []
            for i, l in enumerate(lines):
                toks = l.split(); out = None
                if len(toks) >= 2 and toks[1] == '=': out = toks[0]; toks = toks[2:]
                si = T([none(), some(mk_str(out)) if out else none(), some(mk_str(toks[0])), some(V(len(toks) - 1, [mk_str(t) for t in toks[1:]])) if len(toks) > 1 else none()], 'types::instruction::ScriptInstruction')
                instrs.append(T([meta_new(i + 1), E('types::instruction::InstructionType', 2, {2: [si]})], 'types::instruction::Instruction'))
            context = T([variables, state, commands], 'types::runtime::Context')
            env = some(T([Opaque('out'), Opaque('err'), e.alloc(st, False)], 'types::env::Env'))
            try:
                exp_trace, exp_env = interp(fns, main, init, {'handle:arr': aitems})
            except RuntimeError as ex:
                jr.notes.append('seed %d skipped: %s' % (sd, ex)); break
            rs, rv = e.run('core', 'runner::run', [V(len(instrs), instrs), context, env], st)
            jr.symex_time += time.time() - t0
            if rs is None:
                e.obligations.append(Obligation(True, False, 'C05 run(seed %d): the program never returns' % sd, 'assert', 'oracle'))
                rs = State(True, {}); rv = E('std::result::Result', 1, {})
            checks = [('the program runs to completion', zeq(rv.d, 0))]
            if 0 in rv.p:
                fin = rv.p[0][0].f[0]; fstate = rv.p[0][0].f[1]
                f, tr, _ = map_lookup(e, rs, fstate, mk_str('harness::trace'))
                got = tr.p[STR][0] if f is not False and isinstance(tr, E) else S(0, [])
                checks.append(('the trace of executed commands with their argument values equals the reference interpreter (calls, returns, scopes)', zimp(zeq(rv.d, 0), str_eq(got, exp_trace))))
                # caller variables after all calls: outputs and ordinary variables (positional variables of unscoped calls are not constrained)
                for name in sorted(set(list(exp_env) + ['x0', 'x1', 's', 'g']) - {'i'}):
                    if name.isdigit(): continue
                    f2, v2, _ = map_lookup(e, rs, fin, mk_str(name))
                    checks.append(('final variable %s defined as in the reference' % name, zimp(zeq(rv.d, 0), zeq(f2, name in exp_env))))
                    if name in exp_env and f2 is not False: checks.append(('final variable %s value' % name, zimp(zand(zeq(rv.d, 0), f2), str_eq(v2, exp_env[name]))))
            for msg, c in checks: e.obligations.append(Obligation(rs.g, c, 'C05 run(seed %d): %s' % (sd, msg), 'assert', 'oracle'))

            def extract(m, o=None):
                return dict(kind='c05', script=lines, vars=dict(c1=c1, c2=c2, g='G'), array=[solve.model_str(m, x) for x in aitems], expected_trace=solve.model_str(m, exp_trace),
                            expected_vars={k: solve.model_str(m, v) for k, v in exp_env.items() if not k.isdigit() and k not in ('i', 'arr')})
            classes = {'forin-left-by-return': (True, ('assert',))} if _has_return_in_for(fns) else {}
            res = discharge_known(e, jr, PID, classes, extract)
            H.finish_job(jr, e, res)
            if jr.violations: break


def _has_return_in_for(fns):
    def walk(prog, infor):
        for s_ in prog:
            if s_[0] == 'return' and infor: return True
            if s_[0] == 'for' and walk(s_[3], True): return True
            if s_[0] == 'if':
                for c, b in s_[1]:
                    if walk(b, infor): return True
                if s_[2] and walk(s_[2], infor): return True
        return False
    return any(walk(b, False) for _, _, b in fns)


def replayer(v):
    script = 'arr = array %s\n' % ' '.join(v['array']) + '\n'.join(v['script'])
    out = H.replay(dict(mode='scripted_sdk', script=script, vars=v['vars'], recorders=['emit'], recorder_output='')); v['native'] = out
    if out.get('panic'): return (True, 'native panic')
    if not out.get('ok'): return (True, 'native run failed: %r' % (out.get('error'),))
    real = out.get('vars', {}).get('arr', 'handle:arr')          # the native handle key is random
    fixh = lambda t: t.replace(real, 'handle:arr') if real else t
    trace = fixh(''.join(''.join(l['arguments']) for l in out.get('log', [])))
    if trace != v['expected_trace']: return (True, 'native trace %r, reference %r' % (trace, v['expected_trace']))
    got = {k: fixh(x) for k, x in out['vars'].items() if k in v['expected_vars'] or k in ('x0', 'x1', 's', 'g')}
    exp = dict(v['expected_vars'])
    return (got != exp, 'native vars %r, reference %r' % (got, exp))


def main(tier, seed):
    chk = H.Check(PID, tier, seed)
    chk.replayer = replayer
    nprog = 120 if tier == 'quick' else 500
    seeds = [seed * 100000 + 50000 + i for i in range(nprog)]
    for gi in range(12): chk.job(job_runs, 'programs/%d' % gi, seeds=seeds[gi::12], depth=2, size=5 if tier == 'quick' else 7)
    chk.bounds = dict(programs=nprog, per_program='every assignment of c1, c2 and the array length; array items symbolic')
    chk.assumptions = ['whole runs through the real runner, the real function/return/end commands, scope push/pop and the other flow-control commands (registry built by executing flowcontrol::load) against a reference interpreter with real call frames',
                       'programs are generated (seeded); the control-flow dimension is enumerated exhaustively per program, the data dimension (array items) is decided by the solver',
                       'left open as in the property: positional variables after unscoped calls; scoped call ending without a value into an output variable that already held a value (fresh output names are generated)',
                       'calls in condition position are not generated (they go through utils::eval, C09)']
    results = chk.run()
    return chk.finish(results, 'per program and control assignment: solver query over the symbolic data; control assignments enumerated exhaustively')
