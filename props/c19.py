"""C19 - script-implemented library commands leave no trace in the caller's variables (reduced scope: the wrapper mechanism)."""
import time, os, sys
import z3
from mirsym import harness as H, solve
from mirsym.values import *
from mirsym.engine import State, Obligation, some, none, OPTION
from mirsym.harness import process_failed, witness, discharge_known
from mirsym.models import map_lookup, match_at, str_concat
from .common import *
from .c03 import choose
from .c06 import invocation_context
from .c11 import hook_put_handle
from .c12 import sv_eq, map_eq

PID = 'C19'
CR = 'types::command::CommandResult'
SCOPE = 'scope::cmd'
CALLER_NAMES = ['a', 'scope::cmdx::y', 'scope::cmd', 'scope::other::arguments', 'zz']
SV = 'types::runtime::StateValue'


def job_wrapper(ctx, jr, nargs, vcap):
    jr.bounds = dict(arguments=nargs, value_chars=vcap, caller_variables='3 symbolic picks from %r' % (CALLER_NAMES,), handles='0..2 pre-existing',
                     body='havoc stub: arbitrary changes to variables under the prefix %s::, arbitrary result' % SCOPE)
    vs = ctx.types.enums[SV]
    e = ctx.engine(unwind=10, max_rec=3); e.int_digits = 2
    e.hooks['utils::state::put_handle'] = hook_put_handle
    t0 = time.time()
    args = [H.sym_str(e, 'arg%d' % i, vcap) for i in range(nargs)]
    amount = e.fresh_int('arguments_amount', 0, 3)
    # caller variables
    cn = [e.fresh_int('cv%d.name' % i, 0, len(CALLER_NAMES) - 1) for i in range(3)]
    cp = [e.fresh_bool('cv%d.present' % i) for i in range(3)]
    cval = [H.sym_str(e, 'cv%d.val' % i, vcap) for i in range(3)]
    e.assume(z3.And(cn[0] < cn[1], cn[1] < cn[2]))
    pre_vars = M([(cp[i], choose(cn[i], CALLER_NAMES), cval[i]) for i in range(3)])
    # pre-existing handles
    hp = [e.fresh_bool('h%d.present' % i) for i in range(2)]
    k = vs.index('String')
    htab = M([(hp[i], mk_str('handle:P%d' % i), E(SV, k, {k: [H.sym_str(e, 'h%d.val' % i, vcap)]})) for i in range(2)])
    SUB = vs.index('SubState')
    state = M([(True, mk_str('handles'), E(SV, SUB, {SUB: [htab]}))])
    # the body: havoc under the prefix
    fr_kind = e.fresh_int('flow.kind', 0, 5)       # 0..4 CommandResult variants, 5 = no result (body ran to its end)
    fo = E(OPTION, zite(e.fresh_bool('flow.out.present'), 1, 0), {0: [], 1: [H.sym_str(e, 'flow.out', vcap)]})
    msg = H.sym_str(e, 'flow.msg', vcap)
    seen = {}

    def h_body(eng, st1, a, callee):
        vars_p = a[3]
        mv = eng.deref(st1, vars_p)
        seen['vars_at_body'] = mv
        prefix = mk_str(SCOPE + '::')
        ents = []
        for i, (p, kk, vv) in enumerate(mv.ents):
            pref = simp(match_at(kk, prefix, 0)) if isinstance(kk, S) else False
            ents.append((zite(pref, eng.fresh_bool('havoc.p%d' % i), p), kk, merge(pref, eng.fresh_str('havoc.v%d' % i, vcap), vv)))
        for j in range(2):
            ents.append((eng.fresh_bool('havoc.new%d' % j), str_concat(prefix, eng.fresh_str('havoc.k%d' % j, 2)), eng.fresh_str('havoc.nv%d' % j, vcap)))
        # new prefixed keys must not collide with existing keys (map invariant)
        for j in range(2):
            for i, (p, kk, vv) in enumerate(ents[:-2 + j] if j else ents[:-2]):
                if isinstance(kk, S): eng.assume(z3.Implies(z3.And(ents[-2 + j][0], p if is_sym(p) else z3.BoolVal(bool(p))), z3.Not(str_eq(kk, ents[-2 + j][1]))))
        eng.store(st1, vars_p, M(ents))
        gv = E('types::command::GoToValue', 1, {1: [0]})
        res = E(CR, zite(fr_kind == 5, 0, fr_kind), {0: [fo], 1: [fo, gv], 2: [msg], 3: [msg], 4: [fo]})
        return T([E(OPTION, zite(fr_kind == 5, 0, 1), {0: [], 1: [res]}), fo])
    e.hooks['utils::eval::eval_instructions'] = h_body
    selfv = T([mk_str('cmd'), V(0, []), mk_str('help'), mk_str(SCOPE), mk_str(''), amount, V(0, [])], 'types::command::AliasCommand')
    ctxv, st = invocation_context(e, V(nargs, args))
    st.m[(0, 'state')] = state; st.m[(0, 'vars')] = pre_vars
    f = e.find_method('types::command::AliasCommand', 'Command', 'run', 'sdk')
    if f is None: raise Abort('AliasCommand::run not found')
    rs, rv = e.call_fn(f, st, [PV(selfv), ctxv])
    jr.symex_time = time.time() - t0
    if rs is None: raise Abort('never returns')
    if os.environ.get('VERIF_DEBUG_BODY'): print('DEBUG rv', rv, file=sys.stderr)
    post_vars = e.read(rs, ('mem', 0, 'vars', [])); post_state = e.read(rs, ('mem', 0, 'state', []))
    checks = []
    too_few = nargs < amount if not is_sym(amount) else (amount > nargs)
    checks.append(('too few arguments is an error', zimp(too_few, zeq(rv.d, 2))))
    # caller variables exactly as before
    for i in range(3):
        f_, v_, _ = map_lookup(e, rs, post_vars, choose(cn[i], CALLER_NAMES))
        checks.append(('caller variable %d is exactly as before' % i, zand(zeq(f_, cp[i]), zimp(cp[i], str_eq(v_, cval[i]) if v_ is not POISON else False))))
    cnt = 0
    for p, kk, vv in post_vars.ents: cnt = cnt + zite(p, 1, 0)
    exp = 0
    for i in range(3): exp = exp + zite(cp[i], 1, 0)
    checks.append(('no other variable remains (no scope::cmd::... working variable, no published argument)', zeq(cnt, exp)))
    # handles exactly as before (temporary argument array released)
    pf, psub, _ = map_lookup(e, rs, post_state, mk_str('handles'))
    ptab = psub.p[SUB][0] if isinstance(psub, E) and SUB in psub.p else M([])
    checks.append(('the handle table is exactly as before (temporary arguments array released)', map_eq(e, rs, ptab, htab)))
    hc = 0
    for p, kk, vv in ptab.ents: hc = hc + zite(p, 1, 0)
    checks.append(('no extra handle remains', zeq(hc, zite(hp[0], 1, 0) + zite(hp[1], 1, 0))))
    # the result is the body's result (or Continue(last output))
    checks.append(('the result is the result of the body', zimp(znot(too_few), zeq(rv.d, zite(fr_kind == 5, 0, fr_kind)))))
    for msg_, c in checks: e.obligations.append(Obligation(rs.g, c, 'C19 wrapper/%d args: %s' % (nargs, msg_), 'assert', 'oracle'))

    def extract(m, o=None):
        return dict(kind='c19', args=[solve.model_str(m, a) for a in args], amount=solve.model_int(m, amount),
                    caller={CALLER_NAMES[solve.model_int(m, cn[i])]: solve.model_str(m, cval[i]) for i in range(3) if solve.model_bool(m, cp[i])},
                    body_result=solve.model_int(m, fr_kind))
    res = discharge_known(e, jr, PID, {}, extract)
    witness(jr, e, 'body ends with an error result and leaves working variables', zand(rs.g, fr_kind == 2, znot(too_few)), extract)
    H.finish_job(jr, e, res)


# ---------------------------------------------------------------------- native replay: a user alias-style command via the real SDK
def wrapper_replayer(v):
    """the wrapper is reachable natively through any script-implemented std command: concat (success path) or array_join on a
    non-array (error path); caller variable names are mapped onto that command's scope prefix"""
    res_kind = v.get('body_result', 5)
    cmd = 'concat' if res_kind == 5 else 'array_join'      # any explicit body result (error, crash, exit, ...) is replayed through an erroring body
    vars_ = {k.replace('scope::cmd', 'scope::' + cmd): x for k, x in v.get('caller', {}).items()}
    def q(a): return '"%s"' % a.replace('\\', '\\\\').replace('"', '\\"').replace('\n', '\\n').replace('\r', '\\r').replace('\t', '\\t')
    if cmd == 'array_join': script = 'r = array_join %s ,' % q(v['args'][0] if v['args'] and v['args'][0] else 'x')
    else: script = 'r = concat %s' % ' '.join(q(a) for a in v['args'])
    out = H.replay(dict(mode='sdk', script=script, vars=vars_)); v['native'] = out
    if out.get('panic'): return (True, 'native panic')
    if not out.get('ok'): return (None, 'replay script failed: %r' % (out.get('error'),))
    got = {k: x for k, x in out['vars'].items() if k != 'r'}
    if got != vars_: return (True, 'caller variables changed natively: %r vs %r' % (got, vars_))
    if out.get('handles', 0) != 0: return (True, '%d handle(s) left behind natively' % out['handles'])
    return (False, 'native run leaves the caller variables and the handle table as they were')


def body_replayer(v):
    def q(a): return '"%s"' % a.replace('\\', '\\\\').replace('"', '\\"').replace('\n', '\\n').replace('\r', '\\r').replace('\t', '\\t')
    lines = []; hv = []
    for i, (kind, items) in enumerate(v['colls']):
        var = 'hh%d' % i; hv.append(var)
        if kind == 'arr': lines.append('%s = array %s' % (var, ' '.join(q(x) for x in items)))
        elif kind == 'set': lines.append('%s = set_new %s' % (var, ' '.join(q(x) for x in items)))
        else:
            lines.append('%s = map' % var)
            for j, x in enumerate(items): lines.append('map_put ${%s} %s v%d' % (var, q(x), j))
    call = []; hi = 0
    for a, k in zip(v['args'], v['argkinds']):
        if k in ('arr', 'map', 'set'): call.append('${%s}' % hv[hi]); hi += 1
        elif k == 'name': call.append(a)
        else: call.append(q(a))
    lines.append('rr = %s %s' % (v['cmd'], ' '.join(call))); call_line = len(lines)
    for var in hv: lines.append('release ${%s}' % var)
    if REAL[v['cmd']][2] == 'new': lines.append('release ${rr}')
    lines.append('rr = set done')
    out = H.replay(dict(mode='sdk', script='\n'.join(lines), vars=v['caller'])); v['native'] = out; v['script'] = lines
    if out.get('panic'): return (True, 'native panic')
    if not out.get('ok'):
        err = out.get('error') or {}
        # the call itself ends the native run (the wrapper's own leak detector, or a crash of the body): the property's "does not crash"
        if isinstance(err, dict) and err.get('line') == call_line: return (True, 'the call of %s ends the native run: %s' % (v['cmd'], err.get('message')))
        return (None, 'replay script failed: %r' % (err,))
    exp = dict(v['caller'])
    if v['cmd'] == 'unset':
        for a in v['args']: exp.pop(a, None)
    got = {k: x for k, x in out['vars'].items() if k not in hv and k != 'rr'}
    if got != exp: return (True, 'caller variables after the call natively: %r, expected %r' % (got, exp))
    if out.get('handles', 0) != 0: return (True, '%d handle(s) left behind natively' % out['handles'])
    return (False, 'native run leaves the caller variables and the handle table as they were')


def replayer(v): return body_replayer(v) if v.get('kind') == 'c19_body' else wrapper_replayer(v)


def main(tier, seed):
    chk = H.Check(PID, tier, seed)
    chk.replayer = replayer
    for c_ in REAL: chk.job(job_real_body, 'body:' + c_, cmd=c_, vcap=2)
    for c_ in MORE: chk.job(job_more_bodies, 'body:' + c_, cmd=c_, vcap=1 if tier == 'quick' else 2)
    vcap = 2 if tier == 'quick' else 3
    for n in range(0, 4): chk.job(job_wrapper, 'wrapper:%dargs' % n, nargs=n, vcap=vcap)
    chk.bounds = dict(arguments='0..3', value_chars=vcap, caller_variables=3, handles='0..2')
    chk.assumptions = ['wrapper:* jobs: the script body (utils::eval::eval_instructions) is a havoc stub constrained by the wrapper contract: it may add, change or remove any variable whose name starts with the '
                       "command's scope prefix and return any result",
                       'body:* jobs: the REAL script.ds bodies of unset, concat (1 and 2 arguments), map_contains_key, array_is_empty, set_is_empty, map_is_empty, set_from_array, array_join, array_contains and '
                       'map_contains_value are parsed and run by the real code (AliasCommand::run, eval_instructions explored per script line, the real commands they call; calc is a stub for integer +/-). '
                       'The other 10 of the 21 bodies (array_concat: too slow; the rest call commands backed by the file system, the network, process spawning or hashing crates) are covered by the wrapper jobs only',
                       'caller variables named under the command\'s own prefix (scope::<cmd>::...) are excluded: clearing them is the documented mechanism',
                       'put_handle: arbitrary non-live key']
    results = chk.run()
    return chk.finish(results, 'every obligation is a solver query over all arguments, caller variables, handle tables and body behaviours within the contract')


# ---------------------------------------------------------------------- the real bodies of script-implemented commands
REAL = {
    # command: (module path, arguments as (kind,...), effect)   kinds: 'name' variable name from the pool, 'val' arbitrary value, 'arr'/'map'/'set' a live handle of that kind
    'unset': ('sdk::std::var::unset', ('name', 'name'), 'unset'),
    'concat': ('sdk::std::string::concat', ('val',), None),
    'map_contains_key': ('sdk::std::collections::map_contains_key', ('map', 'val'), None),
    'array_is_empty': ('sdk::std::collections::array_is_empty', ('arr',), None),
    'set_is_empty': ('sdk::std::collections::set_is_empty', ('set',), None),
    'map_is_empty': ('sdk::std::collections::map_is_empty', ('map',), None),
    'set_from_array': ('sdk::std::collections::set_from_array', ('arr',), 'new'),
}


MORE = {
    # bodies whose control flow depends on their arguments (sizes and the values used in condition position are enumerated, the rest is symbolic)
    'concat2': ('sdk::std::string::concat', ('val', 'val'), None),
    'array_join': ('sdk::std::collections::array_join', ('arr', 'val'), None),
    'array_contains': ('sdk::std::collections::array_contains', ('arr', 'val'), None),
    'map_contains_value': ('sdk::std::collections::map_contains_value', ('map', 'val'), None),
}


def job_more_bodies(ctx, jr, cmd, vcap):
    from .c12 import calc_model
    helpers = {'array_join': ['sdk::std::collections::array_is_empty'], 'map_contains_value': ['sdk::std::collections::map_is_empty']}.get(cmd, ())
    seps = ['', ',', '#', 'ab']
    for n in range(3):
        vals = [[x] for x in seps] if cmd == 'array_join' else [[1, 1]] if cmd == 'concat2' else [[0], [1]]
        import itertools
        ilens = [[1, 1]] if ctx.tier == 'quick' else [list(x) for x in itertools.product(range(vcap + 1), repeat=2) if not (cmd == 'map_contains_value' and n == 2 and x[0] == x[1] == 0)]
        for vl in vals:
            for il in ilens:
                job_real_body(ctx, jr, cmd.rstrip('2'), vcap, spec=MORE[cmd], prep=calc_model, helpers=helpers, shape=(n, il, vl), sym_map_values=(cmd == 'map_contains_value'))
                if jr.status == 'inconclusive' or jr.violations: return
        if cmd == 'concat2': break
    jr.bounds['shapes'] = 'collection sizes 0..2 enumerated; ' + ('separator from %r' % seps if cmd == 'array_join' else 'value lengths enumerated')


def job_real_body(ctx, jr, cmd, vcap, pid=None, oracle=None, spec=None, prep=None, sym_map_values=False, helpers=(), caller_vars=True, shape=None):
    """the REAL body (script.ds as compiled into the MIR constants of the current tree) of a script-implemented command, run through
    the real AliasCommand::run / eval_instructions / runner::run_instruction and the real commands its body uses, with symbolic
    arguments and caller variables: afterwards the caller variables are exactly as before (minus what the command is documented to
    remove), nothing else remains, and the handle table is as before (plus the returned collection, where the command returns one)"""
    from conformance.scripts import sdk_commands
    from .c12 import map_eq
    pid = pid or PID
    mod, argk, effect = spec or REAL[cmd]
    names_pool = ['a', 'scope::%sx::y' % cmd, 'scope::%s' % cmd, 'zz', 'scope::%s:n' % cmd]
    jr.bounds = dict(command=cmd, arguments=list(argk), value_chars=vcap, caller_variables='3 symbolic picks from %r' % (names_pool,), collections='0..2 elements, symbolic',
                     body='the real script text, parsed and run by the real code')
    vs = ctx.types.enums[SV]; STR, LIST, SET, SUB = vs.index('String'), vs.index('List'), vs.index('Set'), vs.index('SubState')
    e = ctx.engine(unwind=40, max_rec=6); e.int_digits = 2
    e.hooks['utils::state::put_handle'] = hook_put_handle
    e.hooks['std::sync::atomic::Atomic::<bool>::load'] = lambda eng, st1, a, c: False
    if prep: prep(e)
    e.split_loops['utils::eval::eval_instructions'] = 'line'        # the body's fetch / execute loop: one state per script line
    t0 = time.time()
    st = State(True, {})
    # the command under test, created by its own create()
    e.unwind = 5000                    # concrete phase: parsing the script text of the body
    st, r_ = e.run('sdk', mod + '::create', [mk_str('std')], st)
    if st is None or r_.d != 0: raise Abort('create() of %s failed' % cmd)
    boxed = r_.p[0][0]; selfv = e.deref(st, boxed) if isinstance(boxed, (P, PV)) else boxed
    e.unwind = 160                     # above the longest line / template of a body (expand_by_wrapper and the scanner walk them char by char)
    body_text = str_concrete(selfv.f[4]) or ''
    # script-implemented commands that the body calls (array_join -> array_is_empty, map_contains_value -> map_is_empty): created by their own create()
    e.unwind = 5000; helper_boxes = []
    for hm in helpers:
        st, rh = e.run('sdk', hm + '::create', [mk_str('std')], st)
        if st is None or rh.d != 0: raise Abort('create() of helper %s failed' % hm)
        hb = rh.p[0][0]; helper_boxes.append(hb)
        hv_ = e.deref(st, hb) if isinstance(hb, (P, PV)) else hb
        body_text += '\n' + (str_concrete(hv_.f[4]) or '')
    e.unwind = 160
    # the Rust commands its body uses, registered through the real Commands::set
    cmds = sdk_commands()
    st.m[(0, 'cmds')] = T([M([]), M([])], 'types::command::Commands')
    done = set()
    for tok in sorted(set(body_text.replace('\n', ' ').split())):
        if tok in cmds and cmds[tok][0] not in done:
            ty, nf = cmds[tok]; done.add(ty)
            st, r2 = e.run('core', 'types::command::Commands::set', [P(0, 'cmds'), e.alloc(st, T([mk_str('::'.join(ty.split('::')[1:-2]))] * nf, ty))], st)
    for hb in helper_boxes: st, r2 = e.run('core', 'types::command::Commands::set', [P(0, 'cmds'), hb], st)
    for ty_, nf in set((cmds[k][0], cmds[k][1]) for k in cmds if 'flowcontrol' in cmds[k][0]):
        if ty_ not in done:
            done.add(ty_); st, r2 = e.run('core', 'types::command::Commands::set', [P(0, 'cmds'), e.alloc(st, T([mk_str('std::flowcontrol')] * nf, ty_))], st)
    # caller variables
    # shape = (elements per collection, [length of each element], [length of each value argument]): concrete sizes, symbolic contents
    def sized(sv, ln): return sv if ln is None else mk_str(ln) if isinstance(ln, str) else S(ln, list(sv.ch[:ln]))
    sh_n, sh_items, sh_vals = shape if shape else (None, None, None)
    cn = [e.fresh_int('cv%d.name' % i, 0, len(names_pool) - 1) for i in range(3)]
    cp = [e.fresh_bool('cv%d.present' % i) if caller_vars else False for i in range(3)]
    cval = [H.sym_str(e, 'cv%d.val' % i, vcap) for i in range(3)]
    e.assume(z3.And(cn[0] < cn[1], cn[1] < cn[2]))
    pre_vars = M([(cp[i], choose(cn[i], names_pool), cval[i]) for i in range(3)])
    # live collections
    colls_sym = {}; map_vals = {}

    def coll(tag, kind):
        n = e.fresh_int('%s.len' % tag, 0, 2) if sh_n is None else sh_n
        items = [sized(H.sym_str(e, '%s.%d' % (tag, i), vcap), sh_items[i] if sh_items else None) for i in range(2)]
        colls_sym[tag] = (kind, n, items)
        if kind == 'arr': return E(SV, LIST, {LIST: [V(n, [E(SV, STR, {STR: [x]}) for x in items])]})
        distinct = zimp(zeq(n, 2), znot(str_eq(items[0], items[1])))
        if distinct is False: raise NotRecognised('shape with two equal keys')
        if kind == 'set':
            if distinct is not True: e.assume(distinct)
            return E(SV, SET, {SET: [M([(simp(n > i), items[i], UNIT) for i in range(2)])]})
        if distinct is not True: e.assume(distinct)
        map_vals[tag] = [H.sym_str(e, '%s.v%d' % (tag, i), vcap) if sym_map_values else mk_str('v%d' % i) for i in range(2)]
        return E(SV, SUB, {SUB: [M([(simp(n > i), items[i], E(SV, STR, {STR: [map_vals[tag][i]]})) for i in range(2)])]})
    args = []; hents = []
    for i, k in enumerate(argk):
        if k == 'val': args.append(sized(H.sym_str(e, 'arg%d' % i, vcap), sh_vals[len([x for x in argk[:i] if x == 'val'])] if sh_vals else None))
        elif k == 'name': args.append(choose(e.fresh_int('arg%d.name' % i, 0, len(names_pool) - 1), names_pool))
        else:
            key = mk_str('handle:P%d' % i); hents.append((True, key, coll('coll%d' % i, k))); args.append(key)
    htab = M(hents)
    state = M([(True, mk_str('handles'), E(SV, SUB, {SUB: [htab]}))])
    ctxv, st2 = invocation_context(e, V(len(args), args))
    st2.m.update({k: v for k, v in st.m.items() if k not in st2.m or k == (0, 'cmds')})
    st2.m[(0, 'state')] = state; st2.m[(0, 'vars')] = pre_vars
    f = e.find_method('types::command::AliasCommand', 'Command', 'run', 'sdk')
    rs, rv = e.call_fn(f, st2, [PV(selfv), ctxv])
    jr.symex_time += time.time() - t0
    if rs is None: raise Abort('never returns')
    if os.environ.get('VERIF_DEBUG_BODY'): print('DEBUG rv', rv, file=sys.stderr)
    post_vars = e.read(rs, ('mem', 0, 'vars', [])); post_state = e.read(rs, ('mem', 0, 'state', []))
    checks = [('the command does not crash', zand(rv.d != 3))]
    removed = lambda nm: zor(*[str_eq(a, nm) for a, k in zip(args, argk) if k == 'name']) if effect == 'unset' else False
    cnt_exp = 0
    for i in range(3):
        nm = choose(cn[i], names_pool)
        f_, v_, _ = map_lookup(e, rs, post_vars, nm)
        keep = zand(cp[i], znot(removed(nm)))
        own = str_eq(nm, mk_str('scope::%s' % cmd)) if False else False
        checks.append(('caller variable %d is as before (or removed, for unset)' % i, zand(zeq(f_, keep), zimp(keep, str_eq(v_, cval[i]) if v_ is not POISON else False))))
        cnt_exp = cnt_exp + zite(keep, 1, 0)
    cnt = 0
    for p, kk, vv in post_vars.ents: cnt = cnt + zite(p, 1, 0)
    checks.append(('no other variable remains (no working variable of the body, no published argument)', zeq(cnt, cnt_exp)))
    pf, psub, _ = map_lookup(e, rs, post_state, mk_str('handles'))
    ptab = psub.p[SUB][0] if isinstance(psub, E) and SUB in psub.p else M([])
    hc = 0
    for p, kk, vv in ptab.ents: hc = hc + zite(p, 1, 0)
    ok_run = zand(rv.d != 2, rv.d != 3)
    checks.append(('the collections of the caller are untouched', zand(*[zand(map_lookup(e, rs, ptab, k_)[0], sv_eq(e, rs, map_lookup(e, rs, ptab, k_)[1], v_)) for p_, k_, v_ in hents]) if hents else True))
    checks.append(('no temporary collection is left behind', zeq(hc, len(hents) + (zite(ok_run, 1, 0) if effect == 'new' else 0))))
    if oracle: checks += oracle(e, rs, rv, args, colls_sym, map_vals, ptab, hents)
    for msg_, c in checks: e.obligations.append(Obligation(rs.g, c, '%s real body of %s: %s' % (pid, cmd, msg_), 'assert', 'oracle'))

    def extract(m, o=None):
        return dict(kind='c19_body' if pid == PID else 'script_body', map_values={t_: [solve.model_str(m, x) for x in vs_] for t_, vs_ in map_vals.items()}, cmd=cmd, args=[solve.model_str(m, a) for a in args], caller={names_pool[solve.model_int(m, cn[i])]: solve.model_str(m, cval[i]) for i in range(3) if solve.model_bool(m, cp[i])},
                    colls=[(k_, [solve.model_str(m, x) for x in it_[:solve.model_int(m, n_)]]) for tag_, (k_, n_, it_) in sorted(colls_sym.items())], argkinds=list(argk))
    res = discharge_known(e, jr, pid, {}, extract)
    witness(jr, e, 'real body of %s runs to a result' % cmd, rs.g, extract)
    H.finish_job(jr, e, res)
