"""C19 - script-implemented library commands leave no trace in the caller's variables (reduced scope: the wrapper mechanism)."""
import time
import z3
from mirsym import harness as H, solve
from mirsym.values import *
from mirsym.engine import State, Obligation, some, none, OPTION
from mirsym.harness import process_failed, witness, discharge_known
from mirsym.models import map_lookup, match_at, str_concat
from .common import *
from .c03 import choose
from .c06 import invocation_context
from .c11 import hook_put_handle
from .c12 import sv_eq, map_eq

PID = 'C19'
CR = 'types::command::CommandResult'
SCOPE = 'scope::cmd'
CALLER_NAMES = ['a', 'scope::cmdx::y', 'scope::cmd', 'scope::other::arguments', 'zz']
SV = 'types::runtime::StateValue'


def job_wrapper(ctx, jr, nargs, vcap):
    jr.bounds = dict(arguments=nargs, value_chars=vcap, caller_variables='3 symbolic picks from %r' % (CALLER_NAMES,), handles='0..2 pre-existing',
                     body='havoc stub: arbitrary changes to variables under the prefix %s::, arbitrary result' % SCOPE)
    vs = ctx.types.enums[SV]
    e = ctx.engine(unwind=10, max_rec=3); e.int_digits = 2
    e.hooks['utils::state::put_handle'] = hook_put_handle
    t0 = time.time()
    args = [H.sym_str(e, 'arg%d' % i, vcap) for i in range(nargs)]
    amount = e.fresh_int('arguments_amount', 0, 3)
    # caller variables
    cn = [e.fresh_int('cv%d.name' % i, 0, len(CALLER_NAMES) - 1) for i in range(3)]
    cp = [e.fresh_bool('cv%d.present' % i) for i in range(3)]
    cval = [H.sym_str(e, 'cv%d.val' % i, vcap) for i in range(3)]
    e.assume(z3.And(cn[0] < cn[1], cn[1] < cn[2]))
    pre_vars = M([(cp[i], choose(cn[i], CALLER_NAMES), cval[i]) for i in range(3)])
    # pre-existing handles
    hp = [e.fresh_bool('h%d.present' % i) for i in range(2)]
    k = vs.index('String')
    htab = M([(hp[i], mk_str('handle:P%d' % i), E(SV, k, {k: [H.sym_str(e, 'h%d.val' % i, vcap)]})) for i in range(2)])
    SUB = vs.index('SubState')
    state = M([(True, mk_str('handles'), E(SV, SUB, {SUB: [htab]}))])
    # the body: havoc under the prefix
    fr_kind = e.fresh_int('flow.kind', 0, 5)       # 0..4 CommandResult variants, 5 = no result (body ran to its end)
    fo = E(OPTION, zite(e.fresh_bool('flow.out.present'), 1, 0), {0: [], 1: [H.sym_str(e, 'flow.out', vcap)]})
    msg = H.sym_str(e, 'flow.msg', vcap)
    seen = {}

    def h_body(eng, st1, a, callee):
        vars_p = a[3]
        mv = eng.deref(st1, vars_p)
        seen['vars_at_body'] = mv
        prefix = mk_str(SCOPE + '::')
        ents = []
        for i, (p, kk, vv) in enumerate(mv.ents):
            pref = simp(match_at(kk, prefix, 0)) if isinstance(kk, S) else False
            ents.append((zite(pref, eng.fresh_bool('havoc.p%d' % i), p), kk, merge(pref, eng.fresh_str('havoc.v%d' % i, vcap), vv)))
        for j in range(2):
            ents.append((eng.fresh_bool('havoc.new%d' % j), str_concat(prefix, eng.fresh_str('havoc.k%d' % j, 2)), eng.fresh_str('havoc.nv%d' % j, vcap)))
        # new prefixed keys must not collide with existing keys (map invariant)
        for j in range(2):
            for i, (p, kk, vv) in enumerate(ents[:-2 + j] if j else ents[:-2]):
                if isinstance(kk, S): eng.assume(z3.Implies(z3.And(ents[-2 + j][0], p if is_sym(p) else z3.BoolVal(bool(p))), z3.Not(str_eq(kk, ents[-2 + j][1]))))
        eng.store(st1, vars_p, M(ents))
        gv = E('types::command::GoToValue', 1, {1: [0]})
        res = E(CR, zite(fr_kind == 5, 0, fr_kind), {0: [fo], 1: [fo, gv], 2: [msg], 3: [msg], 4: [fo]})
        return T([E(OPTION, zite(fr_kind == 5, 0, 1), {0: [], 1: [res]}), fo])
    e.hooks['utils::eval::eval_instructions'] = h_body
    selfv = T([mk_str('cmd'), V(0, []), mk_str('help'), mk_str(SCOPE), mk_str(''), amount, V(0, [])], 'types::command::AliasCommand')
    ctxv, st = invocation_context(e, V(nargs, args))
    st.m[(0, 'state')] = state; st.m[(0, 'vars')] = pre_vars
    f = e.find_method('types::command::AliasCommand', 'Command', 'run', 'sdk')
    if f is None: raise Abort('AliasCommand::run not found')
    rs, rv = e.call_fn(f, st, [PV(selfv), ctxv])
    jr.symex_time = time.time() - t0
    if rs is None: raise Abort('never returns')
    post_vars = e.read(rs, ('mem', 0, 'vars', [])); post_state = e.read(rs, ('mem', 0, 'state', []))
    checks = []
    too_few = nargs < amount if not is_sym(amount) else (amount > nargs)
    checks.append(('too few arguments is an error', zimp(too_few, zeq(rv.d, 2))))
    # caller variables exactly as before
    for i in range(3):
        f_, v_, _ = map_lookup(e, rs, post_vars, choose(cn[i], CALLER_NAMES))
        checks.append(('caller variable %d is exactly as before' % i, zand(zeq(f_, cp[i]), zimp(cp[i], str_eq(v_, cval[i]) if v_ is not POISON else False))))
    cnt = 0
    for p, kk, vv in post_vars.ents: cnt = cnt + zite(p, 1, 0)
    exp = 0
    for i in range(3): exp = exp + zite(cp[i], 1, 0)
    checks.append(('no other variable remains (no scope::cmd::... working variable, no published argument)', zeq(cnt, exp)))
    # handles exactly as before (temporary argument array released)
    pf, psub, _ = map_lookup(e, rs, post_state, mk_str('handles'))
    ptab = psub.p[SUB][0] if isinstance(psub, E) and SUB in psub.p else M([])
    checks.append(('the handle table is exactly as before (temporary arguments array released)', map_eq(e, rs, ptab, htab)))
    hc = 0
    for p, kk, vv in ptab.ents: hc = hc + zite(p, 1, 0)
    checks.append(('no extra handle remains', zeq(hc, zite(hp[0], 1, 0) + zite(hp[1], 1, 0))))
    # the result is the body's result (or Continue(last output))
    checks.append(('the result is the result of the body', zimp(znot(too_few), zeq(rv.d, zite(fr_kind == 5, 0, fr_kind)))))
    for msg_, c in checks: e.obligations.append(Obligation(rs.g, c, 'C19 wrapper/%d args: %s' % (nargs, msg_), 'assert', 'oracle'))

    def extract(m, o=None):
        return dict(kind='c19', args=[solve.model_str(m, a) for a in args], amount=solve.model_int(m, amount),
                    caller={CALLER_NAMES[solve.model_int(m, cn[i])]: solve.model_str(m, cval[i]) for i in range(3) if solve.model_bool(m, cp[i])},
                    body_result=solve.model_int(m, fr_kind))
    res = discharge_known(e, jr, PID, {}, extract)
    witness(jr, e, 'body ends with an error result and leaves working variables', zand(rs.g, fr_kind == 2, znot(too_few)), extract)
    H.finish_job(jr, e, res)


# ---------------------------------------------------------------------- native replay: a user alias-style command via the real SDK
def replayer(v):
    """the wrapper is reachable natively through any script-implemented std command: concat (success path) or array_join on a
    non-array (error path); caller variable names are mapped onto that command's scope prefix"""
    res_kind = v.get('body_result', 5)
    cmd = 'concat' if res_kind == 5 else 'array_join'      # any explicit body result (error, crash, exit, ...) is replayed through an erroring body
    vars_ = {k.replace('scope::cmd', 'scope::' + cmd): x for k, x in v.get('caller', {}).items()}
    def q(a): return '"%s"' % a.replace('\\', '\\\\').replace('"', '\\"').replace('\n', '\\n').replace('\r', '\\r').replace('\t', '\\t')
    if cmd == 'array_join': script = 'r = array_join %s ,' % q(v['args'][0] if v['args'] and v['args'][0] else 'x')
    else: script = 'r = concat %s' % ' '.join(q(a) for a in v['args'])
    out = H.replay(dict(mode='sdk', script=script, vars=vars_)); v['native'] = out
    if out.get('panic'): return (True, 'native panic')
    if not out.get('ok'): return (None, 'replay script failed: %r' % (out.get('error'),))
    got = {k: x for k, x in out['vars'].items() if k != 'r'}
    if got != vars_: return (True, 'caller variables changed natively: %r vs %r' % (got, vars_))
    if out.get('handles', 0) != 0: return (True, '%d handle(s) left behind natively' % out['handles'])
    return (False, 'native run leaves the caller variables and the handle table as they were')


def main(tier, seed):
    chk = H.Check(PID, tier, seed)
    chk.replayer = replayer
    vcap = 2 if tier == 'quick' else 3
    for n in range(0, 4): chk.job(job_wrapper, 'wrapper:%dargs' % n, nargs=n, vcap=vcap)
    chk.bounds = dict(arguments='0..3', value_chars=vcap, caller_variables=3, handles='0..2')
    chk.assumptions = ['the script body (utils::eval::eval_instructions) is a havoc stub constrained by the wrapper contract: it may add, change or remove any variable whose name starts with the '
                       "command's scope prefix and return any result; that each of the 21 real script.ds bodies keeps its working variables under its prefix and releases what it creates is NOT checked "
                       '(the bodies call commands backed by evalexpr and other crates; a property of a script text is outside MIR execution)',
                       'caller variables named under the command\'s own prefix (scope::<cmd>::...) are excluded: clearing them is the documented mechanism',
                       'put_handle: arbitrary non-live key']
    results = chk.run()
    return chk.finish(results, 'every obligation is a solver query over all arguments, caller variables, handle tables and body behaviours within the contract')
