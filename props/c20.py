"""C20 - the command-line tool reports what the library decided (reduced scope: dispatch and lint decision logic)."""
import time
import z3
from mirsym import harness as H, solve
from mirsym.values import *
from mirsym.engine import State, Obligation, some, none, ok, err, OPTION, RESULT
from mirsym.harness import process_failed, witness, discharge_known
from .common import *
from .c03 import choose, opt_choose

PID = 'C20'
ARG1 = ['-e', '--eval', '-l', '--lint', '--version', '--help', '-h', 'file.ds', '-x', '']
ARG2 = ['f.ds', 'echo hi']
ERRMSGS = ['boom', 'Exit with error code: 7', 'Exit with error code: 256', 'Exit with error code: -512', 'Exit with error code: x']
NONASCII = [0x3042, 0x20AC]


def job_dispatch(ctx, jr):
    jr.bounds = dict(argv='duck + 0..2 arguments: first from %r, second from %r' % (ARG1, ARG2), library='run_script / run_script_file / parse_file / load stubbed: symbolic Ok / Err')
    e = ctx.engine(unwind=8)
    t0 = time.time()
    n = e.fresh_int('argc', 1, 3); a1 = e.fresh_int('argv1', 0, len(ARG1) - 1); a2 = e.fresh_int('argv2', 0, len(ARG2) - 1)
    argv = V(n, [mk_str('duck'), choose(a1, ARG1), choose(a2, ARG2)])
    lib_ok = e.fresh_bool('library_ok'); load_ok = e.fresh_bool('load_ok')
    ev = []      # event log: (guard, kind, payload)
    # the error a failing library call returns: any kind; Runtime carries one of a few messages (exit codes included)
    names = ctx.types.enums['types::error::ScriptError']
    ek = e.fresh_int('error.kind', 0, len(names) - 1); emsg = e.fresh_int('error.msg', 0, len(ERRMSGS) - 1)
    meta = meta_new(3)
    script_error = E('types::error::ScriptError', ek, {i: ([choose(emsg, ERRMSGS), some(meta)] if nm == 'Runtime' else [mk_str('p'), none()] if nm == 'ErrorReadingFile'
                                                         else [mk_str('m')] if nm == 'Initialization' else [meta]) for i, nm in enumerate(names)})

    def lib(kind):
        def h(eng, st1, a, callee):
            ev.append((st1.g, kind, a[0] if a else None))
            if kind == 'parse_file': return merge(lib_ok, ok(V(0, [])), err(script_error))
            return merge(lib_ok, ok(Opaque('Context')), err(script_error))
        return h
    e.hooks['duckscript::runner::run_script'] = lib('run_text')
    e.hooks['duckscript::runner::run_script_file'] = lib('run_file')
    e.hooks['duckscript::runner::repl'] = lib('repl')
    e.hooks['duckscript::parser::parse_file'] = lib('parse_file')
    e.hooks['duckscriptsdk::load'] = lambda eng, st1, a, c: merge(load_ok, ok(UNIT), err(script_error))
    e.hooks['duckscript::version'] = lambda eng, st1, a, c: mk_str('0.0.0')
    e.hooks['duckscriptsdk::version'] = lambda eng, st1, a, c: mk_str('0.0.0')
    e.hooks['std::env::args'] = lambda eng, st1, a, c: Opaque('Args')
    e.hooks['re:<std::env::Args as std::iter::Iterator>::collect::<.*>'] = lambda eng, st1, a, c: argv

    def h_print(eng, st1, a, callee):
        x = a[0]; txt = None
        if isinstance(x, Opaque) and x.tag == 'fmtargs':
            tmpl = x.data[0]
            if tmpl and tmpl[0] < 0x80: txt = bytes(tmpl[1:1 + tmpl[0]]).decode('utf-8', 'replace')
        elif isinstance(x, Opaque) and x.tag == 'fmtstr': txt = str_concrete(x.data)
        ev.append((st1.g, 'print', txt)); return UNIT

    def h_exit(eng, st1, a, callee):
        ev.append((st1.g, 'exit', a[0])); st1.g = False; return POISON
    e.hooks['std::io::_print'] = h_print
    e.hooks['std::process::exit'] = h_exit
    rs, rv = e.run('cli', 'main', [], State(True, {}))
    jr.symex_time = time.time() - t0
    def happened(kind, pred=lambda p: True): return zor(*[g for g, k, p in ev if k == kind and pred(p)])
    exited = happened('exit')
    # the status the OS reports is the low 8 bits of the value passed to exit
    exit1 = zor(*[zand(g, (p % 256 != 0) if is_sym(p) else (p % 256 != 0)) for g, k, p in ev if k == 'exit'])
    err_line = happened('print', lambda p: p is not None and p.startswith('Error: '))
    is_ = lambda i, names: zor(*[zeq(a1, ARG1.index(x)) for x in names]) if i == 1 else None
    two = n >= 3
    eval_mode = zand(two, is_(1, ['-e', '--eval'])); lint_mode = zand(two, is_(1, ['-l', '--lint']))
    info = zand(n >= 2, is_(1, ['--version', '--help', '-h']))
    repl = zeq(n, 1)
    ran_text = happened('run_text'); ran_file = happened('run_file'); parsed = happened('parse_file'); ran_repl = happened('repl')
    should_fail = zor(zand(znot(info), znot(lint_mode), zor(znot(load_ok), znot(lib_ok))), zand(lint_mode, znot(lib_ok)))
    checks = [('exit status is non-zero with an Error: line exactly when the library call failed', zand(zeq(exit1, should_fail), zeq(err_line, should_fail), zeq(exited, exit1))),
              ('-e / --eval passes the text to run_script', zimp(zand(eval_mode, load_ok), zand(ran_text, znot(ran_file)))),
              ('-e / --eval passes the second argument', zand(*[zimp(zand(g, eval_mode), str_eq(p if isinstance(p, S) else S(0, []), choose(a2, ARG2))) for g, k, p in ev if k == 'run_text'])),
              ('-l / --lint only parses, never runs', zimp(lint_mode, zand(parsed, znot(ran_text), znot(ran_file)))),
              ('a file argument is run as a file', zimp(zand(znot(repl), znot(info), znot(eval_mode), znot(lint_mode), load_ok), zand(ran_file, znot(ran_text)))),
              ('--version / --help run nothing and succeed', zimp(info, zand(znot(ran_text), znot(ran_file), znot(parsed), znot(exited)))),
              ('no arguments starts the REPL', zimp(zand(repl, load_ok), ran_repl))]
    g0 = True
    for msg, c in checks: e.obligations.append(Obligation(g0, c, 'C20 dispatch: ' + msg, 'assert', 'oracle'))

    def extract(m, o=None):
        k = solve.model_int(m, n)
        return dict(kind='c20_dispatch', argv=[ARG1[solve.model_int(m, a1)], ARG2[solve.model_int(m, a2)]][:k - 1], library_ok=solve.model_bool(m, lib_ok), load_ok=solve.model_bool(m, load_ok),
                    error_kind=names[solve.model_int(m, ek)], error_msg=ERRMSGS[solve.model_int(m, emsg)])
    # counterexamples that a real run can produce first: the SDK loads, a script is run, failures are runtime errors
    realistic = zand(load_ok, zor(eval_mode, zand(n >= 2, zeq(a1, ARG1.index('file.ds')))), zeq(ek, names.index('Runtime')))
    res = discharge_known(e, jr, PID, {}, extract, prefer=realistic)
    witness(jr, e, 'eval of a failing script exits 1', zand(eval_mode, load_ok, znot(lib_ok), exit1), extract)
    witness(jr, e, 'lint of a file that parses', zand(lint_mode, lib_ok), extract)
    H.finish_job(jr, e, res)


def lower_same(sv):
    """text unchanged by lower-casing on the harness alphabet (ASCII + case-less representatives)"""
    return all_chars(sv, lambda c: znot(zand(c >= 65, c <= 90)))


def job_lint(ctx, jr, k, cap):
    jr.bounds = dict(instructions=k, name_chars=cap, alphabet='ASCII + U+3042, U+20AC')
    e = ctx.engine(unwind=max(8, cap + 3))
    e.hooks['std::io::_print'] = lambda eng, st1, a, c: UNIT
    t0 = time.time()
    parse_ok = e.fresh_bool('parse_ok')
    instrs = []; fields = []
    for i in range(k):
        is_script = e.fresh_bool('i%d.script' % i)
        fs = []
        for nm in ('label', 'output', 'command'):
            present = e.fresh_bool('i%d.%s.present' % (i, nm)); s = H.sym_str(e, 'i%d.%s' % (i, nm), cap)
            e.assume(all_chars(s, lambda c: zor(zand(c >= 0, c < 128), *[zeq(c, x) for x in NONASCII])))
            fs.append((present, s))
        si = T([E(OPTION, zite(fs[0][0], 1, 0), {0: [], 1: [fs[0][1]]}), E(OPTION, zite(fs[1][0], 1, 0), {0: [], 1: [fs[1][1]]}),
                E(OPTION, zite(fs[2][0], 1, 0), {0: [], 1: [fs[2][1]]}), none()], 'types::instruction::ScriptInstruction')
        ity = E('types::instruction::InstructionType', zite(is_script, 2, 0), {0: [], 2: [si]})
        instrs.append(T([meta_new(i + 1), ity], 'types::instruction::Instruction')); fields.append((is_script, fs))
    count = e.fresh_int('count', 0, k)
    e.hooks['duckscript::parser::parse_file'] = lambda eng, st1, a, c: merge(parse_ok, ok(V(count, instrs)), err(Opaque('ScriptError')))
    rs, rv = e.run('cli', 'linter::lint_file', [mk_str('f.ds')], State(True, {}))
    jr.symex_time = time.time() - t0
    all_lower = True
    for i, (is_script, fs) in enumerate(fields):
        all_lower = zand(all_lower, zimp(zand(i < count, is_script), zand(*[zimp(p, lower_same(s)) for p, s in fs])))
    accept = zand(parse_ok, all_lower)
    e.obligations.append(Obligation(rs.g, zeq(zeq(rv.d, 0), accept), 'C20 lint: accepted exactly when the file parses and every label, command and output is lower-case', 'assert', 'oracle'))

    def extract(m, o=None):
        out = []
        for i, (is_script, fs) in enumerate(fields[:solve.model_int(m, count)]):
            if not solve.model_bool(m, is_script): out.append(None); continue
            out.append({nm: (solve.model_str(m, s) if solve.model_bool(m, p) else None) for nm, (p, s) in zip(('label', 'output', 'command'), fs)})
        return dict(kind='c20_lint', parse_ok=solve.model_bool(m, parse_ok), instructions=out)
    plain = zand(*[zimp(p, zand(s_.len >= 1, all_chars(s_, lambda c: zor(zand(c >= 97, c <= 122), zand(c >= 65, c <= 90))))) for _, fs in fields for p, s_ in fs])
    res = discharge_known(e, jr, PID, {}, extract, prefer=plain)
    witness(jr, e, 'upper-case output variable only', zand(rs.g, parse_ok, count >= 1, fields[0][0], fields[0][1][1][0], znot(lower_same(fields[0][1][1][1])), lower_same(fields[0][1][0][1]), lower_same(fields[0][1][2][1])), extract)
    H.finish_job(jr, e, res)


# ---------------------------------------------------------------------- native replay against the real duck binary
def duck_binary():
    import subprocess, os
    from mirsym import build
    env = dict(os.environ); env.update(CARGO_NET_OFFLINE='true', CARGO_TARGET_DIR=os.path.join(build.CACHE, 'replay-target'), RUSTUP_TOOLCHAIN='stable')
    r = subprocess.run(['cargo', 'build', '--offline', '--quiet', '-p', 'duckscript_cli'], cwd=build.REPO, env=env, capture_output=True, text=True)
    if r.returncode != 0: raise RuntimeError('duck build failed: ' + r.stderr[-1500:])
    return os.path.join(build.CACHE, 'replay-target', 'debug', 'duck')


def replayer(v):
    import subprocess, tempfile, os
    duck = duck_binary()
    d = tempfile.mkdtemp(prefix='duckverif_c20_')
    try:
        if v['kind'] == 'c20_lint':
            lines = []
            for ins in v['instructions']:
                if ins is None: lines.append('# c'); continue
                l = ''
                if ins['label']: l += ':' + ins['label'] + ' '
                if ins['output']: l += ins['output'] + ' = '
                if ins['command']: l += ins['command']
                lines.append(l)
            if not v['parse_ok']: lines.append('x "unterminated')
            text = '\n'.join(lines)
            # only replay cases whose names survive the text round trip (plain identifiers)
            import re
            for ins in v['instructions']:
                if ins and any(x is not None and not re.fullmatch(r'[A-Za-z0-9_あ€]+', x) for x in ins.values()): return (None, 'names not writable as plain script text')
            p = os.path.join(d, 'f.ds'); open(p, 'w').write(text)
            r = subprocess.run([duck, '-l', p], capture_output=True, text=True, timeout=60)
            exp_ok = v['parse_ok'] and all(ins is None or all(x is None or x == x.lower() for x in ins.values()) for ins in v['instructions'])
            v['native'] = dict(rc=r.returncode, out=r.stdout[-300:])
            return ((r.returncode == 0) != exp_ok, 'duck -l exit %d, expected %s' % (r.returncode, 'accept' if exp_ok else 'reject'))
        argv = list(v['argv']); good = v['library_ok']
        script_ok = 'echo hi'; script_bad = 'exit 7'
        import re
        mm = re.match(r'Exit with error code: (-?\d+)$', v.get('error_msg', ''))
        if mm and v.get('error_kind') == 'Runtime': script_bad = 'exit %s' % mm.group(1)
        if argv and argv[0] in ('-e', '--eval') and len(argv) > 1: argv[1] = script_ok if good else script_bad
        else:
            fname = os.path.join(d, 'f.ds'); open(fname, 'w').write((script_ok if good else ('x "unterminated' if argv and argv[0] in ('-l', '--lint') else script_bad)) + '\n')
            argv = [fname if a in ARG2 or a == 'file.ds' else a for a in argv]
        if not argv: return (None, 'REPL not replayed')
        r = subprocess.run([duck] + argv, capture_output=True, text=True, timeout=60)
        v['native'] = dict(rc=r.returncode, out=r.stdout[-300:])
        info = argv[0] in ('--version', '--help', '-h')
        exists = not (argv[0] in ('-x', '') and len(argv) >= 1)
        exp_fail = (not info) and ((not good) or not exists)
        return ((r.returncode != 0) != exp_fail or (exp_fail and 'Error:' not in r.stdout), 'duck %r exit %d stdout %r' % (argv, r.returncode, r.stdout[-120:]))
    finally:
        import shutil; shutil.rmtree(d, ignore_errors=True)


def main(tier, seed):
    chk = H.Check(PID, tier, seed, crates=('core', 'cli'))
    chk.replayer = replayer
    chk.job(job_dispatch, 'dispatch')
    chk.job(job_lint, 'lint', k=2 if tier == 'quick' else 3, cap=3 if tier == 'quick' else 5)
    chk.bounds = dict(argv='<= 2 arguments after the program name', lint='<= 2 (quick) / 3 (thorough) instructions, names <= 3 / 5 chars')
    chk.assumptions = ['library calls (runner::run_script, run_script_file, repl, parser::parse_file, duckscriptsdk::load) return a symbolic Ok / Err; process::exit and println! are logged events',
                       'n/a part: the actual exit status and stdout of the built duck binary and their agreement with a real library run (process boundary) - exercised only by the native replay of counterexamples',
                       'lint alphabet: ASCII + 2 case-less non-ASCII representatives (to_lowercase model)']
    results = chk.run()
    return chk.finish(results, 'every obligation is a solver query over all argument vectors / library outcomes / instruction names within the bounds')
