"""C09 - wrapping a command in if / while / not / an alias does not change its arguments."""
import time
import z3
from mirsym import harness as H, solve
from mirsym.values import *
from mirsym.engine import State, Obligation, some, none, OPTION
from mirsym.harness import process_failed, witness, discharge_known
from .common import *
from mirsym.models import is_ws
from .c06 import invocation_context, run_command
from .c03 import choose

PID = 'C09'
DOLLAR, PERCENT, LBRACE = 36, 37, 123


def contains_char(sv, codes):
    return zor(*[zand(i < sv.len, zor(*[zeq(c, k) for k in codes])) for i, c in enumerate(sv.ch)])


def contains_pair(sv, firsts, second):
    return zor(*[zand(i + 1 < sv.len, zor(*[zeq(sv.ch[i], f) for f in firsts]), zeq(sv.ch[i + 1], second)) for i in range(len(sv.ch) - 1)])


def known_classes(values):
    """role-keyed classes of argument values that the text round trip of utils::eval::parse is known to alter"""
    any_ = lambda f: zor(*[f(v) for v in values])
    return {
        'value-contains-line-break': (any_(lambda v: contains_char(v, [LF, CR])), ('assert', 'panic')),
        'value-contains-hash': (any_(lambda v: contains_char(v, [HASH])), ('assert', 'panic')),
        'value-contains-binding-syntax': (any_(lambda v: zor(contains_pair(v, [DOLLAR, PERCENT], LBRACE), contains_pair(v, [BS], DOLLAR), contains_pair(v, [BS], PERCENT))), ('assert', 'panic')),
        'value-contains-double-quote': (any_(lambda v: contains_char(v, [DQ])), ('assert', 'panic')),
        'first-value-starts-with-equals': (zand(values[0].len >= 1, zeq(values[0].ch[0], EQ)), ('assert', 'panic')),
        'value-ends-with-unicode-whitespace': (zand(values[-1].len >= 1, is_ws(sel(values[-1].ch, values[-1].len - 1, 0)), znot(zeq(sel(values[-1].ch, values[-1].len - 1, 0), SP))), ('assert', 'panic')),
    }


def job_wrapper(ctx, jr, nvals, cap, wrapper='not', fixed=None):
    jr.bounds = dict(values=nvals, value_chars=cap, wrapper=wrapper, alphabet='all Unicode scalar values', environment='one variable x (defined or not)')
    e = ctx.engine(unwind=2 * (nvals * (cap + 3) + 2) + 6, max_rec=3)
    e.hooks['std::sync::atomic::Atomic::<bool>::load'] = lambda eng, st1, a, c: False
    t0 = time.time()
    vals = [H.sym_str(e, 'value%d' % i, cap) for i in range(nvals)]
    if fixed is not None:       # first value is one of the listed words (values that look like condition keywords)
        fi = e.fresh_int('fixed', 0, len(fixed) - 1); vals[0] = choose(fi, fixed)
        jr.bounds['first_value'] = 'one of %r' % (fixed,)
    xdef = e.fresh_bool('x_defined'); xval = H.sym_str(e, 'xval', 2)
    log = {}

    def h_run(eng, st1, a):
        ctxv = a[1]
        log['args'] = (st1.g, ctxv.f[0])
        return E('types::command::CommandResult', 0, {0: [some(mk_str('true'))]})
    e.dyn_impls[('harness::Logged', 'run')] = h_run
    e.dyn_impls[('harness::Logged', 'clone_and_box')] = lambda eng, st1, a: eng.alloc(st1, a[0])
    st0 = State(True, {})
    box = e.alloc(st0, T([], 'harness::Logged'))
    commands = T([M([(True, mk_str('c'), box)]), M([])], 'types::command::Commands')
    argv = V(nvals + 1, [mk_str('c')] + vals)
    ctxv, st = invocation_context(e, argv, commands)
    st.m.update(st0.m)
    st.m[(0, 'vars')] = M([(xdef, mk_str('x'), xval)])
    rs, rv = run_command(e, 'sdk::std::not::CommandImpl', ctxv, st)
    jr.symex_time = time.time() - t0
    if rs is None: raise Abort('not never returns')
    checks = []
    if 'args' in log:
        g, got = log['args']
        checks.append(('the wrapped command is invoked', g))
        checks.append(('the wrapped command receives as many arguments as were given', zimp(g, zeq(got.len, nvals))))
        for i in range(nvals):
            if i < len(got.it): checks.append(('argument %d reaches the wrapped command unchanged' % i, zimp(g, str_eq(got.it[i], vals[i]))))
    else:
        checks.append(('the wrapped command is invoked', False))
    checks.append(('not returns the negated output of the direct call', zand(zeq(rv.d, 0), zeq(rv.p[0][0].d, 1), str_eq(rv.p[0][0].p[1][0], mk_str('false'))) if 0 in rv.p and 1 in rv.p[0][0].p else False))
    for msg, c in checks: e.obligations.append(Obligation(rs.g, c, 'C09 %s: %s' % (wrapper, msg), 'assert', 'oracle'))

    def extract(m, o=None):
        return dict(kind='c09', wrapper=wrapper, values=[solve.model_str(m, v) for v in vals], env={'x': solve.model_str(m, xval)} if solve.model_bool(m, xdef) else {})
    res = discharge_known(e, jr, PID, known_classes(vals), extract)
    w = vals[-1]
    witness(jr, e, 'value with a space and a backslash', zand(rs.g, w.len >= 2, w.ch[0] == SP, w.ch[1] == BS) if cap >= 2 else zand(rs.g, w.len >= 1, w.ch[0] == BS), extract)
    H.finish_job(jr, e, res)


def job_callgraph(ctx, jr):
    """if / elseif / while / not / alias reach the command only through utils::eval::parse (structural check on the current MIR)"""
    from mirsym.mirparse import ensure_parsed
    mir = ctx.mir
    def calls(name):
        fn = mir.fns.get(('sdk', name))
        if fn is None: return None
        ensure_parsed(fn)
        return [blk[1][2] for blk in fn.blocks.values() if not blk[2] and blk[1][0] == 'call']
    need = {'utils::eval::eval': 'utils::eval::parse', 'utils::eval::eval_with_instructions': 'utils::eval::parse',
            'utils::condition::eval_condition': 'utils::eval::eval_with_instructions'}
    okn = 0
    for f, callee in need.items():
        cs = calls(f)
        jr.obligations += 1
        if cs is not None and any(c.startswith(callee) for c in cs): okn += 1
        else: jr.status = 'inconclusive'; jr.reason = '%s no longer calls %s' % (f, callee)
    jr.discharged += okn; jr.blocks += 1; jr.merges += 1
    jr.samples.append({'wrappers share': 'eval_condition -> eval_with_instructions -> parse; alias -> eval_with_error -> eval -> parse'})


def replayer(v):
    if v.get('kind') in ('c01_lemma', 'c01_arglist'):
        from .c01 import replayer as c01_replayer
        return c01_replayer(v)
    if v.get('kind') == 'lemma':
        # confirmation: values outside the six listed classes (blanks, backslashes, tabs inside, empty, the lemma's own values) must reach
        # the wrapped command unchanged natively
        panel = [['a b'], ['a\\b'], ['x'], ['a\tb'], [''], ['a  b'], ['\\'], ['a\\ b'], ['a', 'b c'], ['a b', ''], ['\\\\'], ['it\'s'], ['a=b'], ['a:b', '!x']]
        mine = [x for x in (v.get('values') or []) if not any(ch in x for ch in '\r\n#"') and '${' not in x and '%{' not in x and '\\$' not in x and '\\%' not in x and not x.startswith('=') and x == x.rstrip('\t\x0b\x0c\u00a0')]
        if mine: panel.insert(0, mine)
        for vals_ in panel:
            got = replayer(dict(kind='c09', values=vals_, env={}))
            if got[0]: v['native'] = got; return (True, 'values %r: %s' % (vals_, got[1]))
        return (False, 'values outside the listed classes reach the wrapped command unchanged natively')
    vals = v['values']
    vars_ = {'v%d' % i: x for i, x in enumerate(vals)}; vars_.update(v.get('env', {}))
    args = ' '.join('${v%d}' % i for i in range(len(vals)))
    # a recording command: the direct call and the wrapped call must record the same list
    out_d = H.replay(dict(mode='scripted_sdk', script='c %s' % args, vars=vars_))
    out_w = H.replay(dict(mode='scripted_sdk', script='r = not c %s' % args, vars=vars_))
    v['native_direct'] = out_d; v['native_wrapped'] = out_w
    if out_w.get('panic') or out_d.get('panic'): return (True, 'native panic')
    ld = [l['arguments'] for l in out_d.get('log', [])]; lw = [l['arguments'] for l in out_w.get('log', [])]
    if ld != [vals]: return (None, 'direct call did not receive the values: %r' % (ld,))
    return (lw != ld, 'direct call received %r, wrapped call received %r' % (ld, lw))


def main(tier, seed):
    chk = H.Check(PID, tier, seed)
    chk.replayer = replayer
    if tier == 'quick':
        chk.job(job_wrapper, 'not:1x2', nvals=1, cap=2)
        chk.job(job_wrapper, 'not:keyword+1', nvals=2, cap=1, fixed=['and', 'or', '('])
        chk.job(job_callgraph, 'callgraph')
        chk.job(job_reserialise_lemma, 'lemma/re-serialiser', cap=5)
        from .c01 import job_token_inductive, job_arglist_inductive
        chk.job(job_token_inductive, 'lemma/scanner reads the rebuilt text back', N=24, C=12, part='C09')
        chk.job(job_arglist_inductive, 'lemma/argument list', K=3, control_as_char=False, pid='C09')
        chk.bounds = dict(lemma='re-serialiser: one argument-loop iteration from an arbitrary buffer, post-processing, text of a value <= 5 chars = rendering with only the backslash escaped (DESIGN.md 8.19)', values='1 value <= 2 chars (all Unicode); a keyword-looking first value followed by a value <= 1 char')
    else:
        chk.job(job_wrapper, 'not:1x3', nvals=1, cap=3)
        chk.job(job_wrapper, 'not:2x1', nvals=2, cap=1)
        chk.job(job_wrapper, 'not:1x2', nvals=1, cap=2)
        # (a keyword followed by a value of 2 characters ran for more than an hour: the second value stays at 1 character, the word list is the long one)
        chk.job(job_wrapper, 'not:keyword+1', nvals=2, cap=1, fixed=['and', 'or', '(', ')', 'not', 'true', 'false', 'c'])
        chk.job(job_callgraph, 'callgraph')
        chk.job(job_reserialise_lemma, 'lemma/re-serialiser', cap=8)
        from .c01 import job_token_inductive, job_arglist_inductive
        chk.job(job_token_inductive, 'lemma/scanner reads the rebuilt text back', N=64, C=32, part='C09')
        chk.job(job_arglist_inductive, 'lemma/argument list', K=6, control_as_char=False, pid='C09')
        chk.bounds = dict(lemma='re-serialiser lemma with values <= 8 chars (DESIGN.md 8.19)', values='1 value <= 3 chars, 2 values <= 1 char, keyword-looking first value (8 words) + value <= 1 char')
    chk.assumptions = ['the wrapped command is a harness command registered as c that records its arguments',
                       'the not command is the executed wrapper; if/elseif/while/alias are checked to reach the command through the same utils::eval::parse (call graph on the current MIR)',
                       'open known-finding classes (listed in known_findings.json) are excluded from the main query and reported as KNOWN-FINDING while they reproduce']
    results = chk.run()
    return chk.finish(results, 'every obligation is a solver query over all argument values within the bounds and outside the open known-finding classes')


# ---------------------------------------------------------------------- lemmas: values of any length
def job_reserialise_lemma(ctx, jr, cap):
    """utils::eval::parse, the re-serialiser all wrappers share: (1) one iteration of its argument loop from an arbitrary buffer;
    (2) the post-processing of the buffer (line breaks dropped, backslashes doubled) and the hand-over to parse_text;
    (3) the resulting text of one value is its rendering in the documented line syntax with only the backslash escaped - so the
    scanner lemmas of C01 (DESIGN.md 8.6) apply cell by cell and the value comes back unchanged, whatever its length, unless it is in
    one of the six listed classes."""
    from mirsym import induct
    from mirsym.models import str_concat, str_push, find_first, match_at
    jr.bounds = dict(argument_chars=cap, buffer_so_far_chars=6, claim='per-argument lemma + string identity; composition with the C01 scanner lemmas argued in DESIGN.md 8.19')

    def R(a):
        """what the loop appends for the value a (without the trailing blank)"""
        has_sp = contains_char(a, [SP])
        quoted_both = zand(a.len >= 1, zeq(a.ch[0], DQ), zeq(sel(a.ch, a.len - 1, 0), DQ))
        plain = merge(has_sp, str_push(str_concat(S(1, [DQ]), a), DQ), a)
        esc = str_push(str_concat(S(1, [BS]), a), BS)
        return merge(zeq(a.len, 0), mk_str('""'), merge(quoted_both, esc, plain))

    def processed(t):
        """line breaks dropped, every backslash doubled"""
        out = S(0, [])
        for i, c in enumerate(t.ch):
            inside = simp(i < t.len)
            if inside is False: break
            keep = zand(inside, c != LF, c != CR)
            one = str_push(out, c); two = str_push(str_push(out, BS), BS)
            out = merge(zand(keep, zeq(c, BS)), two, merge(keep, one, out))
            out = S(simp(out.len), out.ch)
        return out
    # ---- (1) + (2)
    e = ctx.engine(unwind=3); t0 = time.time()
    args = [H.sym_str(e, 'value%d' % i, cap) for i in range(2)]
    calls = []
    def h_parse(eng, st1, a, callee):
        calls.append((st1.g, a[0] if isinstance(a[0], S) else eng.deref(st1, a[0])))
        return E('std::result::Result', 1, {1: [E('types::error::ScriptError', 1, {1: [mk_str('stub')]})]})
    e.hooks['duckscript::parser::parse_text'] = h_parse; e.hooks['parser::parse_text'] = h_parse
    st = State(True, {})
    fr = induct.capture(e, 'sdk', 'utils::eval::parse', [PV(V(2, args))], st)
    fr.require(['line_buffer', 'iter'])
    it0 = fr.get(fr.st, 'iter')
    obs = [(fr.st.g, zand(zeq(fr.get(fr.st, 'line_buffer').len, 0), zeq(it0.f[1], 0)), 'entry: empty buffer, first argument')]
    B = H.sym_str(e, 'buffer', 6); k = e.fresh_int('k', 0, 2)
    st1 = fr.state(True, line_buffer=B, iter=T([it0.f[0], k] + list(it0.f[2:]), it0.ty))
    exits, back = fr.step(st1)
    goes_on = back.g if back is not None else False
    a = merge(zeq(k, 0), args[0], args[1])
    obs.append((True, zeq(goes_on, k < 2), 'one iteration per argument'))
    if back is not None:
        exp = str_push(str_concat(B, R(a)), SP)
        obs.append((back.g, zand(str_eq(fr.get(back, 'line_buffer'), exp), zeq(fr.get(back, 'iter').f[1], k + 1)),
                    'the buffer grows by the value as written ("" for the empty value, quotes around a value with a blank, backslashes around a value in quotes) and a blank'))
    rets = fr.returns(exits)
    for g_, txt in calls:
        obs.append((g_, str_eq(txt, processed(B)), 'the text handed to the parser is the buffer with line breaks dropped and every backslash doubled'))
    obs.append((zeq(k, 2), zor(*[g_ for g_, _ in calls]) if calls else False, 'after the last argument the text is parsed'))
    for g, cnd, msg in obs: e.obligations.append(Obligation(g, cnd, 'C09 re-serialiser lemma: %s' % msg, 'assert', 'oracle'))
    jr.symex_time += time.time() - t0
    res = discharge_known(e, jr, PID, {}, lambda m, o=None: dict(kind='lemma', level='reserialise', values=[solve.model_str(m, x) for x in args]))
    witness(jr, e, 're-serialiser lemma: a value in quotes', zand(goes_on, a.len >= 2, zeq(a.ch[0], DQ), zeq(sel(a.ch, a.len - 1, 0), DQ)), lambda m, o=None: dict(kind='lemma', level='reserialise'))
    H.finish_job(jr, e, res)
    # ---- (3) the text of one value = its rendering with only the backslash escaped (pure string identity, decided by the solver)
    e = ctx.engine(unwind=3); t0 = time.time()
    a = H.sym_str(e, 'value', cap)
    e.assume(zand(a.len >= 1, znot(contains_char(a, [LF, CR, DQ]))))
    has_sp = contains_char(a, [SP])
    cells = S(0, [])
    for i, c in enumerate(a.ch):
        inside = simp(i < a.len)
        cells = merge(zand(inside, zeq(c, BS)), str_push(str_push(cells, BS), BS), merge(inside, str_push(cells, c), cells)); cells = S(simp(cells.len), cells.ch)
    want = merge(has_sp, str_push(str_concat(S(1, [DQ]), cells), DQ), cells)
    got = processed(R(a))
    e.obligations.append(Obligation(True, str_eq(got, want), 'C09 re-serialiser lemma: the text of a value (no line break, no quote) is the value with every backslash doubled, in quotes exactly when it contains a blank', 'assert', 'oracle'))
    jr.symex_time += time.time() - t0
    res = discharge_known(e, jr, PID, {}, lambda m, o=None: dict(kind='lemma', level='reserialise', values=[solve.model_str(m, a)]))
    H.finish_job(jr, e, res)
