"""C09 - wrapping a command in if / while / not / an alias does not change its arguments."""
import time
import z3
from mirsym import harness as H, solve
from mirsym.values import *
from mirsym.engine import State, Obligation, some, none, OPTION
from mirsym.harness import process_failed, witness, discharge_known
from .common import *
from mirsym.models import is_ws
from .c06 import invocation_context, run_command
from .c03 import choose

PID = 'C09'
DOLLAR, PERCENT, LBRACE = 36, 37, 123


def contains_char(sv, codes):
    return zor(*[zand(i < sv.len, zor(*[zeq(c, k) for k in codes])) for i, c in enumerate(sv.ch)])


def contains_pair(sv, firsts, second):
    return zor(*[zand(i + 1 < sv.len, zor(*[zeq(sv.ch[i], f) for f in firsts]), zeq(sv.ch[i + 1], second)) for i in range(len(sv.ch) - 1)])


def known_classes(values):
    """role-keyed classes of argument values that the text round trip of utils::eval::parse is known to alter"""
    any_ = lambda f: zor(*[f(v) for v in values])
    return {
        'value-contains-line-break': (any_(lambda v: contains_char(v, [LF, CR])), ('assert', 'panic')),
        'value-contains-hash': (any_(lambda v: contains_char(v, [HASH])), ('assert', 'panic')),
        'value-contains-binding-syntax': (any_(lambda v: zor(contains_pair(v, [DOLLAR, PERCENT], LBRACE), contains_pair(v, [BS], DOLLAR), contains_pair(v, [BS], PERCENT))), ('assert', 'panic')),
        'value-contains-double-quote': (any_(lambda v: contains_char(v, [DQ])), ('assert', 'panic')),
        'first-value-starts-with-equals': (zand(values[0].len >= 1, zeq(values[0].ch[0], EQ)), ('assert', 'panic')),
        'value-ends-with-unicode-whitespace': (zand(values[-1].len >= 1, is_ws(sel(values[-1].ch, values[-1].len - 1, 0)), znot(zeq(sel(values[-1].ch, values[-1].len - 1, 0), SP))), ('assert', 'panic')),
    }


def job_wrapper(ctx, jr, nvals, cap, wrapper='not', fixed=None):
    jr.bounds = dict(values=nvals, value_chars=cap, wrapper=wrapper, alphabet='all Unicode scalar values', environment='one variable x (defined or not)')
    e = ctx.engine(unwind=2 * (nvals * (cap + 3) + 2) + 6, max_rec=3)
    e.hooks['std::sync::atomic::Atomic::<bool>::load'] = lambda eng, st1, a, c: False
    t0 = time.time()
    vals = [H.sym_str(e, 'value%d' % i, cap) for i in range(nvals)]
    if fixed is not None:       # first value is one of the listed words (values that look like condition keywords)
        fi = e.fresh_int('fixed', 0, len(fixed) - 1); vals[0] = choose(fi, fixed)
        jr.bounds['first_value'] = 'one of %r' % (fixed,)
    xdef = e.fresh_bool('x_defined'); xval = H.sym_str(e, 'xval', 2)
    log = {}

    def h_run(eng, st1, a):
        ctxv = a[1]
        log['args'] = (st1.g, ctxv.f[0])
        return E('types::command::CommandResult', 0, {0: [some(mk_str('true'))]})
    e.dyn_impls[('harness::Logged', 'run')] = h_run
    e.dyn_impls[('harness::Logged', 'clone_and_box')] = lambda eng, st1, a: eng.alloc(st1, a[0])
    st0 = State(True, {})
    box = e.alloc(st0, T([], 'harness::Logged'))
    commands = T([M([(True, mk_str('c'), box)]), M([])], 'types::command::Commands')
    argv = V(nvals + 1, [mk_str('c')] + vals)
    ctxv, st = invocation_context(e, argv, commands)
    st.m.update(st0.m)
    st.m[(0, 'vars')] = M([(xdef, mk_str('x'), xval)])
    rs, rv = run_command(e, 'sdk::std::not::CommandImpl', ctxv, st)
    jr.symex_time = time.time() - t0
    if rs is None: raise Abort('not never returns')
    checks = []
    if 'args' in log:
        g, got = log['args']
        checks.append(('the wrapped command is invoked', g))
        checks.append(('the wrapped command receives as many arguments as were given', zimp(g, zeq(got.len, nvals))))
        for i in range(nvals):
            if i < len(got.it): checks.append(('argument %d reaches the wrapped command unchanged' % i, zimp(g, str_eq(got.it[i], vals[i]))))
    else:
        checks.append(('the wrapped command is invoked', False))
    checks.append(('not returns the negated output of the direct call', zand(zeq(rv.d, 0), zeq(rv.p[0][0].d, 1), str_eq(rv.p[0][0].p[1][0], mk_str('false'))) if 0 in rv.p and 1 in rv.p[0][0].p else False))
    for msg, c in checks: e.obligations.append(Obligation(rs.g, c, 'C09 %s: %s' % (wrapper, msg), 'assert', 'oracle'))

    def extract(m, o=None):
        return dict(kind='c09', wrapper=wrapper, values=[solve.model_str(m, v) for v in vals], env={'x': solve.model_str(m, xval)} if solve.model_bool(m, xdef) else {})
    res = discharge_known(e, jr, PID, known_classes(vals), extract)
    w = vals[-1]
    witness(jr, e, 'value with a space and a backslash', zand(rs.g, w.len >= 2, w.ch[0] == SP, w.ch[1] == BS) if cap >= 2 else zand(rs.g, w.len >= 1, w.ch[0] == BS), extract)
    H.finish_job(jr, e, res)


def job_callgraph(ctx, jr):
    """if / elseif / while / not / alias reach the command only through utils::eval::parse (structural check on the current MIR)"""
    from mirsym.mirparse import ensure_parsed
    mir = ctx.mir
    def calls(name):
        fn = mir.fns.get(('sdk', name))
        if fn is None: return None
        ensure_parsed(fn)
        return [blk[1][2] for blk in fn.blocks.values() if not blk[2] and blk[1][0] == 'call']
    need = {'utils::eval::eval': 'utils::eval::parse', 'utils::eval::eval_with_instructions': 'utils::eval::parse',
            'utils::condition::eval_condition': 'utils::eval::eval_with_instructions'}
    okn = 0
    for f, callee in need.items():
        cs = calls(f)
        jr.obligations += 1
        if cs is not None and any(c.startswith(callee) for c in cs): okn += 1
        else: jr.status = 'inconclusive'; jr.reason = '%s no longer calls %s' % (f, callee)
    jr.discharged += okn; jr.blocks += 1; jr.merges += 1
    jr.samples.append({'wrappers share': 'eval_condition -> eval_with_instructions -> parse; alias -> eval_with_error -> eval -> parse'})


def replayer(v):
    vals = v['values']
    vars_ = {'v%d' % i: x for i, x in enumerate(vals)}; vars_.update(v.get('env', {}))
    args = ' '.join('${v%d}' % i for i in range(len(vals)))
    # a recording command: the direct call and the wrapped call must record the same list
    out_d = H.replay(dict(mode='scripted_sdk', script='c %s' % args, vars=vars_))
    out_w = H.replay(dict(mode='scripted_sdk', script='r = not c %s' % args, vars=vars_))
    v['native_direct'] = out_d; v['native_wrapped'] = out_w
    if out_w.get('panic') or out_d.get('panic'): return (True, 'native panic')
    ld = [l['arguments'] for l in out_d.get('log', [])]; lw = [l['arguments'] for l in out_w.get('log', [])]
    if ld != [vals]: return (None, 'direct call did not receive the values: %r' % (ld,))
    return (lw != ld, 'direct call received %r, wrapped call received %r' % (ld, lw))


def main(tier, seed):
    chk = H.Check(PID, tier, seed)
    chk.replayer = replayer
    if tier == 'quick':
        chk.job(job_wrapper, 'not:1x2', nvals=1, cap=2)
        chk.job(job_wrapper, 'not:keyword+1', nvals=2, cap=1, fixed=['and', 'or', '('])
        chk.job(job_callgraph, 'callgraph')
        chk.bounds = dict(values='1 value <= 2 chars (all Unicode); a keyword-looking first value followed by a value <= 1 char')
    else:
        chk.job(job_wrapper, 'not:1x3', nvals=1, cap=3)
        chk.job(job_wrapper, 'not:2x1', nvals=2, cap=1)
        chk.job(job_wrapper, 'not:1x2', nvals=1, cap=2)
        chk.job(job_wrapper, 'not:keyword+2', nvals=2, cap=2, fixed=['and', 'or', '(', ')', 'not', 'true', 'false', 'c'])
        chk.job(job_callgraph, 'callgraph')
        chk.bounds = dict(values='1 value <= 3 chars, 2 values <= 1 char, keyword-looking first value + value <= 2 chars')
    chk.assumptions = ['the wrapped command is a harness command registered as c that records its arguments',
                       'the not command is the executed wrapper; if/elseif/while/alias are checked to reach the command through the same utils::eval::parse (call graph on the current MIR)',
                       'open known-finding classes (listed in known_findings.json) are excluded from the main query and reported as KNOWN-FINDING while they reproduce']
    results = chk.run()
    return chk.finish(results, 'every obligation is a solver query over all argument values within the bounds and outside the open known-finding classes')
