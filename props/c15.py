"""C15 - the command registry is a consistent name/alias map."""
import time, itertools
import z3
from mirsym import harness as H, solve
from mirsym.values import *
from mirsym.engine import State, Obligation, some, none
from mirsym.harness import process_failed, witness, discharge_known
from mirsym.models import map_lookup
from .common import *

PID = 'C15'
UNIVERSE = 'abc'
CMD_TY = 'harness::Cmd'
NU = len(UNIVERSE)


def name_of(idx):
    """1-char name for a (symbolic) universe index"""
    if not is_sym(idx): return mk_str(UNIVERSE[idx])
    return S(1, [idx + ord('a')])


def install_command_model(e):
    e.dyn_impls[(CMD_TY, 'name')] = lambda eng, st, a: a[0].f[0]
    e.dyn_impls[(CMD_TY, 'aliases')] = lambda eng, st, a: a[0].f[1]
    e.dyn_impls[(CMD_TY, 'clone_and_box')] = lambda eng, st, a: eng.alloc(st, a[0])


class Spec:
    """name table + alias table over the universe, as z3 terms"""

    def __init__(s):
        s.reg = [False] * NU                           # name n registered?
        s.al = [(0, [0, 0])] * NU                      # alias list (len, [idx, idx]) of the command registered as n
        s.target = [-1] * NU                           # alias n -> target index or -1

    def resolve(s, x):
        t = sel(s.target, x, -1)
        return zite(t >= 0, t, x)

    def set(s, ni, alen, als):
        refuse = sel(s.reg, ni, False)
        for j in range(2):
            refuse = zor(refuse, zand(j < alen, sel(s.target, als[j], -1) >= 0))
        acc = simp(znot(refuse))
        reg = [zite(zand(acc, zeq(ni, n)), True, s.reg[n]) for n in range(NU)]
        al = [(zite(zand(acc, zeq(ni, n)), alen, s.al[n][0]), [zite(zand(acc, zeq(ni, n)), als[j], s.al[n][1][j]) for j in range(2)]) for n in range(NU)]
        tg = [zite(zand(acc, zeq(ni, n)), -1, s.target[n]) for n in range(NU)]
        for j in range(2):
            tg = [zite(zand(acc, j < alen, zeq(als[j], n)), ni, tg[n]) for n in range(NU)]
        s.reg, s.al, s.target = [simp(x) for x in reg], al, [simp(x) for x in tg]
        return acc

    def remove(s, x):
        n = s.resolve(x)
        was = simp(sel(s.reg, n, False))
        s.target = [simp(zite(zand(was, zeq(s.target[m], n)), -1, s.target[m])) for m in range(NU)]
        s.reg = [simp(zite(zand(was, zeq(n, m)), False, s.reg[m])) for m in range(NU)]
        return was

    def get(s, x):
        n = s.resolve(x)
        return simp(sel(s.reg, n, False)), n


def state_matches(e, st, reg_ptr, spec):
    """the engine's two maps equal the spec tables on the universe; and no alias is dangling"""
    cmds = e.read(st, ('mem', 0, 'reg', [('f', 0)])); aliases = e.read(st, ('mem', 0, 'reg', [('f', 1)]))
    cs = []
    for n in range(NU):
        key = mk_str(UNIVERSE[n])
        found, box, _ = map_lookup(e, st, cmds, key)
        cs.append(('command table has %s iff registered' % UNIVERSE[n], zeq(found, spec.reg[n])))
        if found is not False:
            cmd = e.deref(st, box)
            def chk(c):
                alen, als = spec.al[n]
                al = c.f[1] if getattr(c, 'ty', None) == CMD_TY else V(0, [])      # commands made by the script-level alias declare no aliases
                ok = [str_eq(c.f[0], key), zeq(al.len, alen)]
                for j in range(2):
                    if j < len(al.it): ok.append(zimp(j < alen, str_eq(al.it[j], name_of(als[j]))))
                    else: ok.append(znot(j < alen))
                return zand(*ok)
            same = umap(cmd, chk) if not isinstance(cmd, U) else zor(*[zand(c, chk(x)) for c, x in cmd.alts])
            cs.append(('command stored under %s is the registered one' % UNIVERSE[n], zimp(found, same)))
        af, tgt, _ = map_lookup(e, st, aliases, key)
        exp_present = spec.target[n] >= 0 if is_sym(spec.target[n]) else (spec.target[n] >= 0)
        cs.append(('alias table entry for %s' % UNIVERSE[n], zeq(af, exp_present)))
        if af is not False:
            cs.append(('alias %s points to the right name' % UNIVERSE[n], zimp(af, str_eq(tgt, name_of(spec.target[n])))))
            # independent of the spec: an alias never points to a command that is gone
            tf, tbox, _ = map_lookup(e, st, cmds, tgt)
            cs.append(('alias %s does not dangle' % UNIVERSE[n], zimp(af, tf)))
            if tf is not False:
                tc = e.deref(st, tbox)
                lists = lambda c: (zor(*[zand(j < c.f[1].len, str_eq(c.f[1].it[j], key)) for j in range(len(c.f[1].it))]) if c.f[1].it else False) if getattr(c, 'ty', None) == CMD_TY else False
                cs.append(('alias %s is listed by the command it points to' % UNIVERSE[n], zimp(zand(af, tf), umap(tc, lists) if not isinstance(tc, U) else zor(*[zand(c_, lists(x)) for c_, x in tc.alts]))))
    return cs


def arbitrary_registry(e, st):
    """a symbolic registry over the universe satisfying the invariant of the property: an alias points to a registered command
    that lists it (nothing is assumed about which listed aliases are still in the alias table)"""
    spec = Spec()
    spec.reg = [e.fresh_bool('reg.%s' % UNIVERSE[n]) for n in range(NU)]
    spec.al = [(e.fresh_int('al.%s.len' % UNIVERSE[n], 0, 2), [e.fresh_int('al.%s.%d' % (UNIVERSE[n], j), 0, NU - 1) for j in range(2)]) for n in range(NU)]
    spec.target = [e.fresh_int('target.%s' % UNIVERSE[n], -1, NU - 1) for n in range(NU)]
    for n in range(NU):
        t = spec.target[n]
        listed = False
        for m in range(NU):
            alen, als = spec.al[m]
            listed = zor(listed, zand(zeq(t, m), spec.reg[m], zor(*[zand(j < alen, zeq(als[j], n)) for j in range(2)])))
        e.assume(z3.Implies(t >= 0, listed))
    cmds = []; als_ = []
    for n in range(NU):
        alen, als = spec.al[n]
        box = e.alloc(st, T([mk_str(UNIVERSE[n]), V(alen, [name_of(a) for a in als])], CMD_TY))
        cmds.append((spec.reg[n], mk_str(UNIVERSE[n]), box))
        als_.append((spec.target[n] >= 0, mk_str(UNIVERSE[n]), name_of(spec.target[n])))
    return spec, T([M(cmds), M(als_)], 'types::command::Commands')


def job_history(ctx, jr, seqs, from_arbitrary=False):
    """each op sequence (kinds fixed, all arguments symbolic) from Commands::new() - or, as a step lemma, ONE operation from an
    arbitrary registry satisfying the invariant - compared step by step with the spec"""
    jr.bounds = dict(universe=list(UNIVERSE), op_sequences=len(seqs), steps=len(seqs[0]), aliases_per_command='0..2 (may repeat, may equal names)')
    if from_arbitrary: jr.bounds.update(initial_registry='arbitrary over the universe, invariant assumed and re-established', claim='one-operation lemma; a history is its iteration (DESIGN.md 8.9)')
    for seq in seqs:
        e = ctx.engine(unwind=6)
        install_command_model(e)
        t0 = time.time()
        st = State(True, {})
        if from_arbitrary:
            spec, reg0 = arbitrary_registry(e, st)
            pre = dict(reg=list(spec.reg), al=list(spec.al), target=list(spec.target))
        else:
            st, reg0 = e.run('core', 'types::command::Commands::new', [], st)
            spec = Spec(); pre = None
        st.m[(0, 'reg')] = reg0
        regp = P(0, 'reg'); script = []; g_checks = []
        for k, op in enumerate(seq):
            if st is None: break
            if op == 'S':
                ni = e.fresh_int('s%d.name' % k, 0, NU - 1); alen = e.fresh_int('s%d.alen' % k, 0, 2)
                als = [e.fresh_int('s%d.al%d' % (k, j), 0, NU - 1) for j in range(2)]
                cmd = T([name_of(ni), V(alen, [name_of(a) for a in als])], CMD_TY)
                box = e.alloc(st, cmd)
                st, rv = e.run('core', 'types::command::Commands::set', [regp, box], st)
                acc = spec.set(ni, alen, als)
                g_checks.append((st.g, 'step %d set: accepted iff no name/alias conflict' % k, zeq(zeq(rv.d, 0), acc)))
                script.append(('set', ni, alen, als))
            elif op == 'R':
                x = e.fresh_int('r%d.x' % k, 0, NU - 1)
                st, rv = e.run('core', 'types::command::Commands::remove', [regp, name_of(x)], st)
                was = spec.remove(x)
                g_checks.append((st.g, 'step %d remove: result' % k, zeq(rv, was)))
                script.append(('remove', x))
            elif op == 'G':
                x = e.fresh_int('g%d.x' % k, 0, NU - 1)
                found, n = spec.get(x)
                st, rv = e.run('core', 'types::command::Commands::get', [regp, name_of(x)], st)
                g_checks.append((st.g, 'step %d get: found iff resolvable' % k, zeq(zeq(rv.d, 1), found)))
                if 1 in rv.p:
                    cmdv = e.deref(st, e.deref(st, rv.p[1][0]))
                    nm = umap(cmdv, lambda c: c.f[0]) if not isinstance(cmdv, U) else None
                    if nm is not None: g_checks.append((st.g, 'step %d get: returns the command registered under the resolved name' % k, zimp(found, str_eq(nm, name_of(n)))))
                st2, ex = e.run('core', 'types::command::Commands::exists', [regp, name_of(x)], st); st = st2
                g_checks.append((st.g, 'step %d exists agrees with get' % k, zeq(ex, found)))
                st2, gu = e.run('core', 'types::command::Commands::get_for_use', [regp, name_of(x)], st); st = st2
                g_checks.append((st.g, 'step %d get_for_use agrees with get' % k, zeq(zeq(gu.d, 1), found)))
                script.append(('get', x))
            for msg, c in state_matches(e, st, regp, spec):
                g_checks.append((st.g, 'after step %d (%s): %s' % (k, op, msg), c))
        # final: sorted name listing
        st, names = e.run('core', 'types::command::Commands::get_all_command_names', [regp], st)
        cnt = 0
        for n in range(NU): cnt = cnt + zite(spec.reg[n], 1, 0)
        g_checks.append((st.g, 'get_all_command_names: count', zeq(names.len, cnt)))
        pos = 0
        for n in range(NU):
            got = sel(names.it, pos, S(0, [])) if names.it else S(0, [])
            g_checks.append((st.g, 'get_all_command_names: sorted names', zimp(spec.reg[n], str_eq(got, mk_str(UNIVERSE[n])))))
            pos = pos + zite(spec.reg[n], 1, 0)
        jr.symex_time += time.time() - t0
        for g, msg, c in g_checks: e.obligations.append(Obligation(g, c, 'C15 %s: %s' % (''.join(seq), msg), 'assert', 'oracle'))

        def extract(m, o=None):
            ops = []
            for it in script:
                if it[0] == 'set':
                    al = [UNIVERSE[solve.model_int(m, a)] for a in it[3][:solve.model_int(m, it[2])]]
                    ops.append(['set', UNIVERSE[solve.model_int(m, it[1])], al])
                else: ops.append([it[0], UNIVERSE[solve.model_int(m, it[1])]])
            d_ = dict(kind='c15', ops=ops)
            if pre is not None:
                # rebuild the arbitrary registry natively: register every command of the pre-state with the aliases that point to it
                init = []
                for n in range(NU):
                    if solve.model_bool(m, pre['reg'][n]):
                        init.append(['set', UNIVERSE[n], [UNIVERSE[x] for x in range(NU) if solve.model_int(m, pre['target'][x]) == n]])
                d_['ops'] = init + ops; d_['prefix'] = len(init); d_['kind'] = 'lemma'
            return d_
        # known class: removing a command that declares an alias which currently points to another command
        res = discharge_known(e, jr, PID, {}, extract)
        witness(jr, e, 'sequence %s runs' % ''.join(seq), st.g, extract)
        H.finish_job(jr, e, res)


def job_script_level(ctx, jr):
    """alias / unalias / remove_command / is_command_defined (the real SDK run functions), one operation from an arbitrary registry
    (invariant assumed) and an arbitrary set of user aliases; registry and user-alias set compared with the map afterwards"""
    from .c06 import invocation_context, run_command
    from mirsym.models import map_lookup as ml
    jr.bounds = dict(universe=list(UNIVERSE), initial_registry='arbitrary, invariant assumed', user_aliases='arbitrary subset of the universe (names registered through alias and not yet removed through unalias)',
                     operations=['alias N c x', 'alias N', 'unalias N', 'remove_command N', 'is_command_defined N'], claim='one-operation lemma (DESIGN.md 8.9)')
    SVT = 'types::runtime::StateValue'; SV = ctx.types.enums[SVT]; SV_B, SV_SUB = SV.index('Boolean'), SV.index('SubState')
    OPS = {'alias': ('sdk::std::lib::alias::set::CommandImpl', 2), 'alias-short': ('sdk::std::lib::alias::set::CommandImpl', 0), 'unalias': ('sdk::std::lib::alias::unset::CommandImpl', 0),
           'remove_command': ('sdk::std::lib::command::remove::CommandImpl', 0), 'is_command_defined': ('sdk::std::is_command_defined::CommandImpl', 0)}
    for op, (ty, extra) in OPS.items():
        e = ctx.engine(unwind=6); install_command_model(e); t0 = time.time()
        st0 = State(True, {})
        spec, reg0 = arbitrary_registry(e, st0)
        U = [e.fresh_bool('user_alias.%s' % UNIVERSE[n]) for n in range(NU)]
        sub_present = e.fresh_bool('ALIAS_STATE.present')
        for n in range(NU): e.assume(z3.Implies(U[n], sub_present))
        x = e.fresh_int('N', 0, NU - 1)
        argv = V(1 + extra, [name_of(x)] + [mk_str('c'), mk_str('x')][:extra])
        ctxv, st = invocation_context(e, argv, commands=reg0)
        st.m.update({k: v for k, v in st0.m.items() if k not in st.m})
        st.m[(0, 'reg')] = reg0
        ctxv = T(list(ctxv.f[:5]) + [P(0, 'reg')] + list(ctxv.f[6:]), ctxv.ty)
        st.m[(0, 'state')] = M([(sub_present, mk_str('ALIAS_STATE'), E(SVT, SV_SUB, {SV_SUB: [M([(U[n], mk_str(UNIVERSE[n]), E(SVT, SV_B, {SV_B: [True]})) for n in range(NU)])]}))])
        pre_reg = list(spec.reg); pre_target = list(spec.target)
        rs, rv = run_command(e, ty, ctxv, st)
        jr.symex_time += time.time() - t0
        CONT, ERR = 0, 2
        out = rv.p[CONT][0] if CONT in rv.p else None
        def out_is(b): return False if out is None or 1 not in out.p else zand(zeq(rv.d, CONT), zeq(out.d, 1), str_eq(out.p[1][0], merge(b, mk_str('true'), mk_str('false'))))
        checks = []
        U2 = list(U)
        if op == 'alias':
            acc = spec.set(x, 0, [0, 0])
            checks.append(('alias N ... registers a command N exactly when the name is free; refused otherwise with an error', zite(acc, out_is(True), zeq(rv.d, ERR))))
            U2 = [simp(zor(U[n], zand(acc, zeq(x, n)))) for n in range(NU)]
        elif op == 'alias-short':
            checks.append(('alias with a name only is an error and changes nothing', zeq(rv.d, ERR)))
        elif op == 'unalias':
            isU = sel(U, x, False)
            was_alias = sel(pre_target, x, -1) >= 0
            # a user alias: remove the command of that name (through the registry, i.e. resolving an alias of the same spelling first);
            # otherwise a plain alias-table entry is dropped; otherwise nothing
            removed = spec.remove(x) if True else None
            # spec.remove was applied unconditionally: undo it where the name is not a user alias
            spec.reg = [simp(zite(isU, spec.reg[n], pre_reg[n])) for n in range(NU)]
            spec.target = [simp(zite(isU, spec.target[n], zite(zand(znot(isU), was_alias, zeq(x, n)), -1, pre_target[n]))) for n in range(NU)]
            res = zite(isU, removed, was_alias)
            checks.append(('unalias N: true exactly when a user alias N was removed or an alias-table entry N was dropped', out_is(res)))
            U2 = [simp(zand(U[n], znot(zand(isU, removed, zeq(x, n))))) for n in range(NU)]
        elif op == 'remove_command':
            was = spec.remove(x); checks.append(('remove_command N = registry remove', out_is(was)))
        else:
            found, _ = spec.get(x); checks.append(('is_command_defined N = registry lookup (aliases first)', out_is(found)))
        # registry afterwards
        st_chk = rs
        for msg, c in state_matches(e, st_chk, P(0, 'reg'), spec): checks.append(('registry afterwards: ' + msg, c))
        # user-alias set afterwards
        sf, ssub, _ = ml(e, rs, e.read(rs, ('mem', 0, 'state', [])), mk_str('ALIAS_STATE'))
        subm = ssub.p[SV_SUB][0] if isinstance(ssub, E) and SV_SUB in ssub.p else M([])
        for n in range(NU):
            f_, _, _ = ml(e, rs, subm, mk_str(UNIVERSE[n]))
            checks.append(('user-alias set afterwards: %s' % UNIVERSE[n], zeq(zand(sf, f_), U2[n])))
        for msg, c in checks: e.obligations.append(Obligation(rs.g, c, 'C15 script-level %s: %s' % (op, msg), 'assert', 'oracle'))

        def extract(m, o=None, op=op):
            init = []
            for n in range(NU):
                if solve.model_bool(m, pre_reg[n]) and not solve.model_bool(m, U[n]):
                    init.append(['set', UNIVERSE[n], [UNIVERSE[y] for y in range(NU) if solve.model_int(m, pre_target[y]) == n]])
            users = [UNIVERSE[n] for n in range(NU) if solve.model_bool(m, U[n])]
            return dict(kind='lemma', level='script', init=init, user_aliases=users, registered_users=[u for u in users if solve.model_bool(m, pre_reg[UNIVERSE.index(u)])],
                        op=op, name=UNIVERSE[solve.model_int(m, x)])
        res = discharge_known(e, jr, PID, {}, extract)
        witness(jr, e, 'script-level %s reachable' % op, rs.g, extract)
        H.finish_job(jr, e, res)


# ---------------------------------------------------------------------- native replay: python spec vs real registry
def py_spec(ops):
    names = {}; aliases = {}; out = []
    for op in ops:
        if op[0] == 'set':
            n, al = op[1], op[2]
            if n in names or any(a in aliases for a in al): out.append(False); continue
            names[n] = list(al); aliases.pop(n, None)
            for a in al: aliases[a] = n
            out.append(True)
        elif op[0] == 'remove':
            n = aliases.get(op[1], op[1])
            if n in names:
                del names[n]
                for a in [a for a, t in aliases.items() if t == n]: del aliases[a]
                out.append(True)
            else: out.append(False)
        else:
            n = aliases.get(op[1], op[1])
            out.append(n if n in names else None)
    return out, names, aliases


def script_panel_model(ops):
    """python model of the script-level commands over: f (a function), a (free name), concat (alias of the SDK command std::string::Concat)"""
    names = {'f': [], 'std::string::Concat': ['concat']}; aliases = {'concat': 'std::string::Concat'}; users = set(); out = []
    def remove(x):
        n = aliases.get(x, x)
        if n in names:
            for a_ in [a_ for a_, t in aliases.items() if t == n]: del aliases[a_]
            del names[n]; return True
        return False
    for op, n in ops:
        if op == 'alias':
            if n in names: out.append('false')
            else: names[n] = []; aliases.pop(n, None); users.add(n); out.append('true')
        elif op == 'unalias':
            if n in users:
                r = remove(n)
                if r: users.discard(n)
                out.append('true' if r else 'false')
            elif n in aliases: del aliases[n]; out.append('true')
            else: out.append('false')
        elif op == 'remove_command': out.append('true' if remove(n) else 'false')
        else: out.append('true' if aliases.get(n, n) in names else 'false')
    probe = {n: ('true' if aliases.get(n, n) in names else 'false') for n in ('f', 'a', 'concat', 'std::string::Concat')}
    return out, probe


def replayer(v):
    if v.get('kind') == 'lemma' and v.get('level') == 'script':
        # confirmation panel: every sequence of <= 2 script-level operations (and alias-first sequences of 3) over a function name, a free
        # name, an SDK alias and an SDK full name, run natively and compared with the python model
        import itertools
        OPN = ['alias', 'unalias', 'remove_command', 'is_command_defined']; NM = ['f', 'a', 'concat', 'std::string::Concat']
        single = list(itertools.product(OPN, NM))
        seqs = [[x] for x in single] + [list(x) for x in itertools.product(single, repeat=2)] + [[('alias', n)] + list(x) for n in ('f', 'a') for x in itertools.product(single, repeat=2)]
        cases = []
        for seq in seqs:
            lines = ['fn f', 'end']
            for i, (op, n) in enumerate(seq): lines.append('r%d = %s %s%s' % (i, op, n, ' echo x' if op == 'alias' else ''))
            for j, n in enumerate(NM): lines.append('d%d = is_command_defined %s' % (j, n))
            cases.append((seq, '\n'.join(lines)))
        outs = H.replay(dict(mode='batch', cases=[dict(mode='sdk', script=sc) for _, sc in cases]), timeout=600)['results']
        for (seq, sc), out in zip(cases, outs):
            if out.get('panic'): v['native'] = out; return (True, 'native panic on %r' % (seq,))
            exp, probe = script_panel_model(seq)
            if not out.get('ok'): continue
            got = [out['vars'].get('r%d' % i) for i in range(len(seq))]; gp = {n: out['vars'].get('d%d' % j) for j, n in enumerate(NM)}
            if got != exp or gp != probe:
                v['native'] = out; v['script'] = sc
                return (True, 'script %r: native results %r / defined %r, model %r / %r' % (seq, got, gp, exp, probe))
        return (False, '%d script-level sequences behave like the map natively' % len(cases))
    out = H.replay(dict(mode='registry', ops=v['ops'], universe=list(UNIVERSE))); v['native'] = out
    if out.get('panic'): return (True, 'native panic')
    exp, names, aliases = py_spec(v['ops'])
    v['spec'] = dict(results=exp, names=names, aliases=aliases)
    if out.get('results') != exp: return (True, 'native results %r, spec %r' % (out.get('results'), exp))
    # probe every universe name afterwards
    probe = {x: (aliases.get(x, x) if aliases.get(x, x) in names else None) for x in UNIVERSE}
    if out.get('probe') != probe: return (True, 'native resolution %r, spec %r' % (out.get('probe'), probe))
    if out.get('names') != sorted(names): return (True, 'native names %r' % (out.get('names'),))
    return (False, 'native agrees with the spec')


def main(tier, seed):
    chk = H.Check(PID, tier, seed)
    chk.replayer = replayer
    k = 4 if tier == 'quick' else 5
    seqs = [s for s in itertools.product('SRG', repeat=k) if s[0] == 'S' and s.count('S') >= 2]
    if tier == 'thorough': seqs += [s for s in itertools.product('SRG', repeat=6) if s[0] == 'S' and s.count('S') >= 3 and s.count('G') <= 1 and s.count('R') >= 1]
    groups = [seqs[i::12] for i in range(12)]
    for gi, g in enumerate(groups):
        if g: chk.job(job_history, 'histories/%d' % gi, seqs=g)
    for op in 'SRG': chk.job(job_history, 'step/%s' % op, seqs=[(op,)], from_arbitrary=True)
    chk.job(job_script_level, 'step/script-level commands')
    chk.bounds = dict(step_lemmas='set / remove / lookup from an arbitrary registry over the universe satisfying the invariant (no dangling alias; an alias is listed by its command), invariant re-established', universe=list(UNIVERSE), history_length=k, op_kind_sequences=len(seqs), arguments='symbolic (names, alias lists of 0..2, lookup keys)')
    chk.assumptions = ['dyn Command name()/aliases() of registered commands are harness values over the universe {a,b,c}',
                       'op kinds are case-split (one solver run per kind sequence); all arguments are symbolic', 'HashMap modelled as association list; iteration in slot order']
    results = chk.run()
    return chk.finish(results, 'every obligation is a solver query over all argument choices of a history shape')
