"""Shared builders for the parser-level harnesses: structured symbolic texts and the symbolic renderer of the
documented line syntax (DESIGN.md section 4, C01/C08)."""
import z3
from mirsym.values import *
from mirsym.engine import some, none, OPTION, RESULT
from mirsym.models import str_push, str_concat, is_ws

BS, DQ, SP, HASH, EQ, COLON, BANG, LF, CR, TAB = 92, 34, 32, 35, 61, 58, 33, 10, 13, 9
DOLLAR, LBRACE, RBRACE, PERCENT = 36, 123, 125, 37

SCRIPT_ERRORS = ['ErrorReadingFile', 'Initialization', 'Runtime', 'PreProcessNoCommandFound', 'ControlWithoutValidValue',
                 'InvalidControlLocation', 'MissingEndQuotes', 'MissingOutputVariableName', 'InvalidEqualsLocation',
                 'InvalidQuotesLocation', 'EmptyLabel', 'UnknownPreProcessorCommand']


def meta_new(line=None, source=None):
    return T([none() if line is None else some(line), none() if source is None else some(source)], 'types::instruction::InstructionMetaInfo')


class Buf:
    """symbolic text under construction, truncated to cap cells (the final length is assumed <= cap)"""

    def __init__(s, cap): s.s = S(0, []); s.cap = cap

    def _trunc(s, v): return S(v.len, v.ch[:s.cap])

    def push(s, c, cond=True):
        if cond is False: return
        n = s._trunc(str_push(s.s, c))
        s.s = n if cond is True else s._trunc(merge(cond, n, s.s))

    def append(s, other, cond=True):
        if cond is False: return
        n = s._trunc(str_concat(s.s, other))
        s.s = n if cond is True else s._trunc(merge(cond, n, s.s))

    def spaces(s, e, name, lo, hi):
        """lo..hi spaces, the count is a fresh symbolic choice"""
        k = e.fresh_int(name, lo, hi)
        for i in range(hi): s.push(SP, True if i < lo else simp(k > i))
        return k


def no_char(sv, codes):
    cs = []
    for i, c in enumerate(sv.ch):
        for code in codes: cs.append(zimp(i < sv.len, znot(zeq(c, code))))
    return zand(*cs)


def all_chars(sv, pred):
    return zand(*[zimp(i < sv.len, pred(c)) for i, c in enumerate(sv.ch)])


def name_ok(sv, first_not=()):
    """the documented class for label / output / command names: no white space, quote, backslash, '#', '='"""
    cs = [sv.len >= 1, all_chars(sv, lambda c: zand(znot(is_ws(c)), c != DQ, c != BS, c != HASH, c != EQ))]
    for code in first_not: cs.append(sv.ch[0] != code)
    return zand(*cs)


def render_arg(e, buf, arg, quoted, name, cond=True):
    """append the documented rendering of one argument string; returns the constraint under which the rendering
    is allowed by the syntax (unquoted: non-empty, no white space, no '#'; raw tabs only inside quotes)"""
    allowed = []
    buf.push(DQ, zand(cond, quoted))
    for i, c in enumerate(arg.ch):
        inside = zand(cond, simp(i < arg.len))
        if inside is False: break
        tabraw = e.fresh_bool('%s.tabraw%d' % (name, i))
        special = zor(zeq(c, BS), zeq(c, DQ), zeq(c, LF), zeq(c, CR), zand(zeq(c, TAB), znot(tabraw)))
        second = zite(zeq(c, BS), BS, zite(zeq(c, DQ), DQ, zite(zeq(c, LF), 110, zite(zeq(c, CR), 114, 116))))
        buf.push(zite(special, BS, c), inside)
        buf.push(second, zand(inside, special))
        # unquoted: no raw white space (a raw tab is white space), no '#'
        allowed.append(zimp(zand(inside, znot(quoted)), zand(zor(special, znot(is_ws(c))), c != HASH)))
        allowed.append(zimp(zand(inside, zeq(c, TAB), tabraw), quoted))
    buf.push(DQ, zand(cond, quoted))
    allowed.append(zimp(zand(cond, znot(quoted)), arg.len >= 1))
    return zand(*allowed)


def text_of_lines(e, lines, count, name='txt', cap=None):
    """text = line_0 sep_0 line_1 sep_1 ... ; sep in {LF, CRLF}; the last separator is optional.
    Returns (text S with a lines hint, constraints). Every text has exactly one such decomposition when
    a line followed by a bare LF does not end in CR and a last line without separator is non-empty."""
    n = len(lines)
    cap = cap or sum(len(l.ch) + 2 for l in lines)
    buf = Buf(cap); cons = []
    crlf = [e.fresh_bool('%s.crlf%d' % (name, i)) for i in range(n)]
    lastsep = e.fresh_bool('%s.lastsep' % name)
    for i, l in enumerate(lines):
        ex = simp(i < count)
        if ex is False: break
        is_last = simp(zeq(count, i + 1))
        has_sep = zand(ex, zor(znot(is_last), lastsep))
        buf.append(l, ex)
        buf.push(CR, zand(has_sep, crlf[i])); buf.push(LF, has_sep)
        cons.append(zimp(ex, no_char(l, [LF])))
        lastc = sel(l.ch, l.len - 1, 0)
        cons.append(zimp(zand(has_sep, znot(crlf[i]), l.len >= 1), lastc != CR))
        cons.append(zimp(zand(ex, znot(has_sep)), l.len >= 1))
    t = buf.s
    return S(t.len, t.ch, ('lines', count, list(lines))), zand(*cons)


# ---------------------------------------------------------------------- result accessors
def res_ok(rv): return simp(zeq(rv.d, 0))
def res_instrs(rv): return rv.p[0][0] if 0 in rv.p else V(0, [])
def res_err(rv): return rv.p[1][0] if 1 in rv.p else None


def err_is(errv, kind):
    return simp(zeq(errv.d, SCRIPT_ERRORS.index(kind)))


def err_line(errv, kind):
    """Option<usize> line of an error of the given kind (meta-carrying kinds)"""
    k = SCRIPT_ERRORS.index(kind)
    meta = errv.p[k][0]
    return meta.f[0]


def instr_line(ins): return ins.f[0].f[0]          # Option<usize>
def instr_source(ins): return ins.f[0].f[1]
def instr_type(ins): return ins.f[1]               # E InstructionType
def script_of(ins): return ins.f[1].p[2][0] if 2 in ins.f[1].p else None


def opt_is_none(o): return simp(zeq(o.d, 0))


def opt_eq_str(o, present, sv):
    """Option<String> o equals (Some(sv) if present else None)"""
    if 1 not in o.p: return simp(zand(zeq(o.d, 0), znot(present)))
    return zand(zeq(o.d, zite(present, 1, 0)), zimp(present, str_eq(o.p[1][0], sv)))
